//! Witness crate: expansions of `x86_64`'s exported macros as a downstream user gets them, for MIR analysis.
//! Nothing here is run. See /verif/DESIGN.md (C13).
#![no_std]
#![feature(abi_x86_interrupt)]
#![allow(dead_code)]

use x86_64::set_general_handler;
use x86_64::structures::idt::{InterruptDescriptorTable, InterruptStackFrame};

/// the user's general handler: an opaque callee for the analysis (its calls are the observed events)
#[inline(never)]
pub fn general_handler(_frame: InterruptStackFrame, _index: u8, _error_code: Option<u64>) {}

/// arm 1: every vector
pub fn install_all(idt: &mut InterruptDescriptorTable) {
    set_general_handler!(idt, general_handler);
}

/// arm 2: one literal vector (one function per interesting class: plain, error code, diverging, reserved, page fault)
pub fn install_lit_3(idt: &mut InterruptDescriptorTable) {
    set_general_handler!(idt, general_handler, 3);
}
pub fn install_lit_8(idt: &mut InterruptDescriptorTable) {
    set_general_handler!(idt, general_handler, 8);
}
pub fn install_lit_14(idt: &mut InterruptDescriptorTable) {
    set_general_handler!(idt, general_handler, 14);
}
pub fn install_lit_15(idt: &mut InterruptDescriptorTable) {
    set_general_handler!(idt, general_handler, 15);
}
pub fn install_lit_255(idt: &mut InterruptDescriptorTable) {
    set_general_handler!(idt, general_handler, 255);
}

/// arm 3: a range expression (every `RangeBounds<u8>` shape with run-time bounds)
pub fn install_inclusive(idt: &mut InterruptDescriptorTable, lo: u8, hi: u8) {
    set_general_handler!(idt, general_handler, lo..=hi);
}
pub fn install_exclusive(idt: &mut InterruptDescriptorTable, lo: u8, hi: u8) {
    set_general_handler!(idt, general_handler, lo..hi);
}
pub fn install_from(idt: &mut InterruptDescriptorTable, lo: u8) {
    set_general_handler!(idt, general_handler, lo..);
}
pub fn install_to(idt: &mut InterruptDescriptorTable, hi: u8) {
    set_general_handler!(idt, general_handler, ..hi);
}
pub fn install_to_inclusive(idt: &mut InterruptDescriptorTable, hi: u8) {
    set_general_handler!(idt, general_handler, ..=hi);
}
pub fn install_full(idt: &mut InterruptDescriptorTable) {
    set_general_handler!(idt, general_handler, ..);
}
