//! Witness crate: expansions of `x86_64`'s exported macros as a downstream user gets them, for MIR analysis.
//! Nothing here is run. See /verif/DESIGN.md (C13).
#![no_std]
#![feature(abi_x86_interrupt)]
#![allow(dead_code)]

use x86_64::set_general_handler;
use x86_64::structures::idt::{InterruptDescriptorTable, InterruptStackFrame};

/// the user's general handler: an opaque callee for the analysis (its calls are the observed events)
#[inline(never)]
pub fn general_handler(_frame: InterruptStackFrame, _index: u8, _error_code: Option<u64>) {}

/// arm 1: every vector
pub fn install_all(idt: &mut InterruptDescriptorTable) {
    set_general_handler!(idt, general_handler);
}

/// arm 2: one literal vector (one function per interesting class: plain, error code, diverging, reserved, page fault)
pub fn install_lit_3(idt: &mut InterruptDescriptorTable) {
    set_general_handler!(idt, general_handler, 3);
}
pub fn install_lit_8(idt: &mut InterruptDescriptorTable) {
    set_general_handler!(idt, general_handler, 8);
}
pub fn install_lit_14(idt: &mut InterruptDescriptorTable) {
    set_general_handler!(idt, general_handler, 14);
}
pub fn install_lit_15(idt: &mut InterruptDescriptorTable) {
    set_general_handler!(idt, general_handler, 15);
}
pub fn install_lit_255(idt: &mut InterruptDescriptorTable) {
    set_general_handler!(idt, general_handler, 255);
}

/// arm 3: a range expression (every `RangeBounds<u8>` shape with run-time bounds)
pub fn install_inclusive(idt: &mut InterruptDescriptorTable, lo: u8, hi: u8) {
    set_general_handler!(idt, general_handler, lo..=hi);
}
pub fn install_exclusive(idt: &mut InterruptDescriptorTable, lo: u8, hi: u8) {
    set_general_handler!(idt, general_handler, lo..hi);
}
pub fn install_from(idt: &mut InterruptDescriptorTable, lo: u8) {
    set_general_handler!(idt, general_handler, lo..);
}
pub fn install_to(idt: &mut InterruptDescriptorTable, hi: u8) {
    set_general_handler!(idt, general_handler, ..hi);
}
pub fn install_to_inclusive(idt: &mut InterruptDescriptorTable, hi: u8) {
    set_general_handler!(idt, general_handler, ..=hi);
}
pub fn install_full(idt: &mut InterruptDescriptorTable) {
    set_general_handler!(idt, general_handler, ..);
}

/// Compile-fail witnesses (type-level remainder of the properties) with their compiling twins. Run by
/// `cargo +nightly test --doc` in the thorough tier (`no_run`: the twins are compiled, never executed). Every witness
/// names the crate as a downstream user does and differs from its twin only by the offending expression.
pub mod cf {
    /// C03: a `VirtAddr` cannot be forged around the canonical check.
    /// ```compile_fail,E0423
    /// let a = x86_64::VirtAddr(0x8000_0000_0000);
    /// ```
    /// ```no_run
    /// let a = x86_64::VirtAddr::new(0x7fff_ffff_f000);
    /// ```
    pub struct C03VirtAddrCtor;

    /// C03: the inner value of a `VirtAddr` cannot be overwritten.
    /// ```compile_fail,E0616
    /// let mut a = x86_64::VirtAddr::new(0); a.0 = 0x8000_0000_0000;
    /// ```
    /// ```no_run
    /// let mut a = x86_64::VirtAddr::new(0); a = x86_64::VirtAddr::new(0x1000);
    /// ```
    pub struct C03VirtAddrField;

    /// C03: a `PhysAddr` cannot be forged around the 52-bit check.
    /// ```compile_fail,E0423
    /// let a = x86_64::PhysAddr(1 << 52);
    /// ```
    /// ```no_run
    /// let a = x86_64::PhysAddr::new((1 << 52) - 1);
    /// ```
    pub struct C03PhysAddrCtor;

    /// C04: a `PageTableIndex` >= 512 cannot be forged.
    /// ```compile_fail,E0423
    /// let i = x86_64::structures::paging::PageTableIndex(512);
    /// ```
    /// ```no_run
    /// let i = x86_64::structures::paging::PageTableIndex::new(511);
    /// ```
    pub struct C04IndexCtor;

    /// C04: a `PageOffset` >= 4096 cannot be forged.
    /// ```compile_fail,E0423
    /// let i = x86_64::structures::paging::PageOffset(4096);
    /// ```
    /// ```no_run
    /// let i = x86_64::structures::paging::PageOffset::new(4095);
    /// ```
    pub struct C04OffsetCtor;

    /// C06: an unaligned `Page` cannot be built from its fields.
    /// ```compile_fail,E0451
    /// use x86_64::structures::paging::{Page, Size4KiB};
    /// let p: Page<Size4KiB> = Page { start_address: x86_64::VirtAddr::new(1), size: core::marker::PhantomData };
    /// ```
    /// ```no_run
    /// use x86_64::structures::paging::{Page, Size4KiB};
    /// let p: Page<Size4KiB> = Page::containing_address(x86_64::VirtAddr::new(1));
    /// ```
    pub struct C06PageFields;

    /// C06: an unaligned `PhysFrame` cannot be built from its fields.
    /// ```compile_fail,E0451
    /// use x86_64::structures::paging::{PhysFrame, Size4KiB};
    /// let p: PhysFrame<Size4KiB> = PhysFrame { start_address: x86_64::PhysAddr::new(1), size: core::marker::PhantomData };
    /// ```
    /// ```no_run
    /// use x86_64::structures::paging::{PhysFrame, Size4KiB};
    /// let p: PhysFrame<Size4KiB> = PhysFrame::containing_address(x86_64::PhysAddr::new(1));
    /// ```
    pub struct C06FrameFields;

    /// C08: the raw word of a page-table entry is reachable only through the entry's API.
    /// ```compile_fail,E0616
    /// let mut e = x86_64::structures::paging::page_table::PageTableEntry::new(); e.entry = 1;
    /// ```
    /// ```no_run
    /// let mut e = x86_64::structures::paging::page_table::PageTableEntry::new(); e.set_unused();
    /// ```
    pub struct C08EntryField;

    /// C12: the page-fault entry only takes a handler with the page-fault signature.
    /// ```compile_fail,E0308
    /// #![feature(abi_x86_interrupt)]
    /// use x86_64::structures::idt::*;
    /// extern "x86-interrupt" fn h(_: InterruptStackFrame) {}
    /// fn f(idt: &mut InterruptDescriptorTable) { idt.page_fault.set_handler_fn(h); }
    /// ```
    /// ```no_run
    /// #![feature(abi_x86_interrupt)]
    /// use x86_64::structures::idt::*;
    /// extern "x86-interrupt" fn h(_: InterruptStackFrame) {}
    /// fn f(idt: &mut InterruptDescriptorTable) { idt.breakpoint.set_handler_fn(h); }
    /// ```
    pub struct C12PageFaultSig;

    /// C12: the double-fault entry only takes a diverging handler with an error code.
    /// ```compile_fail,E0308
    /// #![feature(abi_x86_interrupt)]
    /// use x86_64::structures::idt::*;
    /// extern "x86-interrupt" fn h(_: InterruptStackFrame, _: u64) {}
    /// fn f(idt: &mut InterruptDescriptorTable) { idt.double_fault.set_handler_fn(h); }
    /// ```
    /// ```no_run
    /// #![feature(abi_x86_interrupt)]
    /// use x86_64::structures::idt::*;
    /// extern "x86-interrupt" fn h(_: InterruptStackFrame, _: u64) {}
    /// fn f(idt: &mut InterruptDescriptorTable) { idt.invalid_tss.set_handler_fn(h); }
    /// ```
    pub struct C12DoubleFaultSig;

    /// C12: entries reached by index take plain handlers only.
    /// ```compile_fail,E0308
    /// #![feature(abi_x86_interrupt)]
    /// use x86_64::structures::idt::*;
    /// extern "x86-interrupt" fn h(_: InterruptStackFrame, _: u64) {}
    /// fn f(idt: &mut InterruptDescriptorTable) { idt[32].set_handler_fn(h); }
    /// ```
    /// ```no_run
    /// #![feature(abi_x86_interrupt)]
    /// use x86_64::structures::idt::*;
    /// extern "x86-interrupt" fn h(_: InterruptStackFrame) {}
    /// fn f(idt: &mut InterruptDescriptorTable) { idt[32].set_handler_fn(h); }
    /// ```
    pub struct C12IndexSig;

    /// C12: the gate's fields are not writable from outside.
    /// ```compile_fail,E0616
    /// use x86_64::structures::idt::*;
    /// fn f(idt: &mut InterruptDescriptorTable) { idt.breakpoint.pointer_low = 1; }
    /// ```
    /// ```no_run
    /// use x86_64::structures::idt::*;
    /// fn f(idt: &mut InterruptDescriptorTable) { idt.breakpoint = Entry::missing(); }
    /// ```
    pub struct C12EntryField;

    /// C14: a GDT without room for the null descriptor is rejected at compile time.
    /// ```compile_fail,E0080
    /// use x86_64::structures::gdt::GlobalDescriptorTable;
    /// const G: GlobalDescriptorTable<0> = GlobalDescriptorTable::<0>::empty();
    /// let _ = G.limit();
    /// ```
    /// ```no_run
    /// use x86_64::structures::gdt::GlobalDescriptorTable;
    /// const G: GlobalDescriptorTable<1> = GlobalDescriptorTable::<1>::empty();
    /// let _ = G.limit();
    /// ```
    pub struct C14ZeroCapacity;

    /// C14: the table and its length are not writable from outside.
    /// ```compile_fail,E0616
    /// let mut g = x86_64::structures::gdt::GlobalDescriptorTable::<8>::empty(); g.len = 9;
    /// ```
    /// ```no_run
    /// let mut g = x86_64::structures::gdt::GlobalDescriptorTable::<8>::empty(); let _ = g.limit();
    /// ```
    pub struct C14LenField;

    /// C18: a read-only port has no `write`.
    /// ```compile_fail,E0599
    /// let mut p = x86_64::instructions::port::PortReadOnly::<u8>::new(0x60); unsafe { p.write(1) };
    /// ```
    /// ```no_run
    /// let mut p = x86_64::instructions::port::Port::<u8>::new(0x60); unsafe { p.write(1) };
    /// ```
    pub struct C18ReadOnlyWrite;

    /// C18: a write-only port has no `read`.
    /// ```compile_fail,E0599
    /// let mut p = x86_64::instructions::port::PortWriteOnly::<u8>::new(0x60); let _ = unsafe { p.read() };
    /// ```
    /// ```no_run
    /// let mut p = x86_64::instructions::port::Port::<u8>::new(0x60); let _ = unsafe { p.read() };
    /// ```
    pub struct C18WriteOnlyRead;

    /// C18: there is no 64-bit port access.
    /// ```compile_fail,E0599
    /// let mut p = x86_64::instructions::port::Port::<u64>::new(0x60); let _ = unsafe { p.read() };
    /// ```
    /// ```no_run
    /// let mut p = x86_64::instructions::port::Port::<u32>::new(0x60); let _ = unsafe { p.read() };
    /// ```
    pub struct C18NoU64;

    /// C19: a `Pcid` >= 4096 cannot be forged.
    /// ```compile_fail,E0603
    /// let p = x86_64::instructions::tlb::Pcid(4096);
    /// ```
    /// ```no_run
    /// let p = x86_64::instructions::tlb::Pcid::new(4095);
    /// ```
    pub struct C19PcidCtor;

    /// C20: a `RecursivePageTable` cannot be built around `new`'s checks.
    /// ```compile_fail,E0451
    /// use x86_64::structures::paging::{RecursivePageTable, PageTable, PageTableIndex};
    /// fn f(t: &'static mut PageTable) -> RecursivePageTable<'static> { RecursivePageTable { p4: t, recursive_index: PageTableIndex::new(0) } }
    /// ```
    /// ```no_run
    /// use x86_64::structures::paging::{RecursivePageTable, PageTable, PageTableIndex};
    /// fn f(t: &'static mut PageTable) -> RecursivePageTable<'static> { RecursivePageTable::new(t).unwrap() }
    /// ```
    pub struct C20Fields;

    /// C09/C02: building a `MappedPageTable` is an unsafe promise about the table and the translation.
    /// ```compile_fail,E0133
    /// use x86_64::structures::paging::{OffsetPageTable, PageTable};
    /// fn f(t: &'static mut PageTable) { let _ = OffsetPageTable::new(t, x86_64::VirtAddr::new(0)); }
    /// ```
    /// ```no_run
    /// use x86_64::structures::paging::{OffsetPageTable, PageTable};
    /// fn f(t: &'static mut PageTable) { let _ = unsafe { OffsetPageTable::new(t, x86_64::VirtAddr::new(0)) }; }
    /// ```
    pub struct C09UnsafeNew;

    /// C11: a flush token cannot be dropped silently (`#[must_use]`, denied here).
    /// ```compile_fail
    /// #![deny(unused_must_use)]
    /// use x86_64::structures::paging::{mapper::MapperFlush, Page, Size4KiB};
    /// fn f(p: Page<Size4KiB>) { MapperFlush::new(p); }
    /// ```
    /// ```no_run
    /// #![deny(unused_must_use)]
    /// use x86_64::structures::paging::{mapper::MapperFlush, Page, Size4KiB};
    /// fn f(p: Page<Size4KiB>) { MapperFlush::new(p).ignore(); }
    /// ```
    pub struct C11MustUse;
}
