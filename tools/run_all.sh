#!/bin/bash
# run every registered check on /repo's working tree (tier = $1, default quick), 8 at a time; prints one line per check
cd "$(dirname "$0")/.."
tier=${1:-quick}
tmp=$(mktemp -d)
for i in 01 02 03 04 05 06 07 08 09 10 11 12 13 14 15 16 17 18 19 20; do
  echo C$i
done | xargs -P 8 -I{} sh -c "./check {} --tier $tier > $tmp/{}.out 2>&1; echo \"{} rc=\$? \$(grep -h 'obligations=' $tmp/{}.out | cut -d' ' -f2-)\"" | sort
grep -l "VIOLATION\|KNOWN-FINDING" $tmp/*.out 2>/dev/null | while read f; do echo "== $f"; grep -B1 -A3 "REFUTED\|UNPROVEN\|KNOWN-FINDING" "$f" | head -30; done
rm -rf "$tmp"
