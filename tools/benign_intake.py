#!/usr/bin/env python3
"""tools/benign_intake.py : files the behaviour-preserving refactorings delivered by sub-agents under /tmp/seedb/out/<Cxx>/change<k>.diff
into /verif/benign/<cxx>-r<k>/ after confirming, in the scratch worktree /tmp/seedb/<Cxx>, that each applies, builds and passes the
existing suite (36 unit tests). Equivalence itself is the agent's argument (notes.md) and is re-read whenever a check alarms."""
import concurrent.futures, json, os, re, shutil, subprocess, sys
VERIF = os.path.dirname(os.path.dirname(os.path.abspath(__file__)))


def sh(cmd, cwd):
    env = dict(os.environ)
    env['CARGO_NET_OFFLINE'] = 'true'
    p = subprocess.run(cmd, cwd=cwd, shell=True, stdout=subprocess.PIPE, stderr=subprocess.STDOUT, text=True, env=env)
    return p.returncode, p.stdout


def one(pid):
    wt = '/tmp/seedb/%s' % pid
    od = '/tmp/seedb/out/%s' % pid
    res = []
    for k in (1, 2, 3):
        diff = os.path.join(od, 'change%d.diff' % k)
        if not os.path.exists(diff):
            continue
        sh('git checkout -q -- . && git clean -fdq -e target', wt)
        rc, out = sh('git apply --check %s && git apply %s' % (diff, diff), wt)
        if rc != 0:
            res.append('%s r%d: PATCH DOES NOT APPLY' % (pid, k))
            continue
        touched = subprocess.check_output('git diff --name-only', cwd=wt, shell=True, text=True).split()
        rct, outt = sh('cargo test --offline -j 8 2>&1', wt)
        lines = [l.strip() for l in outt.split('\n') if l.startswith('test result:')]
        ok = rct == 0 and any(re.search(r'\b36 passed; 0 failed', l) for l in lines)
        sh('git checkout -q -- . && git clean -fdq -e target', wt)
        if not ok:
            res.append('%s r%d: SUITE FAILS %s' % (pid, k, lines[:2]))
            continue
        sid = '%s-r%d' % (pid.lower(), k)
        d = os.path.join(VERIF, 'benign', sid)
        os.makedirs(d, exist_ok=True)
        shutil.copy(diff, os.path.join(d, 'patch.diff'))
        n = os.path.join(od, 'notes%d.md' % k)
        if os.path.exists(n):
            shutil.copy(n, os.path.join(d, 'notes.md'))
        json.dump({'id': sid, 'property': pid, 'touches': touched, 'origin': 'fresh sub-agent asked for a behaviour-preserving refactoring of the code the property is anchored in',
                   'confirmed_by_running': [{'cmd': 'cargo test --offline (existing suite) with the refactoring applied', 'result': lines}]}, open(os.path.join(d, 'meta.json'), 'w'), indent=1)
        res.append('%s r%d: filed %s (%s)' % (pid, k, sid, ','.join(touched)))
    return res


pids = sys.argv[1:] or ['C%02d' % i for i in range(1, 21)]
with concurrent.futures.ThreadPoolExecutor(max_workers=8) as ex:
    for r in ex.map(one, pids):
        for l in r:
            print(l)
