#!/usr/bin/env python3
"""tools/benign_intake.py [--base DIR] [--shift N] [Cxx ...]: files the behaviour-preserving refactorings delivered by sub-agents under
<base>/out/<Cxx>/change<k>.diff (base: /tmp/seedb for round 1, /tmp/seedc for round 2) into /verif/benign/<cxx>-r<k+N>/ after confirming,
in the scratch worktree <base>/<Cxx>, that each applies, builds and passes the existing suite (36 unit tests). Equivalence itself is the
agent's argument (notes.md) and is re-read whenever a check alarms."""
import concurrent.futures, json, os, re, shutil, subprocess, sys
VERIF = os.path.dirname(os.path.dirname(os.path.abspath(__file__)))


def sh(cmd, cwd):
    env = dict(os.environ)
    env['CARGO_NET_OFFLINE'] = 'true'
    p = subprocess.run(cmd, cwd=cwd, shell=True, stdout=subprocess.PIPE, stderr=subprocess.STDOUT, text=True, env=env)
    return p.returncode, p.stdout


def one(pid):
    wt = '%s/%s' % (BASE, pid)
    od = '%s/out/%s' % (BASE, pid)
    res = []
    for k in (1, 2, 3):
        diff = os.path.join(od, 'change%d.diff' % k)
        if not os.path.exists(diff):
            continue
        sh('git checkout -q -- . && git clean -fdq -e target', wt)
        rc, out = sh('git apply --check %s && git apply %s' % (diff, diff), wt)
        if rc != 0:
            res.append('%s r%d: PATCH DOES NOT APPLY' % (pid, k))
            continue
        touched = subprocess.check_output('git diff --name-only', cwd=wt, shell=True, text=True).split()
        rct, outt = sh('cargo test --offline -j 8 2>&1', wt)
        lines = [l.strip() for l in outt.split('\n') if l.startswith('test result:')]
        ok = rct == 0 and any(re.search(r'\b36 passed; 0 failed', l) for l in lines)
        sh('git checkout -q -- . && git clean -fdq -e target', wt)
        if not ok:
            res.append('%s r%d: SUITE FAILS %s' % (pid, k, lines[:2]))
            continue
        sid = '%s-r%d' % (pid.lower(), k + SHIFT)
        d = os.path.join(VERIF, 'benign', sid)
        os.makedirs(d, exist_ok=True)
        shutil.copy(diff, os.path.join(d, 'patch.diff'))
        n = os.path.join(od, 'notes%d.md' % k)
        if os.path.exists(n):
            shutil.copy(n, os.path.join(d, 'notes.md'))
        json.dump({'id': sid, 'property': pid, 'touches': touched, 'origin': 'fresh sub-agent asked for a behaviour-preserving refactoring of the code the property is anchored in (%s change %d)' % (BASE, k),
                   'confirmed_by_running': [{'cmd': 'cargo test --offline (existing suite) with the refactoring applied', 'result': lines}]}, open(os.path.join(d, 'meta.json'), 'w'), indent=1)
        res.append('%s r%d: filed %s (%s)' % (pid, k, sid, ','.join(touched)))
    return res


argv = sys.argv[1:]
BASE, SHIFT = '/tmp/seedb', 0
while argv and argv[0].startswith('--'):
    if argv[0] == '--base':
        BASE = argv[1]
    elif argv[0] == '--shift':
        SHIFT = int(argv[1])
    argv = argv[2:]
pids = argv or ['C%02d' % i for i in range(1, 21)]
with concurrent.futures.ThreadPoolExecutor(max_workers=8) as ex:
    for r in ex.map(one, pids):
        for l in r:
            print(l)
