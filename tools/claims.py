# Per-property claims (exec'd by gen_manifest.py). Keep level_note honest about what is NOT decided.
claim('C19', 'proof',
      'Every named constant of the crate (196 today) is compared with an oracle typed in from the manuals by architectural name; every small codec is decided for its whole input domain: exhaustively over the interpreter\'s path partition for u8/u16 inputs, by cube covers and bit-provenance rules for 64-bit inputs. Proof-level because each obligation is discharged for all inputs by abstract interpretation of the MIR.',
      'Trusted: spec/arch_constants.py transcription of the manuals; rustc const-eval; the interpreter\'s models of bit_field and bitflags-generated methods. A public constant without oracle entry fails the check (coverage floor).',
      'abstract interpretation of MIR (bit-provenance domain, path partition) + constant/layout facts vs. oracle table', 'DESIGN.md 4 C19')
claim('C15', 'proof',
      'The TSS descriptor is computed symbolically for all 2^64 pointers (each output bit is shown to be the right pointer bit or constant); the six preset descriptors are decoded field by field with the oracle\'s segment-descriptor format; dpl() is decided by a cube cover of the DPL field; TSS and descriptor-table-pointer layouts and TaskStateSegment::new are compared with the architectural layout.',
      'Trusted: spec/descriptors.py; rustc layout computation; bit_field model. Nothing of the statement is left undecided.',
      'abstract interpretation of MIR (bit-provenance) + layout facts vs. oracle', 'DESIGN.md 4 C15')
