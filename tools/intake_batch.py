#!/usr/bin/env python3
"""tools/intake_batch.py <spec file> : lines `Cxx k id | demo flags | needs`; runs seed_intake.py per line, properties in parallel"""
import concurrent.futures, os, subprocess, sys, collections
HERE = os.path.dirname(os.path.abspath(__file__))
lines = [l.strip() for l in open(sys.argv[1]) if l.strip()]
by = collections.OrderedDict()
for l in lines:
    head, flags, needs = [x.strip() for x in l.split('|', 2)]
    pid, k, sid = head.split()
    by.setdefault(pid, []).append((k, sid, flags, needs))
def run(pid):
    out = []
    for k, sid, flags, needs in by[pid]:
        cmd = [sys.executable, os.path.join(HERE, 'seed_intake.py'), pid, k, sid, needs] + ([flags] if flags and not flags.startswith('append:') else []) + ([''] + [flags] if flags.startswith('append:') else [])
        p = subprocess.run(cmd, stdout=subprocess.PIPE, stderr=subprocess.STDOUT, text=True)
        tail = [x for x in p.stdout.strip().split('\n')[-2:]]
        out.append('%s %s %s: %s' % (pid, k, sid, ' | '.join(tail)[-160:]))
        open(os.path.join(os.environ.get('SEED_OUT', '/tmp/seed/out'), pid, 'intake%s.log' % k), 'w').write(p.stdout)
    return out
with concurrent.futures.ThreadPoolExecutor(max_workers=8) as ex:
    for res in ex.map(run, list(by)):
        for r in res:
            print(r)
