#!/usr/bin/env python3
"""Run every registered check against the behaviour-preserving refactorings under /verif/benign/<id>/ (scratch copy of /repo + patch;
/repo is never touched). A refactoring on which any check reports a VIOLATION is NOISY: either the refactoring is not equivalent after all
(triage by reading; then it is moved to seeded/ or dropped) or the check raises a false alarm and must be corrected.
usage: tools/benign.py [--only <substr>] [--jobs N] [--props C01,C02]"""
import concurrent.futures, json, os, shutil, subprocess, sys, tempfile
HERE = os.path.dirname(os.path.abspath(__file__))
VERIF = os.path.dirname(HERE)
BEN = os.path.join(VERIF, 'benign')
ALL = ['C%02d' % i for i in range(1, 21)]


def run_one(sid, props):
    d = os.path.join(BEN, sid)
    tmp = tempfile.mkdtemp(prefix='x86ben-')
    try:
        for f in ('src', 'Cargo.toml', 'Cargo.lock', 'rust-toolchain.toml'):
            s = os.path.join('/repo', f)
            if os.path.isdir(s):
                shutil.copytree(s, os.path.join(tmp, f))
            elif os.path.exists(s):
                shutil.copy(s, os.path.join(tmp, f))
        r = subprocess.run(['git', 'apply', os.path.join(d, 'patch.diff')], cwd=tmp, stdout=subprocess.PIPE, stderr=subprocess.STDOUT, text=True)
        if r.returncode != 0:
            return sid, {'_apply': r.stdout[:200]}
        res = {}
        for pid in props:
            env = dict(os.environ)
            env['X86_REPO'] = tmp
            env['VERIF_EVIDENCE_DIR'] = os.path.join(tmp, 'evidence')
            p = subprocess.run([os.path.join(VERIF, 'check'), pid], env=env, stdout=subprocess.PIPE, stderr=subprocess.STDOUT, text=True)
            if p.returncode != 0 or 'VIOLATION' in p.stdout:
                res[pid] = [l.strip() for l in p.stdout.split('\n') if l.startswith('  REFUTED') or l.startswith('  UNPROVEN')][:3] or ['exit %d' % p.returncode]
        return sid, res
    finally:
        shutil.rmtree(tmp, ignore_errors=True)


def main():
    a = sys.argv[1:]
    only, jobs, props = None, 6, ALL
    while a:
        if a[0] == '--only':
            only = a[1]; a = a[2:]
        elif a[0] == '--jobs':
            jobs = int(a[1]); a = a[2:]
        elif a[0] == '--props':
            props = a[1].split(','); a = a[2:]
        else:
            a = a[1:]
    ids = sorted(x for x in os.listdir(BEN) if os.path.exists(os.path.join(BEN, x, 'patch.diff')))
    if only:
        ids = [i for i in ids if only in i]
    noisy = 0
    with concurrent.futures.ThreadPoolExecutor(max_workers=jobs) as ex:
        for sid, res in ex.map(lambda s: run_one(s, props), ids):
            if res:
                noisy += 1
                print('%-12s NOISY  %s' % (sid, '; '.join('%s: %s' % (k, ' | '.join(v)[:200] if isinstance(v, list) else v) for k, v in res.items())))
            else:
                print('%-12s SILENT' % sid)
    print('benign: %d refactorings, %d noisy' % (len(ids), noisy))
    return 1 if noisy else 0


if __name__ == '__main__':
    sys.exit(main())
