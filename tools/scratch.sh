#!/bin/bash
# tools/scratch.sh <patch.diff> <Cxx> [more check args]: apply a patch to a scratch copy of /repo and run one check on it, printing the reports
d=$(mktemp -d /tmp/x86scr-XXXX); cp -r /repo/src /repo/Cargo.toml /repo/Cargo.lock $d/
(cd $d && git apply "$1") || { echo "patch does not apply"; rm -rf $d; exit 2; }
shift
X86_REPO=$d VERIF_EVIDENCE_DIR=$d/ev "$(dirname "$0")/../check" "$@" 2>&1 | grep -v "^\[facts\]" | tail -${TAILN:-14}
rm -rf $d
