#!/usr/bin/env python3
"""Confirm a seeded change delivered by a sub-agent and file it under /verif/seeded/<id>/.

usage: tools/seed_intake.py <Cxx> <k> <id> "<needs>"  [--demo-kind test|none]

Looks at /tmp/seed/out/<Cxx>/{change<k>.diff, demo<k>.rs, notes<k>.md} and the scratch worktree /tmp/seed/<Cxx>
(a git worktree of /repo at HEAD, outside /repo and /verif). Confirms, in that worktree:
  1. the demonstration passes on the unchanged tree,
  2. with the change applied the crate builds and the whole existing suite (`cargo test --offline`) still passes
     (36 unit tests),
  3. the demonstration fails with the change,
then reverts the worktree and writes seeded/<id>/{patch.diff, demo.rs, notes.md, meta.json}.
"""
import json
import os
import re
import shutil
import subprocess
import sys

VERIF = os.path.dirname(os.path.dirname(os.path.abspath(__file__)))


def sh(cmd, cwd):
    env = dict(os.environ)
    env['CARGO_NET_OFFLINE'] = 'true'
    p = subprocess.run(cmd, cwd=cwd, shell=True, stdout=subprocess.PIPE, stderr=subprocess.STDOUT, text=True, env=env)
    return p.returncode, p.stdout


def summary(out):
    return [l.strip() for l in out.split('\n') if l.startswith('test result:')]


def main():
    pid, k, sid, needs = sys.argv[1:5]
    dflags = sys.argv[5] if len(sys.argv) > 5 else ''   # e.g. --release for demonstrations that need an optimised build
    wt = '/tmp/seed/%s' % pid
    od = os.path.join(os.environ.get('SEED_OUT', '/tmp/seed/out'), pid)
    diff = os.path.join(od, 'change%s.diff' % k)
    demo = os.path.join(od, 'demo%s.rs' % k)
    ran = []
    sh('git checkout -q -- . && git clean -fdq -e target', wt)
    have_demo = os.path.exists(demo)
    tname = 'seed_demo'
    append = None
    for a in sys.argv[5:]:
        if a.startswith('append:'):
            append = a[7:]
            dflags = dflags if not dflags.startswith('append:') else ''
    if append:
        return append_mode(pid, k, sid, needs, wt, od, diff, demo, append, dflags)
    if have_demo:
        os.makedirs(os.path.join(wt, 'tests'), exist_ok=True)
        shutil.copy(demo, os.path.join(wt, 'tests', tname + '.rs'))
        rc0, out0 = sh('cargo test --offline -j 8 %s --test %s 2>&1' % (dflags, tname), wt)
        ran.append({'cmd': 'unchanged tree: cargo test --offline %s --test demo' % dflags, 'exit': rc0, 'result': summary(out0)})
        if rc0 != 0:
            print('DEMO DOES NOT PASS ON THE UNCHANGED TREE\n' + out0[-1500:])
    rc, out = sh('git apply --check %s && git apply %s' % (diff, diff), wt)
    if rc != 0:
        print('PATCH DOES NOT APPLY\n' + out)
        sh('git checkout -q -- . && git clean -fdq -e target', wt)
        return 1
    touched = subprocess.check_output('git diff --name-only', cwd=wt, shell=True, text=True).split()
    rcb, outb = sh('cargo build --offline -j 8 2>&1', wt)
    ran.append({'cmd': 'changed tree: cargo build --offline', 'exit': rcb})
    # the existing suite = everything but the demo
    if have_demo:
        os.rename(os.path.join(wt, 'tests', tname + '.rs'), os.path.join(wt, tname + '.rs.off'))
    rct, outt = sh('cargo test --offline -j 8 2>&1', wt)
    res = summary(outt)
    ran.append({'cmd': 'changed tree: cargo test --offline (existing suite)', 'exit': rct, 'result': res})
    unit_ok = any(re.search(r'\b(3[6-9]|[4-9][0-9]) passed; 0 failed', l) for l in res)
    rc1, out1 = (None, '')
    if have_demo:
        os.rename(os.path.join(wt, tname + '.rs.off'), os.path.join(wt, 'tests', tname + '.rs'))
        rc1, out1 = sh('cargo test --offline -j 8 %s --test %s 2>&1' % (dflags, tname), wt)
        fails = [l.strip() for l in out1.split('\n') if re.match(r'^test .* FAILED$', l.strip())]
        ran.append({'cmd': 'changed tree: cargo test --offline %s --test demo' % dflags, 'exit': rc1, 'result': summary(out1), 'failing': fails[:6]})
    sh('git checkout -q -- . && git clean -fdq -e target', wt)
    ok = rcb == 0 and rct == 0 and unit_ok and (not have_demo or (rc0 == 0 and rc1 not in (0, None) and 'test result: FAILED' in out1))
    print(json.dumps(ran, indent=1))
    print('touched:', touched, ' CONFIRMED' if ok else ' NOT CONFIRMED')
    if not ok:
        if have_demo and rc1 not in (0, None) and 'test result: FAILED' not in out1:
            print(out1[-2000:])
        return 1
    d = os.path.join(VERIF, 'seeded', sid)
    os.makedirs(d, exist_ok=True)
    shutil.copy(diff, os.path.join(d, 'patch.diff'))
    if have_demo:
        shutil.copy(demo, os.path.join(d, 'demo.rs'))
    n = os.path.join(od, 'notes%s.md' % k)
    if os.path.exists(n):
        shutil.copy(n, os.path.join(d, 'notes.md'))
    head = subprocess.check_output('git rev-parse --short HEAD', cwd=wt, shell=True, text=True).strip()
    meta = {'id': sid, 'property': pid, 'needs': needs, 'touches': touched, 'base_commit': head,
            'origin': 'fresh sub-agent given only the property text and a scratch worktree',
            'demo': 'demo.rs: drop into tests/ of the crate and run `cargo test --offline ' + dflags + ' --test <name>`; fails with the patch, passes without' if have_demo else 'none runnable; see notes.md',
            'confirmed_by_running': ran}
    json.dump(meta, open(os.path.join(d, 'meta.json'), 'w'), indent=1)
    print('filed', d)
    return 0


def append_mode(pid, k, sid, needs, wt, od, diff, demo, append, dflags):
    """the demonstration is a #[cfg(test)] module appended to a source file (it needs private items)"""
    ran = []
    src = os.path.join(wt, append)
    clean = 'git checkout -q -- . && git clean -fdq -e target'

    def with_demo():
        with open(src, 'a') as fh:
            fh.write('\n' + open(demo).read())
    with_demo()
    rc0, out0 = sh('cargo test --offline -j 8 %s --lib 2>&1' % dflags, wt)
    ran.append({'cmd': 'unchanged tree + demo module appended to %s: cargo test --offline --lib' % append, 'exit': rc0, 'result': summary(out0)})
    sh(clean, wt)
    rc, out = sh('git apply --check %s && git apply %s' % (diff, diff), wt)
    if rc != 0:
        print('PATCH DOES NOT APPLY\n' + out)
        return 1
    touched = subprocess.check_output('git diff --name-only', cwd=wt, shell=True, text=True).split()
    rct, outt = sh('cargo test --offline -j 8 2>&1', wt)
    res = summary(outt)
    ran.append({'cmd': 'changed tree: cargo test --offline (existing suite)', 'exit': rct, 'result': res})
    unit_ok = any(re.search(r'\b(3[6-9]|[4-9][0-9]) passed; 0 failed', l) for l in res)
    with_demo()
    rc1, out1 = sh('cargo test --offline -j 8 %s --lib 2>&1' % dflags, wt)
    fails = [l.strip() for l in out1.split('\n') if re.match(r'^test .* FAILED$', l.strip())]
    ran.append({'cmd': 'changed tree + demo module: cargo test --offline --lib', 'exit': rc1, 'result': summary(out1), 'failing': fails[:6]})
    sh(clean, wt)
    ok = rc0 == 0 and rct == 0 and unit_ok and rc1 != 0 and 'test result: FAILED' in out1
    print(json.dumps(ran, indent=1))
    print('touched:', touched, ' CONFIRMED' if ok else ' NOT CONFIRMED')
    if not ok:
        return 1
    d = os.path.join(VERIF, 'seeded', sid)
    os.makedirs(d, exist_ok=True)
    shutil.copy(diff, os.path.join(d, 'patch.diff'))
    shutil.copy(demo, os.path.join(d, 'demo.rs'))
    n = os.path.join(od, 'notes%s.md' % k)
    if os.path.exists(n):
        shutil.copy(n, os.path.join(d, 'notes.md'))
    head = subprocess.check_output('git rev-parse --short HEAD', cwd=wt, shell=True, text=True).strip()
    meta = {'id': sid, 'property': pid, 'needs': needs, 'touches': touched, 'base_commit': head,
            'origin': 'fresh sub-agent given only the property text and a scratch worktree',
            'demo': 'demo.rs: a #[cfg(test)] module to append to %s, then `cargo test --offline --lib`; fails with the patch, passes without' % append,
            'confirmed_by_running': ran}
    json.dump(meta, open(os.path.join(d, 'meta.json'), 'w'), indent=1)
    print('filed', d)
    return 0


if __name__ == '__main__':
    sys.exit(main())
