#!/usr/bin/env python3
"""Regenerates /verif/MANIFEST.json from the per-property table below (claimed checks and not-applicable reasons)."""
import json
import os

VERIF = os.path.dirname(os.path.dirname(os.path.abspath(__file__)))
props = [json.loads(l) for l in open(os.path.join(VERIF, 'properties.jsonl'))]

# property -> dict(level, text, note, technique, design_ref)
CLAIMS = {}
NA = {}


def claim(pid, level, text, note, technique, ref):
    CLAIMS[pid] = dict(level=level, text=text, note=note, technique=technique, ref=ref)


EXTRA = {}
exec(open(os.path.join(VERIF, 'tools', 'claims.py')).read())
for _pid, _c in CLAIMS.items():
    _c['text'] = _c['text'] + EXTRA.get(_pid, '') + EXTRA.get('ALL', '')

checks = []
for p in props:
    pid = p['id']
    if pid in CLAIMS:
        c = CLAIMS[pid]
        checks.append({
            'property_id': pid,
            'quick_cmd': './check %s --tier quick' % pid,
            'thorough_cmd': './check %s --tier thorough' % pid,
            'evidence_file': 'evidence/%s.json' % pid,
            'replay_cmd_template': './check %s --replay {path}' % pid,
            'engine': 'x86abs',
            'level_claimed': {'category': c['level'], 'text': c['text'], 'design_ref': c['ref']},
            'level_note': c['note'],
            'technique': c['technique'],
        })
na = [{'property_id': p['id'], 'reason': NA.get(p['id'], 'check under construction (not yet claimed)')} for p in props if p['id'] not in CLAIMS]
m = {
    'version': 1,
    'setup_cmd': './setup.sh',
    'hooks': {
        'guard': 'x86_64_verif',
        'enable': 'no hooks: nothing from /repo is executed; checks read the type-checked program (MIR, layouts, constants, inline-asm operands) through a rustc_private driver run under cargo +nightly check',
        'baseline_off_cmd': 'cd /repo && cargo test --workspace --no-fail-fast --offline',
        'source_commits': [],
        'add_only': True,
    },
    'engines': [
        {'name': 'x86facts', 'path': 'engine/x86facts', 'serves_properties': sorted(CLAIMS), 'kind_free_text': 'rustc_private driver (nightly) dumping MIR with resolved callees, layouts, evaluated constants, impl tables and inline-asm operands as JSON'},
        {'name': 'x86abs', 'path': 'engine/x86abs', 'serves_properties': sorted(CLAIMS), 'kind_free_text': 'abstract interpreter over MIR (per-bit provenance + slice-affine + interval domains, trace partitioning), CFG/call-graph rules, oracle tables under spec/'},
    ],
    'checks': checks,
    'notes': 'Static analysis only (DESIGN.md). Each check re-extracts facts from /repo\'s working tree (content-hash keyed cache) and never executes /repo code.',
    'not_applicable': na,
}
json.dump(m, open(os.path.join(VERIF, 'MANIFEST.json'), 'w'), indent=1)
print('claimed:', sorted(CLAIMS), 'n/a:', [x['property_id'] for x in na])
