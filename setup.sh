#!/bin/sh
# Build the fact extractor (rustc_private driver) offline. Idempotent.
set -e
cd "$(dirname "$0")/engine/x86facts"
CARGO_NET_OFFLINE=true cargo +nightly build --release --offline 2>&1 | tail -3
test -x target/release/drv
echo "setup ok"
