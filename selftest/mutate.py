#!/usr/bin/env python3
"""Self-test of the checkers: apply one-line mutants / benign edits to a scratch copy of /repo and run the checks.

usage: selftest/mutate.py [--only <substr>] [--jobs N]
Each entry of MUTANTS is (id, [properties expected to fire], file, old, new). BENIGN entries must leave every listed
check silent. The scratch copies live under a temporary directory that is removed afterwards; /repo is never touched.
"""
import concurrent.futures
import json
import os
import shutil
import subprocess
import sys
import tempfile

HERE = os.path.dirname(os.path.abspath(__file__))
VERIF = os.path.dirname(HERE)
sys.path.insert(0, HERE)
from corpus import MUTANTS, BENIGN  # noqa


def run_one(entry, kind):
    mid, props, path, old, new = entry[:5]
    tmp = tempfile.mkdtemp(prefix='x86mut-')
    try:
        for f in ('src', 'Cargo.toml', 'Cargo.lock', 'rust-toolchain.toml'):
            s = os.path.join('/repo', f)
            if os.path.isdir(s):
                shutil.copytree(s, os.path.join(tmp, f))
            else:
                shutil.copy(s, os.path.join(tmp, f))
        p = os.path.join(tmp, path)
        src = open(p).read()
        if src.count(old) < 1:
            return (mid, kind, 'ANCHOR-MISSING', '')
        src = src.replace(old, new, 1)
        for (o2, n2) in (entry[5] if len(entry) > 5 else []):
            if src.count(o2) < 1:
                return (mid, kind, 'ANCHOR-MISSING', '')
            src = src.replace(o2, n2, 1)
        open(p, 'w').write(src)
        res = {}
        for pid in props:
            env = dict(os.environ)
            env['X86_REPO'] = tmp
            env['VERIF_EVIDENCE_DIR'] = os.path.join(tmp, 'evidence')
            r = subprocess.run([os.path.join(VERIF, 'check'), pid], env=env, stdout=subprocess.PIPE, stderr=subprocess.STDOUT, text=True)
            lines = [l for l in r.stdout.split('\n') if l.startswith('  REFUTED') or l.startswith('  UNPROVEN')]
            compile_fail = 'does not compile' in r.stdout
            fired = ('VIOLATION property=%s' % pid) in r.stdout
            res[pid] = (1 if fired else (0 if r.returncode == 0 else 2), lines[:3], compile_fail)
        if kind == 'mutant':
            fired = [pid for pid, (rc, _, cf) in res.items() if rc == 1 and not cf]
            broken = [pid for pid, (rc, _, cf) in res.items() if rc == 2 and not cf]
            cf = any(c for _, _, c in res.values())
            status = 'COMPILE-FAIL' if cf else ('CAUGHT' if fired else ('CHECK-CRASH' if broken else 'MISSED'))
            return (mid, kind, status, '; '.join('%s: %s' % (pid, ' | '.join(l.strip() for l in ls[:2])) for pid, (rc, ls, _) in res.items() if rc != 0))
        else:
            noisy = [pid for pid, (rc, _, _) in res.items() if rc != 0]
            return (mid, kind, 'NOISY' if noisy else 'SILENT', '; '.join('%s: %s' % (pid, ' | '.join(l.strip() for l in res[pid][1][:2])) for pid in noisy))
    finally:
        shutil.rmtree(tmp, ignore_errors=True)


def main():
    only = None
    jobs = 8
    a = sys.argv[1:]
    while a:
        if a[0] == '--only':
            only = a[1]
            a = a[2:]
        elif a[0] == '--jobs':
            jobs = int(a[1])
            a = a[2:]
        else:
            a = a[1:]
    work = [(m, 'mutant') for m in MUTANTS] + [(b, 'benign') for b in BENIGN]
    if only:
        work = [w for w in work if only in w[0][0] or only in ','.join(w[0][1])]
    bad = 0
    with concurrent.futures.ThreadPoolExecutor(max_workers=jobs) as ex:
        for mid, kind, status, info in ex.map(lambda w: run_one(*w), work):
            print('%-8s %-14s %-40s %s' % (kind, status, mid, info[:300]))
            if status in ('MISSED', 'NOISY', 'ANCHOR-MISSING', 'CHECK-CRASH'):
                bad += 1
    print('selftest: %d entries, %d problems' % (len(work), bad))
    return 1 if bad else 0


if __name__ == '__main__':
    sys.exit(main())
