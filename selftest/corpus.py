"""Mutant / benign-edit corpus for selftest/mutate.py: (id, [properties], file, old, new)."""

MUTANTS = [
    ('c19-efer-nxe', ['C19'], 'src/registers/model_specific.rs', 'const NO_EXECUTE_ENABLE = 1 << 11;', 'const NO_EXECUTE_ENABLE = 1 << 10;'),
    ('c19-msr-lstar', ['C19'], 'src/registers/model_specific.rs', 'Msr(0xC000_0082)', 'Msr(0xC000_0083)'),
    ('c19-dr7-field', ['C19'], 'src/registers/debug.rs', 'let lsb = (16 + 4 * n.get()) as usize;', 'let lsb = (16 + 2 * n.get()) as usize;'),
    ('c19-pl-from', ['C19'], 'src/lib.rs', '2 => PrivilegeLevel::Ring2,', '2 => PrivilegeLevel::Ring3,'),
    ('c19-pcid-bound', ['C19'], 'src/instructions/tlb.rs', 'if pcid >= 4096 {', 'if pcid > 4096 {'),
    ('c19-sel-shift', ['C19'], 'src/registers/segmentation.rs', 'SegmentSelector((index << 3) | (rpl as u16))', 'SegmentSelector((index << 2) | (rpl as u16))'),
    ('c19-sec-table', ['C19'], 'src/structures/idt.rs', '0b10 => DescriptorTable::Ldt,', '0b10 => DescriptorTable::Gdt,'),
    ('c19-bpsize', ['C19'], 'src/registers/debug.rs', '8 => Some(Self::Length8B),\n            4 => Some(Self::Length4B),', '4 => Some(Self::Length8B),\n            8 => Some(Self::Length4B),'),
    ('c19-pat-default', ['C19'], 'src/registers/model_specific.rs', '        PatMemoryType::WriteBack,\n        PatMemoryType::WriteThrough,\n        PatMemoryType::Uncacheable,\n        PatMemoryType::StrongUncacheable,\n        PatMemoryType::WriteBack,', '        PatMemoryType::WriteBack,\n        PatMemoryType::WriteThrough,\n        PatMemoryType::Uncacheable,\n        PatMemoryType::StrongUncacheable,\n        PatMemoryType::WriteCombining,'),
    ('c19-size2m', ['C19'], 'src/structures/paging/page.rs', 'const SIZE: u64 = Size4KiB::SIZE * 512;', 'const SIZE: u64 = Size4KiB::SIZE * 256;'),
    ('c15-tss-type', ['C15'], 'src/structures/gdt.rs', 'low.set_bits(40..44, 0b1001);', 'low.set_bits(40..44, 0b1011);'),
    ('c15-tss-base-hi', ['C15'], 'src/structures/gdt.rs', 'high.set_bits(0..32, ptr.get_bits(32..64));', 'high.set_bits(0..32, ptr.get_bits(32..63));'),
    ('c15-tss-base-mid', ['C15'], 'src/structures/gdt.rs', 'low.set_bits(56..64, ptr.get_bits(24..32));', 'low.set_bits(56..64, ptr.get_bits(23..31));'),
    ('c15-tss-limit', ['C15'], 'src/structures/gdt.rs', '(size_of::<TaskStateSegment>() - 1) as u64', '(size_of::<TaskStateSegment>()) as u64'),
    ('c15-dpl-shift', ['C15'], 'src/structures/gdt.rs', '>> 45;', '>> 44;'),
    ('c15-iomap', ['C15'], 'src/structures/tss.rs', 'iomap_base: size_of::<TaskStateSegment>() as u16,', 'iomap_base: 0,'),
    ('c15-user-code', ['C15'], 'src/structures/gdt.rs', 'Descriptor::UserSegment(DescriptorFlags::USER_CODE64.bits())', 'Descriptor::UserSegment(DescriptorFlags::USER_CODE32.bits())'),
    ('c15-tss-present', ['C15'], 'src/structures/gdt.rs', 'let mut low = Flags::PRESENT.bits();', 'let mut low = Flags::USER_SEGMENT.bits();'),
]

BENIGN = [
    ('b-c19-pl-reorder', ['C19'], 'src/lib.rs', '            0 => PrivilegeLevel::Ring0,\n            1 => PrivilegeLevel::Ring1,', '            1 => PrivilegeLevel::Ring1,\n            0 => PrivilegeLevel::Ring0,'),
    ('b-c19-pcid-lt', ['C19'], 'src/instructions/tlb.rs', 'if pcid >= 4096 {', 'if pcid > 4095 {'),
    ('b-c19-sel-mul', ['C19'], 'src/registers/segmentation.rs', 'SegmentSelector((index << 3) | (rpl as u16))', 'SegmentSelector(index.wrapping_mul(8) | (rpl as u16))'),
    ('b-c15-dpl-mask', ['C15'], 'src/structures/gdt.rs', 'let dpl = (value_low & DescriptorFlags::DPL_RING_3.bits()) >> 45;', 'let dpl = (value_low >> 45) & 0b11;'),
    ('b-c15-tss-order', ['C15'], 'src/structures/gdt.rs', '        low.set_bits(16..40, ptr.get_bits(0..24));\n        low.set_bits(56..64, ptr.get_bits(24..32));', '        low.set_bits(56..64, ptr.get_bits(24..32));\n        low.set_bits(16..40, ptr.get_bits(0..24));'),
]
