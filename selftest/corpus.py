"""Mutant / benign-edit corpus for selftest/mutate.py: (id, [properties], file, old, new)."""

MUTANTS = [
    ('c19-efer-nxe', ['C19'], 'src/registers/model_specific.rs', 'const NO_EXECUTE_ENABLE = 1 << 11;', 'const NO_EXECUTE_ENABLE = 1 << 10;'),
    ('c19-msr-lstar', ['C19'], 'src/registers/model_specific.rs', 'Msr(0xC000_0082)', 'Msr(0xC000_0083)'),
    ('c19-dr7-field', ['C19'], 'src/registers/debug.rs', 'let lsb = (16 + 4 * n.get()) as usize;', 'let lsb = (16 + 2 * n.get()) as usize;'),
    ('c19-pl-from', ['C19'], 'src/lib.rs', '2 => PrivilegeLevel::Ring2,', '2 => PrivilegeLevel::Ring3,'),
    ('c19-pcid-bound', ['C19'], 'src/instructions/tlb.rs', 'if pcid >= 4096 {', 'if pcid > 4096 {'),
    ('c19-sel-shift', ['C19'], 'src/registers/segmentation.rs', 'SegmentSelector((index << 3) | (rpl as u16))', 'SegmentSelector((index << 2) | (rpl as u16))'),
    ('c19-sec-table', ['C19'], 'src/structures/idt.rs', '0b10 => DescriptorTable::Ldt,', '0b10 => DescriptorTable::Gdt,'),
    ('c19-bpsize', ['C19'], 'src/registers/debug.rs', '8 => Some(Self::Length8B),\n            4 => Some(Self::Length4B),', '4 => Some(Self::Length8B),\n            8 => Some(Self::Length4B),'),
    ('c19-pat-default', ['C19'], 'src/registers/model_specific.rs', '        PatMemoryType::WriteBack,\n        PatMemoryType::WriteThrough,\n        PatMemoryType::Uncacheable,\n        PatMemoryType::StrongUncacheable,\n        PatMemoryType::WriteBack,', '        PatMemoryType::WriteBack,\n        PatMemoryType::WriteThrough,\n        PatMemoryType::Uncacheable,\n        PatMemoryType::StrongUncacheable,\n        PatMemoryType::WriteCombining,'),
    ('c19-size2m', ['C19'], 'src/structures/paging/page.rs', 'const SIZE: u64 = Size4KiB::SIZE * 512;', 'const SIZE: u64 = Size4KiB::SIZE * 256;'),
]

BENIGN = [
    ('b-c19-pl-reorder', ['C19'], 'src/lib.rs', '            0 => PrivilegeLevel::Ring0,\n            1 => PrivilegeLevel::Ring1,', '            1 => PrivilegeLevel::Ring1,\n            0 => PrivilegeLevel::Ring0,'),
    ('b-c19-pcid-lt', ['C19'], 'src/instructions/tlb.rs', 'if pcid >= 4096 {', 'if pcid > 4095 {'),
    ('b-c19-sel-mul', ['C19'], 'src/registers/segmentation.rs', 'SegmentSelector((index << 3) | (rpl as u16))', 'SegmentSelector(index.wrapping_mul(8) | (rpl as u16))'),
]
