"""Oracle: exception vectors (Intel SDM 3A table 6-1, AMD APM 2 table 8-1) and what the crate's IDT API promises per vector.

Not derived from /repo: the vector classes come from the manuals; the field names are the crate's public API names for
the architectural exceptions (#DE, #DB, ...), listed here so that a field that moves to another vector is detected.
"""

# vector -> (mnemonic, pushes error code, handler must diverge)
EXCEPTIONS = {
    0: ('#DE', False, False), 1: ('#DB', False, False), 2: ('NMI', False, False), 3: ('#BP', False, False),
    4: ('#OF', False, False), 5: ('#BR', False, False), 6: ('#UD', False, False), 7: ('#NM', False, False),
    8: ('#DF', True, True), 9: ('coprocessor segment overrun (legacy)', False, False), 10: ('#TS', True, False),
    11: ('#NP', True, False), 12: ('#SS', True, False), 13: ('#GP', True, False), 14: ('#PF', True, False),
    16: ('#MF', False, False), 17: ('#AC', True, False), 18: ('#MC', False, True), 19: ('#XM', False, False),
    20: ('#VE', False, False), 21: ('#CP', True, False), 28: ('#HV', False, False), 29: ('#VC', True, False),
    30: ('#SX', True, False),
}
RESERVED = {15, 22, 23, 24, 25, 26, 27, 31}
ERROR_CODE_VECTORS = {v for v, (_, ec, _) in EXCEPTIONS.items() if ec}          # 8,10,11,12,13,14,17,21,29,30
DIVERGING_VECTORS = {v for v, (_, _, d) in EXCEPTIONS.items() if d}             # 8,18
PAGE_FAULT = 14

# crate field name per vector
FIELD_OF_VECTOR = {
    0: 'divide_error', 1: 'debug', 2: 'non_maskable_interrupt', 3: 'breakpoint', 4: 'overflow', 5: 'bound_range_exceeded',
    6: 'invalid_opcode', 7: 'device_not_available', 8: 'double_fault', 9: 'coprocessor_segment_overrun', 10: 'invalid_tss',
    11: 'segment_not_present', 12: 'stack_segment_fault', 13: 'general_protection_fault', 14: 'page_fault', 15: 'reserved_1',
    16: 'x87_floating_point', 17: 'alignment_check', 18: 'machine_check', 19: 'simd_floating_point', 20: 'virtualization',
    21: 'cp_protection_exception', 28: 'hv_injection_exception', 29: 'vmm_communication_exception', 30: 'security_exception',
    31: 'reserved_3',
}
RESERVED_ARRAY = ('reserved_2', 22, 6)      # vectors 22..27
INTERRUPTS_ARRAY = ('interrupts', 32, 224)  # vectors 32..255

# Indexing by u8 yields the plain-handler entries only: it must refuse (panic on) reserved vectors and every vector whose
# handler signature differs from the plain one (error code and/or diverging).
INDEX_REFUSED = RESERVED | ERROR_CODE_VECTORS | DIVERGING_VECTORS


def handler_sig(v):
    """expected handler type of vector v's entry, as rustc prints it"""
    F = 'structures::idt::InterruptStackFrame'
    if v in EXCEPTIONS:
        _, ec, div = EXCEPTIONS[v]
    else:
        ec, div = False, False
    args = F
    if v == PAGE_FAULT:
        args += ', structures::idt::PageFaultErrorCode'
    elif ec:
        args += ', u64'
    return 'extern "x86-interrupt" fn(%s)%s' % (args, ' -> !' if div else '')


# ---- interrupt delivery in 64-bit mode (Intel SDM 3A 6.14.2 / figure 6-9; AMD APM 2 8.9.3): the CPU pushes
# SS, RSP, RFLAGS, CS, RIP (and then the error code for the error-code vectors), each as a 64-bit slot, so that in
# memory, from the final stack pointer upwards: [error code] RIP CS RFLAGS RSP SS. IRETQ pops in the same ascending order.
FRAME_SLOTS = [('instruction_pointer', 0, 8), ('code_segment', 8, 2), ('cpu_flags', 16, 8), ('stack_pointer', 24, 8),
               ('stack_segment', 32, 2)]
FRAME_SIZE = 40
# the order in which a software-built frame must be pushed for IRETQ (highest address first)
IRETQ_PUSH_ORDER = ['stack_segment', 'stack_pointer', 'cpu_flags', 'code_segment', 'instruction_pointer']
