"""Oracle: architectural constants, typed in from the Intel SDM (vol. 3A/3B/4) and the AMD APM (vol. 2/3).

ARCH maps an architectural name to its value. CRATE_NAMES maps the crate's constant (by def path) to the
architectural name it claims to denote. Nothing in this file is derived from /repo.
"""


def bit(n):
    return 1 << n


ARCH = {
    # ---- CR0 (SDM 3A 2.5)
    'CR0.PE': bit(0), 'CR0.MP': bit(1), 'CR0.EM': bit(2), 'CR0.TS': bit(3), 'CR0.ET': bit(4), 'CR0.NE': bit(5),
    'CR0.WP': bit(16), 'CR0.AM': bit(18), 'CR0.NW': bit(29), 'CR0.CD': bit(30), 'CR0.PG': bit(31),
    # ---- CR3 (SDM 3A 2.5, 4.5)
    'CR3.PWT': bit(3), 'CR3.PCD': bit(4),
    # ---- CR4 (SDM 3A 2.5)
    'CR4.VME': bit(0), 'CR4.PVI': bit(1), 'CR4.TSD': bit(2), 'CR4.DE': bit(3), 'CR4.PSE': bit(4), 'CR4.PAE': bit(5),
    'CR4.MCE': bit(6), 'CR4.PGE': bit(7), 'CR4.PCE': bit(8), 'CR4.OSFXSR': bit(9), 'CR4.OSXMMEXCPT': bit(10),
    'CR4.UMIP': bit(11), 'CR4.LA57': bit(12), 'CR4.VMXE': bit(13), 'CR4.SMXE': bit(14), 'CR4.FSGSBASE': bit(16),
    'CR4.PCIDE': bit(17), 'CR4.OSXSAVE': bit(18), 'CR4.KL': bit(19), 'CR4.SMEP': bit(20), 'CR4.SMAP': bit(21),
    'CR4.PKE': bit(22), 'CR4.CET': bit(23), 'CR4.PKS': bit(24),
    # ---- DR6 (SDM 3B 17.2.3)
    'DR6.B0': bit(0), 'DR6.B1': bit(1), 'DR6.B2': bit(2), 'DR6.B3': bit(3), 'DR6.B0-3': 0xF,
    'DR6.BD': bit(13), 'DR6.BS': bit(14), 'DR6.BT': bit(15), 'DR6.RTM': bit(16),
    # ---- DR7 (SDM 3B 17.2.4)
    'DR7.L0': bit(0), 'DR7.G0': bit(1), 'DR7.L1': bit(2), 'DR7.G1': bit(3), 'DR7.L2': bit(4), 'DR7.G2': bit(5),
    'DR7.L3': bit(6), 'DR7.G3': bit(7), 'DR7.LE': bit(8), 'DR7.GE': bit(9), 'DR7.RTM': bit(11), 'DR7.GD': bit(13),
    # ---- EFER (SDM 4 table 2-2; APM 2 3.1.7)
    'EFER.SCE': bit(0), 'EFER.LME': bit(8), 'EFER.LMA': bit(10), 'EFER.NXE': bit(11), 'EFER.SVME': bit(12),
    'EFER.LMSLE': bit(13), 'EFER.FFXSR': bit(14), 'EFER.TCE': bit(15),
    # ---- CET MSRs (SDM 3A 2.7; 4 table 2-2: IA32_U_CET / IA32_S_CET)
    'CET.SH_STK_EN': bit(0), 'CET.WR_SHSTK_EN': bit(1), 'CET.ENDBR_EN': bit(2), 'CET.LEG_IW_EN': bit(3),
    'CET.NO_TRACK_EN': bit(4), 'CET.SUPPRESS_DIS': bit(5), 'CET.SUPPRESS': bit(10), 'CET.TRACKER': bit(11),
    # ---- IA32_APIC_BASE (SDM 3A 10.4.4)
    'APIC_BASE.BSP': bit(8), 'APIC_BASE.EXTD': bit(10), 'APIC_BASE.EN': bit(11),
    # ---- MXCSR (SDM 1 10.2.3)
    'MXCSR.IE': bit(0), 'MXCSR.DE': bit(1), 'MXCSR.ZE': bit(2), 'MXCSR.OE': bit(3), 'MXCSR.UE': bit(4), 'MXCSR.PE': bit(5),
    'MXCSR.DAZ': bit(6), 'MXCSR.IM': bit(7), 'MXCSR.DM': bit(8), 'MXCSR.ZM': bit(9), 'MXCSR.OM': bit(10),
    'MXCSR.UM': bit(11), 'MXCSR.PM': bit(12), 'MXCSR.RC_DOWN': 0b01 << 13, 'MXCSR.RC_UP': 0b10 << 13,
    'MXCSR.RC_ZERO': 0b11 << 13, 'MXCSR.FTZ': bit(15), 'MXCSR.RESET': 0x1F80,
    # ---- RFLAGS (SDM 1 3.4.3)
    'RFLAGS.CF': bit(0), 'RFLAGS.PF': bit(2), 'RFLAGS.AF': bit(4), 'RFLAGS.ZF': bit(6), 'RFLAGS.SF': bit(7),
    'RFLAGS.TF': bit(8), 'RFLAGS.IF': bit(9), 'RFLAGS.DF': bit(10), 'RFLAGS.OF': bit(11), 'RFLAGS.IOPL_LOW': bit(12),
    'RFLAGS.IOPL_HIGH': bit(13), 'RFLAGS.NT': bit(14), 'RFLAGS.RF': bit(16), 'RFLAGS.VM': bit(17), 'RFLAGS.AC': bit(18),
    'RFLAGS.VIF': bit(19), 'RFLAGS.VIP': bit(20), 'RFLAGS.ID': bit(21),
    # ---- XCR0 (SDM 1 13.3; APM 2 11.5.2 for LWP)
    'XCR0.X87': bit(0), 'XCR0.SSE': bit(1), 'XCR0.AVX': bit(2), 'XCR0.BNDREG': bit(3), 'XCR0.BNDCSR': bit(4),
    'XCR0.OPMASK': bit(5), 'XCR0.ZMM_HI256': bit(6), 'XCR0.HI16_ZMM': bit(7), 'XCR0.PKRU': bit(9), 'XCR0.LWP': bit(62),
    # ---- segment descriptor, as a 64-bit value (SDM 3A 3.4.5, figure 3-8: high dword bits + 32)
    'DESC.LIMIT_0_15': 0xFFFF, 'DESC.BASE_0_23': 0xFFFFFF << 16, 'DESC.A': bit(40), 'DESC.W_R': bit(41), 'DESC.C_E': bit(42),
    'DESC.X': bit(43), 'DESC.S': bit(44), 'DESC.DPL3': 0b11 << 45, 'DESC.P': bit(47), 'DESC.LIMIT_16_19': 0xF << 48,
    'DESC.AVL': bit(52), 'DESC.L': bit(53), 'DESC.DB': bit(54), 'DESC.G': bit(55), 'DESC.BASE_24_31': 0xFF << 56,
    # ---- page-fault error code (SDM 3A 4.7; APM 2 8.4.2, 15.36.10 for RMP)
    'PFEC.P': bit(0), 'PFEC.WR': bit(1), 'PFEC.US': bit(2), 'PFEC.RSVD': bit(3), 'PFEC.ID': bit(4), 'PFEC.PK': bit(5),
    'PFEC.SS': bit(6), 'PFEC.SGX': bit(15), 'PFEC.RMP': bit(31),
    # ---- page-table entry (SDM 3A 4.5, tables 4-14 .. 4-20)
    'PTE.P': bit(0), 'PTE.RW': bit(1), 'PTE.US': bit(2), 'PTE.PWT': bit(3), 'PTE.PCD': bit(4), 'PTE.A': bit(5),
    'PTE.D': bit(6), 'PTE.PS': bit(7), 'PTE.PAT_4K': bit(7), 'PTE.G': bit(8), 'PTE.AVL9': bit(9), 'PTE.AVL10': bit(10),
    'PTE.AVL11': bit(11), 'PTE.PAT_HUGE': bit(12), 'PTE.XD': bit(63),
    # ---- MSR numbers (SDM 4 table 2-2; APM 2 appendix A)
    'MSR.IA32_APIC_BASE': 0x1B, 'MSR.IA32_PAT': 0x277, 'MSR.IA32_U_CET': 0x6A0, 'MSR.IA32_S_CET': 0x6A2,
    'MSR.IA32_EFER': 0xC0000080, 'MSR.IA32_STAR': 0xC0000081, 'MSR.IA32_LSTAR': 0xC0000082, 'MSR.IA32_FMASK': 0xC0000084,
    'MSR.IA32_FS_BASE': 0xC0000100, 'MSR.IA32_GS_BASE': 0xC0000101, 'MSR.IA32_KERNEL_GS_BASE': 0xC0000102,
    # ---- page sizes
    'PAGE.4K': 1 << 12, 'PAGE.2M': 1 << 21, 'PAGE.1G': 1 << 30,
    # ---- misc
    'SELECTOR.NULL': 0,
    'VA.SPACE': 1 << 48,
    'PT.ENTRIES': 512,
}
for _i in range(52, 63):
    ARCH['PTE.AVL%d' % _i] = bit(_i)

P = 'registers::control::'
D = 'registers::debug::'
MS = 'registers::model_specific::'
PT = 'structures::paging::page_table::PageTableFlags::'

CRATE_NAMES = {
    # CR0
    P + 'Cr0Flags::PROTECTED_MODE_ENABLE': 'CR0.PE', P + 'Cr0Flags::MONITOR_COPROCESSOR': 'CR0.MP',
    P + 'Cr0Flags::EMULATE_COPROCESSOR': 'CR0.EM', P + 'Cr0Flags::TASK_SWITCHED': 'CR0.TS',
    P + 'Cr0Flags::EXTENSION_TYPE': 'CR0.ET', P + 'Cr0Flags::NUMERIC_ERROR': 'CR0.NE',
    P + 'Cr0Flags::WRITE_PROTECT': 'CR0.WP', P + 'Cr0Flags::ALIGNMENT_MASK': 'CR0.AM',
    P + 'Cr0Flags::NOT_WRITE_THROUGH': 'CR0.NW', P + 'Cr0Flags::CACHE_DISABLE': 'CR0.CD', P + 'Cr0Flags::PAGING': 'CR0.PG',
    # CR3
    P + 'Cr3Flags::PAGE_LEVEL_WRITETHROUGH': 'CR3.PWT', P + 'Cr3Flags::PAGE_LEVEL_CACHE_DISABLE': 'CR3.PCD',
    # CR4
    P + 'Cr4Flags::VIRTUAL_8086_MODE_EXTENSIONS': 'CR4.VME', P + 'Cr4Flags::PROTECTED_MODE_VIRTUAL_INTERRUPTS': 'CR4.PVI',
    P + 'Cr4Flags::TIMESTAMP_DISABLE': 'CR4.TSD', P + 'Cr4Flags::DEBUGGING_EXTENSIONS': 'CR4.DE',
    P + 'Cr4Flags::PAGE_SIZE_EXTENSION': 'CR4.PSE', P + 'Cr4Flags::PHYSICAL_ADDRESS_EXTENSION': 'CR4.PAE',
    P + 'Cr4Flags::MACHINE_CHECK_EXCEPTION': 'CR4.MCE', P + 'Cr4Flags::PAGE_GLOBAL': 'CR4.PGE',
    P + 'Cr4Flags::PERFORMANCE_MONITOR_COUNTER': 'CR4.PCE', P + 'Cr4Flags::OSFXSR': 'CR4.OSFXSR',
    P + 'Cr4Flags::OSXMMEXCPT_ENABLE': 'CR4.OSXMMEXCPT', P + 'Cr4Flags::USER_MODE_INSTRUCTION_PREVENTION': 'CR4.UMIP',
    P + 'Cr4Flags::L5_PAGING': 'CR4.LA57', P + 'Cr4Flags::VIRTUAL_MACHINE_EXTENSIONS': 'CR4.VMXE',
    P + 'Cr4Flags::SAFER_MODE_EXTENSIONS': 'CR4.SMXE', P + 'Cr4Flags::FSGSBASE': 'CR4.FSGSBASE', P + 'Cr4Flags::PCID': 'CR4.PCIDE',
    P + 'Cr4Flags::OSXSAVE': 'CR4.OSXSAVE', P + 'Cr4Flags::KEY_LOCKER': 'CR4.KL',
    P + 'Cr4Flags::SUPERVISOR_MODE_EXECUTION_PROTECTION': 'CR4.SMEP', P + 'Cr4Flags::SUPERVISOR_MODE_ACCESS_PREVENTION': 'CR4.SMAP',
    P + 'Cr4Flags::PROTECTION_KEY_USER': 'CR4.PKE', P + 'Cr4Flags::CONTROL_FLOW_ENFORCEMENT': 'CR4.CET',
    P + 'Cr4Flags::PROTECTION_KEY_SUPERVISOR': 'CR4.PKS',
    # DR6 / DR7
    D + 'Dr6Flags::TRAP0': 'DR6.B0', D + 'Dr6Flags::TRAP1': 'DR6.B1', D + 'Dr6Flags::TRAP2': 'DR6.B2', D + 'Dr6Flags::TRAP3': 'DR6.B3',
    D + 'Dr6Flags::TRAP': 'DR6.B0-3', D + 'Dr6Flags::ACCESS_DETECTED': 'DR6.BD', D + 'Dr6Flags::STEP': 'DR6.BS',
    D + 'Dr6Flags::SWITCH': 'DR6.BT', D + 'Dr6Flags::RTM': 'DR6.RTM',
    D + 'Dr7Flags::LOCAL_BREAKPOINT_0_ENABLE': 'DR7.L0', D + 'Dr7Flags::LOCAL_BREAKPOINT_1_ENABLE': 'DR7.L1',
    D + 'Dr7Flags::LOCAL_BREAKPOINT_2_ENABLE': 'DR7.L2', D + 'Dr7Flags::LOCAL_BREAKPOINT_3_ENABLE': 'DR7.L3',
    D + 'Dr7Flags::GLOBAL_BREAKPOINT_0_ENABLE': 'DR7.G0', D + 'Dr7Flags::GLOBAL_BREAKPOINT_1_ENABLE': 'DR7.G1',
    D + 'Dr7Flags::GLOBAL_BREAKPOINT_2_ENABLE': 'DR7.G2', D + 'Dr7Flags::GLOBAL_BREAKPOINT_3_ENABLE': 'DR7.G3',
    D + 'Dr7Flags::LOCAL_EXACT_BREAKPOINT_ENABLE': 'DR7.LE', D + 'Dr7Flags::GLOBAL_EXACT_BREAKPOINT_ENABLE': 'DR7.GE',
    D + 'Dr7Flags::RESTRICTED_TRANSACTIONAL_MEMORY': 'DR7.RTM', D + 'Dr7Flags::GENERAL_DETECT_ENABLE': 'DR7.GD',
    # MSR numbers
    MS + 'Efer::MSR': 'MSR.IA32_EFER', MS + 'FsBase::MSR': 'MSR.IA32_FS_BASE', MS + 'GsBase::MSR': 'MSR.IA32_GS_BASE',
    MS + 'KernelGsBase::MSR': 'MSR.IA32_KERNEL_GS_BASE', MS + 'Star::MSR': 'MSR.IA32_STAR', MS + 'LStar::MSR': 'MSR.IA32_LSTAR',
    MS + 'SFMask::MSR': 'MSR.IA32_FMASK', MS + 'UCet::MSR': 'MSR.IA32_U_CET', MS + 'SCet::MSR': 'MSR.IA32_S_CET',
    MS + 'Pat::MSR': 'MSR.IA32_PAT', MS + 'ApicBase::MSR': 'MSR.IA32_APIC_BASE',
    '<registers::segmentation::FS as registers::segmentation::Segment64>::BASE': 'MSR.IA32_FS_BASE',
    '<registers::segmentation::GS as registers::segmentation::Segment64>::BASE': 'MSR.IA32_GS_BASE',
    # EFER
    MS + 'EferFlags::SYSTEM_CALL_EXTENSIONS': 'EFER.SCE', MS + 'EferFlags::LONG_MODE_ENABLE': 'EFER.LME',
    MS + 'EferFlags::LONG_MODE_ACTIVE': 'EFER.LMA', MS + 'EferFlags::NO_EXECUTE_ENABLE': 'EFER.NXE',
    MS + 'EferFlags::SECURE_VIRTUAL_MACHINE_ENABLE': 'EFER.SVME', MS + 'EferFlags::LONG_MODE_SEGMENT_LIMIT_ENABLE': 'EFER.LMSLE',
    MS + 'EferFlags::FAST_FXSAVE_FXRSTOR': 'EFER.FFXSR', MS + 'EferFlags::TRANSLATION_CACHE_EXTENSION': 'EFER.TCE',
    # CET
    MS + 'CetFlags::SS_ENABLE': 'CET.SH_STK_EN', MS + 'CetFlags::SS_WRITE_ENABLE': 'CET.WR_SHSTK_EN',
    MS + 'CetFlags::IBT_ENABLE': 'CET.ENDBR_EN', MS + 'CetFlags::IBT_LEGACY_ENABLE': 'CET.LEG_IW_EN',
    MS + 'CetFlags::IBT_NO_TRACK_ENABLE': 'CET.NO_TRACK_EN', MS + 'CetFlags::IBT_LEGACY_SUPPRESS_ENABLE': 'CET.SUPPRESS_DIS',
    MS + 'CetFlags::IBT_SUPPRESS_ENABLE': 'CET.SUPPRESS', MS + 'CetFlags::IBT_TRACKED': 'CET.TRACKER',
    # APIC base
    MS + 'ApicBaseFlags::BSP': 'APIC_BASE.BSP', MS + 'ApicBaseFlags::X2APIC_ENABLE': 'APIC_BASE.EXTD',
    MS + 'ApicBaseFlags::LAPIC_ENABLE': 'APIC_BASE.EN',
    # MXCSR
    'registers::mxcsr::MxCsr::INVALID_OPERATION': 'MXCSR.IE', 'registers::mxcsr::MxCsr::DENORMAL': 'MXCSR.DE',
    'registers::mxcsr::MxCsr::DIVIDE_BY_ZERO': 'MXCSR.ZE', 'registers::mxcsr::MxCsr::OVERFLOW': 'MXCSR.OE',
    'registers::mxcsr::MxCsr::UNDERFLOW': 'MXCSR.UE', 'registers::mxcsr::MxCsr::PRECISION': 'MXCSR.PE',
    'registers::mxcsr::MxCsr::DENORMALS_ARE_ZEROS': 'MXCSR.DAZ', 'registers::mxcsr::MxCsr::INVALID_OPERATION_MASK': 'MXCSR.IM',
    'registers::mxcsr::MxCsr::DENORMAL_MASK': 'MXCSR.DM', 'registers::mxcsr::MxCsr::DIVIDE_BY_ZERO_MASK': 'MXCSR.ZM',
    'registers::mxcsr::MxCsr::OVERFLOW_MASK': 'MXCSR.OM', 'registers::mxcsr::MxCsr::UNDERFLOW_MASK': 'MXCSR.UM',
    'registers::mxcsr::MxCsr::PRECISION_MASK': 'MXCSR.PM', 'registers::mxcsr::MxCsr::ROUNDING_CONTROL_NEGATIVE': 'MXCSR.RC_DOWN',
    'registers::mxcsr::MxCsr::ROUNDING_CONTROL_POSITIVE': 'MXCSR.RC_UP', 'registers::mxcsr::MxCsr::ROUNDING_CONTROL_ZERO': 'MXCSR.RC_ZERO',
    'registers::mxcsr::MxCsr::FLUSH_TO_ZERO': 'MXCSR.FTZ',
    # RFLAGS
    'registers::rflags::RFlags::ID': 'RFLAGS.ID', 'registers::rflags::RFlags::VIRTUAL_INTERRUPT_PENDING': 'RFLAGS.VIP',
    'registers::rflags::RFlags::VIRTUAL_INTERRUPT': 'RFLAGS.VIF', 'registers::rflags::RFlags::ALIGNMENT_CHECK': 'RFLAGS.AC',
    'registers::rflags::RFlags::VIRTUAL_8086_MODE': 'RFLAGS.VM', 'registers::rflags::RFlags::RESUME_FLAG': 'RFLAGS.RF',
    'registers::rflags::RFlags::NESTED_TASK': 'RFLAGS.NT', 'registers::rflags::RFlags::IOPL_HIGH': 'RFLAGS.IOPL_HIGH',
    'registers::rflags::RFlags::IOPL_LOW': 'RFLAGS.IOPL_LOW', 'registers::rflags::RFlags::OVERFLOW_FLAG': 'RFLAGS.OF',
    'registers::rflags::RFlags::DIRECTION_FLAG': 'RFLAGS.DF', 'registers::rflags::RFlags::INTERRUPT_FLAG': 'RFLAGS.IF',
    'registers::rflags::RFlags::TRAP_FLAG': 'RFLAGS.TF', 'registers::rflags::RFlags::SIGN_FLAG': 'RFLAGS.SF',
    'registers::rflags::RFlags::ZERO_FLAG': 'RFLAGS.ZF', 'registers::rflags::RFlags::AUXILIARY_CARRY_FLAG': 'RFLAGS.AF',
    'registers::rflags::RFlags::PARITY_FLAG': 'RFLAGS.PF', 'registers::rflags::RFlags::CARRY_FLAG': 'RFLAGS.CF',
    # selector
    'registers::segmentation::SegmentSelector::NULL': 'SELECTOR.NULL',
    # XCR0
    'registers::xcontrol::XCr0Flags::X87': 'XCR0.X87', 'registers::xcontrol::XCr0Flags::SSE': 'XCR0.SSE',
    'registers::xcontrol::XCr0Flags::AVX': 'XCR0.AVX', 'registers::xcontrol::XCr0Flags::BNDREG': 'XCR0.BNDREG',
    'registers::xcontrol::XCr0Flags::BNDCSR': 'XCR0.BNDCSR', 'registers::xcontrol::XCr0Flags::OPMASK': 'XCR0.OPMASK',
    'registers::xcontrol::XCr0Flags::ZMM_HI256': 'XCR0.ZMM_HI256', 'registers::xcontrol::XCr0Flags::HI16_ZMM': 'XCR0.HI16_ZMM',
    'registers::xcontrol::XCr0Flags::MPK': 'XCR0.PKRU', 'registers::xcontrol::XCr0Flags::LWP': 'XCR0.LWP',
    # descriptor flags
    'structures::gdt::DescriptorFlags::ACCESSED': 'DESC.A', 'structures::gdt::DescriptorFlags::WRITABLE': 'DESC.W_R',
    'structures::gdt::DescriptorFlags::CONFORMING': 'DESC.C_E', 'structures::gdt::DescriptorFlags::EXECUTABLE': 'DESC.X',
    'structures::gdt::DescriptorFlags::USER_SEGMENT': 'DESC.S', 'structures::gdt::DescriptorFlags::DPL_RING_3': 'DESC.DPL3',
    'structures::gdt::DescriptorFlags::PRESENT': 'DESC.P', 'structures::gdt::DescriptorFlags::AVAILABLE': 'DESC.AVL',
    'structures::gdt::DescriptorFlags::LONG_MODE': 'DESC.L', 'structures::gdt::DescriptorFlags::DEFAULT_SIZE': 'DESC.DB',
    'structures::gdt::DescriptorFlags::GRANULARITY': 'DESC.G', 'structures::gdt::DescriptorFlags::LIMIT_0_15': 'DESC.LIMIT_0_15',
    'structures::gdt::DescriptorFlags::LIMIT_16_19': 'DESC.LIMIT_16_19', 'structures::gdt::DescriptorFlags::BASE_0_23': 'DESC.BASE_0_23',
    'structures::gdt::DescriptorFlags::BASE_24_31': 'DESC.BASE_24_31',
    # page-fault error code
    'structures::idt::PageFaultErrorCode::PROTECTION_VIOLATION': 'PFEC.P', 'structures::idt::PageFaultErrorCode::CAUSED_BY_WRITE': 'PFEC.WR',
    'structures::idt::PageFaultErrorCode::USER_MODE': 'PFEC.US', 'structures::idt::PageFaultErrorCode::MALFORMED_TABLE': 'PFEC.RSVD',
    'structures::idt::PageFaultErrorCode::INSTRUCTION_FETCH': 'PFEC.ID', 'structures::idt::PageFaultErrorCode::PROTECTION_KEY': 'PFEC.PK',
    'structures::idt::PageFaultErrorCode::SHADOW_STACK': 'PFEC.SS', 'structures::idt::PageFaultErrorCode::SGX': 'PFEC.SGX',
    'structures::idt::PageFaultErrorCode::RMP': 'PFEC.RMP',
    # page sizes
    '<structures::paging::page::Size4KiB as structures::paging::page::PageSize>::SIZE': 'PAGE.4K',
    '<structures::paging::page::Size2MiB as structures::paging::page::PageSize>::SIZE': 'PAGE.2M',
    '<structures::paging::page::Size1GiB as structures::paging::page::PageSize>::SIZE': 'PAGE.1G',
    # page-table flags
    PT + 'PRESENT': 'PTE.P', PT + 'WRITABLE': 'PTE.RW', PT + 'USER_ACCESSIBLE': 'PTE.US', PT + 'WRITE_THROUGH': 'PTE.PWT',
    PT + 'NO_CACHE': 'PTE.PCD', PT + 'ACCESSED': 'PTE.A', PT + 'DIRTY': 'PTE.D', PT + 'HUGE_PAGE': 'PTE.PS',
    PT + 'PAT_4KIB_PAGE': 'PTE.PAT_4K', PT + 'GLOBAL': 'PTE.G', PT + 'BIT_9': 'PTE.AVL9', PT + 'BIT_10': 'PTE.AVL10',
    PT + 'BIT_11': 'PTE.AVL11', PT + 'PAT_HUGE_PAGE': 'PTE.PAT_HUGE', PT + 'NO_EXECUTE': 'PTE.XD',
    'addr::ADDRESS_SPACE_SIZE': 'VA.SPACE',
    'structures::paging::page_table::ENTRY_COUNT': 'PT.ENTRIES',
}
for _i in range(52, 63):
    CRATE_NAMES[PT + 'BIT_%d' % _i] = 'PTE.AVL%d' % _i

# Composite descriptor presets: decoded field by field in C15 (structures::gdt::DescriptorFlags::{COMMON, KERNEL_*, USER_*}).
COMPOSITES = {
    'structures::gdt::DescriptorFlags::COMMON', 'structures::gdt::DescriptorFlags::KERNEL_DATA',
    'structures::gdt::DescriptorFlags::KERNEL_CODE32', 'structures::gdt::DescriptorFlags::KERNEL_CODE64',
    'structures::gdt::DescriptorFlags::USER_DATA', 'structures::gdt::DescriptorFlags::USER_CODE32',
    'structures::gdt::DescriptorFlags::USER_CODE64',
}

# Debug-address-register numbers: <DrN as DebugAddressRegister>::NUM
DR_NUM = {'Dr0': 0, 'Dr1': 1, 'Dr2': 2, 'Dr3': 3}

# Enum discriminants (architectural encodings)
ENUMS = {
    'PrivilegeLevel': {'Ring0': 0, 'Ring1': 1, 'Ring2': 2, 'Ring3': 3},
    # SDM 3A 6.3.1 table 6-1 / APM 2 8.2 (vector 9 "coprocessor segment overrun" is not in the enum)
    'structures::idt::ExceptionVector': {
        'Division': 0, 'Debug': 1, 'NonMaskableInterrupt': 2, 'Breakpoint': 3, 'Overflow': 4, 'BoundRange': 5,
        'InvalidOpcode': 6, 'DeviceNotAvailable': 7, 'Double': 8, 'InvalidTss': 10, 'SegmentNotPresent': 11, 'Stack': 12,
        'GeneralProtection': 13, 'Page': 14, 'X87FloatingPoint': 16, 'AlignmentCheck': 17, 'MachineCheck': 18,
        'SimdFloatingPoint': 19, 'Virtualization': 20, 'ControlProtection': 21, 'HypervisorInjection': 28,
        'VmmCommunication': 29, 'Security': 30},
    # SDM 3A 11.12.2 table 11-10
    'registers::model_specific::PatMemoryType': {
        'StrongUncacheable': 0, 'WriteCombining': 1, 'WriteThrough': 4, 'WriteProtected': 5, 'WriteBack': 6, 'Uncacheable': 7},
    # SDM 3B 17.2.4: R/W field 00 exec, 01 write, 10 I/O, 11 read/write; LEN field 00 1B, 01 2B, 10 8B, 11 4B
    'registers::debug::BreakpointCondition': {'InstructionExecution': 0, 'DataWrites': 1, 'IoReadsWrites': 2, 'DataReadsWrites': 3},
    'registers::debug::BreakpointSize': {'Length1B': 0, 'Length2B': 1, 'Length8B': 2, 'Length4B': 3},
    'structures::paging::page_table::PageTableLevel': {'One': 1, 'Two': 2, 'Three': 3, 'Four': 4},
}

# PAT reset value (SDM 3A 11.12.4 table 11-12): PA0..PA7 = WB, WT, UC-, UC, WB, WT, UC-, UC
PAT_DEFAULT = [6, 4, 7, 0, 6, 4, 7, 0]

# breakpoint LEN encoding -> bytes
BREAKPOINT_LEN_BYTES = {0: 1, 1: 2, 2: 8, 3: 4}

# constants that are private to the crate: compared when the crate has them under this name (a cross-check of a helper), not required
PRIVATE_NAMES = {'addr::ADDRESS_SPACE_SIZE', 'structures::paging::page_table::ENTRY_COUNT'}
