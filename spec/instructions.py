"""Oracle: which instruction each wrapper must execute, with which operand registers (Intel SDM vol. 2, AMD APM vol. 3).

Templates are compared after whitespace normalisation; `{n}` / `{n:x}` are Rust asm placeholders (operand n, `x` = 16-bit
register name). Nothing here is derived from /repo.
"""

# IN / OUT: accumulator of the access width, port number in DX (SDM 2A "IN", 2B "OUT")
PORT_IO = {
    8: {'in': 'in al, dx', 'out': 'out dx, al', 'acc': 'al'},
    16: {'in': 'in ax, dx', 'out': 'out dx, ax', 'acc': 'ax'},
    32: {'in': 'in eax, dx', 'out': 'out dx, eax', 'acc': 'eax'},
}
PORT_REG = 'dx'


def norm(t):
    return ' '.join(t.replace(',', ', ').split()).replace(' ,', ',')


# rustc names an explicit register operand by its family (`eax`/`rax` are printed as `ax`); the operand's type gives the width
REG_FAMILY = {'al': 'al', 'ah': 'ah', 'ax': 'ax', 'eax': 'ax', 'rax': 'ax', 'cx': 'cx', 'ecx': 'cx', 'rcx': 'cx', 'dx': 'dx', 'edx': 'dx',
              'rdx': 'dx', 'bx': 'bx', 'ebx': 'bx', 'rbx': 'bx', 'si': 'si', 'rsi': 'si', 'di': 'di', 'rdi': 'di'}


def family(r):
    return REG_FAMILY.get(r, r)

# Interrupt flag (RFLAGS.IF, bit 9): instruction effects (SDM 2A "CLI", 2B "STI", "PUSHF/PUSHFQ")
IF_BIT = 9
IF_EFFECT = {'cli': 0, 'sti': 1}
RFLAGS_READ = 'pushfq; pop {0}'
RFLAGS_WRITE = 'push {0}; popfq'
# STI enables interrupts only after the *next* instruction: `sti; hlt` back to back leaves no window (SDM 2B "STI")
ENABLE_AND_HLT = ['sti', 'hlt']


def insns(tpl):
    """instruction list of a template (split on ';' and newlines)"""
    out = []
    for part in tpl.replace('\n', ';').split(';'):
        p = ' '.join(part.split())
        if p:
            out.append(p)
    return out
