"""Oracle: 4-level paging (Intel SDM 3A 4.5, AMD APM 2 5.3). Not derived from /repo."""

# linear-address fields (4-level paging, 48-bit canonical addresses)
OFFSET = (0, 12)
INDEX = {1: (12, 21), 2: (21, 30), 3: (30, 39), 4: (39, 48)}    # PT, PD, PDPT, PML4 index
VA_BITS = 48
PA_BITS = 52
ENTRIES = 512
# page sizes and the level whose entry maps them
PAGE_BITS = {'Size4KiB': 12, 'Size2MiB': 21, 'Size1GiB': 30}
LEAF_LEVEL = {'Size4KiB': 1, 'Size2MiB': 2, 'Size1GiB': 3}
# span of one entry / one table at each level, as log2 bytes
ENTRY_SPAN_BITS = {1: 12, 2: 21, 3: 30, 4: 39}
TABLE_SPAN_BITS = {1: 21, 2: 30, 3: 39, 4: 48}
# page-table entry format (SDM 3A tables 4-14..4-20)
PTE_ADDR = (12, 52)
PTE_P, PTE_RW, PTE_US, PTE_PS = 0, 1, 2, 7
# flag bits a caller may put in an entry without touching the address field
PTE_FLAG_DOMAIN = ((1 << 12) - 1) | (((1 << 12) - 1) << 52)
LEVEL_NAMES = {1: 'One', 2: 'Two', 3: 'Three', 4: 'Four'}
