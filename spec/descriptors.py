"""Oracle: descriptor, gate, TSS and table-pointer formats (Intel SDM vol. 3A ch. 3, 6, 7; AMD APM vol. 2 ch. 4, 8, 12).

Bit ranges are (lo, hi) half-open over the 64-bit little-endian quadword. Nothing here is derived from /repo.
"""

# Code/data segment descriptor, SDM 3A figure 3-8 (second dword bits are +32)
SEG_DESC = {
    'limit_0_15': (0, 16), 'base_0_23': (16, 40), 'type': (40, 44), 's': (44, 45), 'dpl': (45, 47), 'p': (47, 48),
    'limit_16_19': (48, 52), 'avl': (52, 53), 'l': (53, 54), 'db': (54, 55), 'g': (55, 56), 'base_24_31': (56, 64),
}
# type field of a code/data descriptor (S = 1): bit 0 accessed, bit 1 writable(data)/readable(code),
# bit 2 expand-down(data)/conforming(code), bit 3 executable
TYPE_A, TYPE_WR, TYPE_EC, TYPE_X = 1, 2, 4, 8

# 64-bit TSS / LDT descriptor, SDM 3A figure 7-4 (16 bytes): low quadword as SEG_DESC with S = 0,
# high quadword: base 32..63 in bits 0..31, bits 32..63 reserved (bits 40..44 must be zero)
SYS_TYPE_TSS_AVAILABLE = 0b1001
SYS_TYPE_TSS_BUSY = 0b1011
TSS_LIMIT = 0x67          # sizeof(64-bit TSS) - 1

# 64-bit TSS, SDM 3A figure 7-11: byte offsets
TSS_LAYOUT = {
    'reserved_1': (0x00, 4), 'privilege_stack_table': (0x04, 24), 'reserved_2': (0x1C, 8), 'interrupt_stack_table': (0x24, 56),
    'reserved_3': (0x5C, 8), 'reserved_4': (0x64, 2), 'iomap_base': (0x66, 2),
}
TSS_SIZE = 0x68

# pseudo-descriptor for LGDT/LIDT in 64-bit mode, SDM 3A figure 3-11: 16-bit limit then 64-bit base
DTP_LAYOUT = {'limit': (0, 2), 'base': (2, 8)}
DTP_SIZE = 10

# 64-bit interrupt/trap gate, SDM 3A figure 6-8 (16 bytes)
GATE_LAYOUT = {  # byte offset, size
    'offset_0_15': (0, 2), 'selector': (2, 2), 'options': (4, 2), 'offset_16_31': (6, 2), 'offset_32_63': (8, 4), 'reserved': (12, 4),
}
# the 16-bit options word (bytes 4..5): IST bits 0..2, bits 3..7 zero, type bits 8..11, bit 12 zero, DPL 13..14, P 15
GATE_IST = (0, 3)
GATE_TYPE = (8, 12)
GATE_DPL = (13, 15)
GATE_P = 15
GATE_TYPE_INTERRUPT = 0b1110
GATE_TYPE_TRAP = 0b1111
IDT_ENTRIES = 256
IDT_LIMIT = 256 * 16 - 1

# What the predefined flat descriptors must decode to (named semantics)
PRESETS = {
    'KERNEL_DATA': dict(code=False, dpl=0, l=0, db=1),
    'KERNEL_CODE32': dict(code=True, dpl=0, l=0, db=1),
    'KERNEL_CODE64': dict(code=True, dpl=0, l=1, db=0),
    'USER_DATA': dict(code=False, dpl=3, l=0, db=1),
    'USER_CODE32': dict(code=True, dpl=3, l=0, db=1),
    'USER_CODE64': dict(code=True, dpl=3, l=1, db=0),
}
# common to all presets: present, S = 1 (code/data), flat 4 GiB limit with 4 KiB granularity, base 0,
# writable/readable and accessed (so the CPU never needs to write the descriptor)
PRESET_COMMON = dict(p=1, s=1, limit=0xFFFFF, g=1, base=0, avl=0, wr=1, a=1, ec=0)

# Constructors and the preset they must return
PRESET_CTORS = {
    'kernel_code_segment': 'KERNEL_CODE64', 'kernel_data_segment': 'KERNEL_DATA',
    'user_data_segment': 'USER_DATA', 'user_code_segment': 'USER_CODE64',
}


def field(v, rng):
    lo, hi = rng
    return (v >> lo) & ((1 << (hi - lo)) - 1)


def decode_segment(v):
    t = field(v, SEG_DESC['type'])
    return dict(
        limit=field(v, SEG_DESC['limit_0_15']) | (field(v, SEG_DESC['limit_16_19']) << 16),
        base=field(v, SEG_DESC['base_0_23']) | (field(v, SEG_DESC['base_24_31']) << 24),
        a=int(bool(t & TYPE_A)), wr=int(bool(t & TYPE_WR)), ec=int(bool(t & TYPE_EC)), code=bool(t & TYPE_X),
        s=field(v, SEG_DESC['s']), dpl=field(v, SEG_DESC['dpl']), p=field(v, SEG_DESC['p']), avl=field(v, SEG_DESC['avl']),
        l=field(v, SEG_DESC['l']), db=field(v, SEG_DESC['db']), g=field(v, SEG_DESC['g']))
