"""Oracle: what each mapper operation must report in each page-table state (from the crate's documentation of
Mapper / Translate and of the error enums - the *documented* contract - and the x86-64 paging structure).

A walk state is the class of the entry met at each level from 4 downwards:
    'absent'  all-zero entry
    'table'   present, not huge: points to the next-level table
    'huge'    present with the page-size bit: a 1 GiB (level 3) / 2 MiB (level 2) leaf
    'leaf'    present level-1 entry
The walk stops at the first absent / huge / leaf entry. Level-4 entries are never huge (parent flags never contain
HUGE_PAGE, the property's quantifier). Not derived from /repo.
"""

LEAF_LEVEL = {'Size4KiB': 1, 'Size2MiB': 2, 'Size1GiB': 3}


def states_for(size_or_level, entry_level=None):
    """all walk states relevant to an operation on a page of `size` (tuples of classes for levels 4, 3, ...)"""
    leaf = entry_level if entry_level is not None else LEAF_LEVEL[size_or_level]
    out = []

    def rec(level, acc):
        if level < leaf:
            out.append(tuple(acc))
            return
        if level == leaf:
            choices = ['absent', 'leaf'] if level == 1 else ['absent', 'table', 'huge']
            if level == 4:
                choices = ['absent', 'table']
            for c in choices:
                out.append(tuple(acc + [c]))
            return
        choices = ['absent', 'table'] if level == 4 else ['absent', 'table', 'huge']
        for c in choices:
            if c == 'table':
                rec(level - 1, acc + [c])
            else:
                out.append(tuple(acc + [c]))
    rec(4, [])
    return out


def cls_at(state, level):
    i = 4 - level
    return state[i] if i < len(state) else None


def expect_map(size, state, allocs):
    """map_to_with_table_flags: `allocs` = results of the successive allocator requests (True = Some)"""
    leaf = LEAF_LEVEL[size]
    k = 0
    created = False
    for level in range(4, leaf, -1):
        c = 'absent' if created else cls_at(state, level)
        if c == 'huge':
            return ('Err', 'ParentEntryHugePage')
        if c == 'absent':
            if k >= len(allocs):
                return None          # scenario does not say
            ok = allocs[k]
            k += 1
            if not ok:
                return ('Err', 'FrameAllocationFailed')
            created = True
        # 'table' -> continue
    c = 'absent' if created else cls_at(state, leaf)
    if c == 'absent':
        return ('Ok', 'MapperFlush')
    return ('Err', 'PageAlreadyMapped')


def allocs_needed(size, state):
    """how many allocator requests map_to makes at most in this state (tables missing above the leaf)"""
    leaf = LEAF_LEVEL[size]
    for level in range(4, leaf, -1):
        c = cls_at(state, level)
        if c == 'huge':
            return 0 if level == 4 else 0
        if c == 'absent':
            return level - leaf
    return 0


def expect_walk(size, state, op):
    """unmap / update_flags / translate_page: documented errors; Ok only for a mapping of exactly this size"""
    leaf = LEAF_LEVEL[size]
    for level in range(4, leaf, -1):
        c = cls_at(state, level)
        if c == 'absent':
            return ('Err', 'PageNotMapped')
        if c == 'huge':
            return ('Err', 'ParentEntryHugePage')
    c = cls_at(state, leaf)
    if c == 'absent':
        return ('Err', 'PageNotMapped')
    if leaf == 1 or c == 'huge':
        return ('Ok', None)
    # a table where a huge page of this size would be: there is no mapping of this size -> must not be Ok
    return ('NotOk', None)


def expect_set_flags(size, entry_level, state):
    """set_flags_pK_entry: Ok(flush all) when the level-K entry on the page's walk exists; errors as documented.
    For a page size whose leaf is at or above level K the method cannot name a parent entry."""
    leaf = LEAF_LEVEL[size]
    if entry_level <= leaf:
        return ('Err', 'ParentEntryHugePage')
    for level in range(4, entry_level, -1):
        c = cls_at(state, level)
        if c == 'absent':
            return ('Err', 'PageNotMapped')
        if c == 'huge':
            return ('Err', 'ParentEntryHugePage')
    c = cls_at(state, entry_level)
    if c == 'absent':
        return ('Err', 'PageNotMapped')
    return ('Ok', 'MapperFlushAll')


def expect_translate(state):
    """Translate::translate: Mapped with the size of the level where the walk ends, NotMapped otherwise"""
    for level in (4, 3, 2, 1):
        c = cls_at(state, level)
        if c == 'absent':
            return ('NotMapped', None)
        if c == 'huge':
            return ('Mapped', {3: 'Size1GiB', 2: 'Size2MiB'}[level])
        if c == 'leaf':
            return ('Mapped', 'Size4KiB')
    return None
