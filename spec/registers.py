"""Oracle: system-register access instructions and register formats (Intel SDM vol. 2/3/4, AMD APM vol. 2/3).

ACCESS maps a normalised asm template (instruction list) to the architectural access it performs. The operand schema
says which asm operand carries what. Nothing here is derived from /repo.
"""
from spec.arch_constants import ARCH

# (instruction list) -> (kind, register, schema)
#   schema for 'read':  which operand is the value:  ('out', operand index)  or ('edx:eax',) or ('mem', operand index)
#   schema for 'write': ('in', operand index) or ('edx:eax',) or ('mem', operand index)
ACCESS = {}


def _mov_reg(r, readable=True, writable=True):
    if readable:
        ACCESS[('mov {0}, %s' % r,)] = ('read', r, ('out', 0))
    if writable:
        ACCESS[('mov %s, {0}' % r,)] = ('write', r, ('in', 0))


for _r in ('cr0', 'cr3', 'cr4', 'dr0', 'dr1', 'dr2', 'dr3', 'dr7'):
    _mov_reg(_r)
_mov_reg('cr2', writable=False)     # the crate only reads CR2
_mov_reg('dr6', writable=False)     # and only reads DR6
for _s in ('cs', 'ss', 'ds', 'es', 'fs', 'gs'):
    ACCESS[('mov {0:x}, %s' % _s,)] = ('read', _s, ('out', 0))
    if _s != 'cs':
        ACCESS[('mov %s, {0:x}' % _s,)] = ('write', _s, ('in', 0))
# CS cannot be loaded with MOV: far return to the next instruction (SDM 2B "RET"; 64-bit operand size far return pops RIP then CS)
ACCESS[('push {0}', 'lea {1}, [55f + rip]', 'push {1}', 'retfq', '55:')] = ('write', 'cs', ('in', 0))
ACCESS[('rdmsr',)] = ('read', 'msr', ('edx:eax', 'ecx'))      # SDM 2B "RDMSR": ECX = index, EDX:EAX = value
ACCESS[('wrmsr',)] = ('write', 'msr', ('edx:eax', 'ecx'))
ACCESS[('xgetbv',)] = ('read', 'xcr', ('edx:eax', 'ecx'))     # SDM 2D "XGETBV": ECX = XCR index
ACCESS[('xsetbv',)] = ('write', 'xcr', ('edx:eax', 'ecx'))
for _s in ('fs', 'gs'):
    ACCESS[('rd%sbase {0}' % _s,)] = ('read', _s + 'base', ('out', 0))
    ACCESS[('wr%sbase {0}' % _s,)] = ('write', _s + 'base', ('in', 0))
ACCESS[('swapgs',)] = ('swap', 'gsbase<->kernelgsbase', None)
ACCESS[('ltr {0:x}',)] = ('write', 'tr', ('in', 0))
ACCESS[('pushfq', 'pop {0}')] = ('read', 'rflags', ('out', 0))
ACCESS[('push {0}', 'popfq')] = ('write', 'rflags', ('in', 0))
ACCESS[('stmxcsr [{0}]',)] = ('read', 'mxcsr', ('mem', 0))
ACCESS[('ldmxcsr [{0}]',)] = ('write', 'mxcsr', ('mem', 0))
ACCESS[('lgdt [{0}]',)] = ('write', 'gdtr', ('mem', 0))
ACCESS[('lidt [{0}]',)] = ('write', 'idtr', ('mem', 0))
ACCESS[('sgdt [{0}]',)] = ('read', 'gdtr', ('mem', 0))
ACCESS[('sidt [{0}]',)] = ('read', 'idtr', ('mem', 0))

XCR0_INDEX = 0

# flag types -> prefix of their architectural bit names in ARCH
FLAG_PREFIX = {
    'registers::control::Cr0Flags': 'CR0.', 'registers::control::Cr3Flags': 'CR3.', 'registers::control::Cr4Flags': 'CR4.',
    'registers::model_specific::EferFlags': 'EFER.', 'registers::xcontrol::XCr0Flags': 'XCR0.',
    'registers::rflags::RFlags': 'RFLAGS.', 'registers::debug::Dr6Flags': 'DR6.', 'registers::debug::Dr7Flags': 'DR7.',
    'registers::model_specific::CetFlags': 'CET.', 'registers::model_specific::ApicBaseFlags': 'APIC_BASE.',
}


def modelled_bits(flag_type):
    p = FLAG_PREFIX[flag_type]
    v = 0
    for k, x in ARCH.items():
        if k.startswith(p):
            v |= x
    return v


MXCSR_MODELLED = 0xFFFF  # SDM 1 10.2.3: bits 0..15 defined, 16..31 reserved

# register formats used by the typed wrappers
CR3_FRAME = (12, 52)          # SDM 3A 4.5: physical address of the PML4 table, bits 12..M-1
CR3_PCID = (0, 12)            # with CR4.PCIDE = 1 (SDM 3A 4.10.1)
CR3_NOFLUSH = 63              # MOV to CR3 with bit 63 set does not invalidate (SDM 3A 4.10.4.1)
STAR_SYSCALL = (32, 48)       # SDM 4 table 2-2 IA32_STAR: SYSCALL CS/SS selector base
STAR_SYSRET = (48, 64)        # SYSRET CS/SS selector base
# SYSCALL: CS = STAR[47:32], SS = STAR[47:32] + 8 ; SYSRET (64-bit): CS = STAR[63:48] + 16, SS = STAR[63:48] + 8 (SDM 2B)
APIC_BASE_ADDR = (12, 52)     # SDM 3A 10.4.4 (MAXPHYADDR <= 52)
CET_BITMAP = (12, 64)         # EB_LEG_BITMAP_BASE: linear address bits 63:12 (SDM 4 table 2-2 IA32_U_CET)
DR7_FIELDS = 0xFFFF0000       # R/W0..3, LEN0..3

# MSR-backed wrappers: type name -> MSR architectural name
MSR_OF = {
    'Efer': 'MSR.IA32_EFER', 'FsBase': 'MSR.IA32_FS_BASE', 'GsBase': 'MSR.IA32_GS_BASE', 'KernelGsBase': 'MSR.IA32_KERNEL_GS_BASE',
    'Star': 'MSR.IA32_STAR', 'LStar': 'MSR.IA32_LSTAR', 'SFMask': 'MSR.IA32_FMASK', 'UCet': 'MSR.IA32_U_CET', 'SCet': 'MSR.IA32_S_CET',
    'Pat': 'MSR.IA32_PAT', 'ApicBase': 'MSR.IA32_APIC_BASE',
}
