#![feature(rustc_private)]
// Prototype fact extractor: dumps MIR + layouts + constants of the crate being compiled as JSON.
extern crate rustc_abi;
extern crate rustc_ast;
extern crate rustc_driver;
extern crate rustc_hir;
extern crate rustc_interface;
extern crate rustc_middle;
extern crate rustc_span;
extern crate rustc_target;

use rustc_driver::Compilation;
use rustc_hir::def::DefKind;
use rustc_hir::def_id::{DefId, LOCAL_CRATE};
use rustc_interface::interface::Compiler;
use rustc_middle::mir::{
    self, AggregateKind, BasicBlock, Body, Const, InlineAsmOperand, Operand, Place, PlaceElem,
    Rvalue, StatementKind, TerminatorKind,
};
use rustc_middle::ty::{self, Instance, Ty, TyCtxt, TyKind, TypingEnv};
use std::fmt::Write as _;

fn esc(s: &str) -> String {
    let mut o = String::with_capacity(s.len() + 2);
    o.push('"');
    for c in s.chars() {
        match c {
            '"' => o.push_str("\\\""),
            '\\' => o.push_str("\\\\"),
            '\n' => o.push_str("\\n"),
            '\t' => o.push_str("\\t"),
            '\r' => o.push_str("\\r"),
            c if (c as u32) < 0x20 => {
                let _ = write!(o, "\\u{:04x}", c as u32);
            }
            c => o.push(c),
        }
    }
    o.push('"');
    o
}

/// entries of a `&'static [bitflags::Flag<T>]` constant: [{"named":bool,"value":"0x.."}]
fn flag_table<'tcx>(
    tcx: TyCtxt<'tcx>,
    alloc_id: rustc_middle::mir::interpret::AllocId,
    off: usize,
    elem: Ty<'tcx>,
    adef: ty::AdtDef<'tcx>,
    _eargs: ty::GenericArgsRef<'tcx>,
) -> Option<String> {
    let outer = tcx.global_alloc(alloc_id).unwrap_memory();
    let oa = outer.inner();
    // fat pointer: data pointer (with provenance) at `off`, length at `off + 8`
    let lenb = oa.inspect_with_uninit_and_ptr_outside_interpreter(off + 8..off + 16);
    let len = u64::from_le_bytes(lenb.try_into().ok()?) as usize;
    let mut target = None;
    for (o, prov) in oa.provenance().ptrs().iter() {
        if o.bytes_usize() == off {
            target = Some(prov.alloc_id());
        }
    }
    let ptrb = oa.inspect_with_uninit_and_ptr_outside_interpreter(off..off + 8);
    let inner_off = u64::from_le_bytes(ptrb.try_into().ok()?) as usize;
    if len == 0 {
        return Some("[]".into());
    }
    let target = target?;
    let lay = tcx.layout_of(TypingEnv::fully_monomorphized().as_query_input(elem)).ok()?;
    let esize = lay.size.bytes_usize();
    let variant = adef.non_enum_variant();
    let mut name_off = None;
    let mut value_off = None;
    let mut value_size = 0usize;
    for (i, f) in variant.fields.iter().enumerate() {
        let fo = lay.fields.offset(i).bytes_usize();
        if f.name.as_str() == "name" {
            name_off = Some(fo);
        } else if f.name.as_str() == "value" {
            value_off = Some(fo);
            value_size = lay.field(&ty::layout::LayoutCx::new(tcx, TypingEnv::fully_monomorphized()), i).size.bytes_usize();
        }
    }
    let (name_off, value_off) = (name_off?, value_off?);
    let data = tcx.global_alloc(target).unwrap_memory();
    let da = data.inner();
    let mut out = String::from("[");
    for k in 0..len {
        let base = inner_off + k * esize;
        if base + esize > da.len() || value_size == 0 || value_size > 16 {
            return None;
        }
        let nl = da.inspect_with_uninit_and_ptr_outside_interpreter(base + name_off + 8..base + name_off + 16);
        let nlen = u64::from_le_bytes(nl.try_into().ok()?);
        let vb = da.inspect_with_uninit_and_ptr_outside_interpreter(base + value_off..base + value_off + value_size);
        let mut v: u128 = 0;
        for (i, b) in vb.iter().enumerate() {
            v |= (*b as u128) << (8 * i);
        }
        if k > 0 {
            out.push(',');
        }
        let _ = write!(out, "{{\"named\":{},\"value\":\"{:#x}\"}}", nlen > 0, v);
    }
    out.push(']');
    Some(out)
}

struct Cx<'tcx> {
    tcx: TyCtxt<'tcx>,
}

impl<'tcx> Cx<'tcx> {
    fn path(&self, did: DefId) -> String {
        // def_path_str drops disambiguators: same-named items declared in sibling blocks (macro expansions)
        // would collide, so non-zero disambiguators of named value/type components are appended as `#d`.
        let mut s = self.tcx.def_path_str(did);
        if did.is_local() || self.tcx.crate_name(did.krate).as_str() == "x86_64" {
            s = canon_path(&s);
        }
        let dp = self.tcx.def_path(did);
        let mut sfx = String::new();
        for c in dp.data.iter() {
            let named = match c.data {
                rustc_hir::definitions::DefPathData::ValueNs(n) | rustc_hir::definitions::DefPathData::TypeNs(n) => {
                    n.as_str() != "_"
                }
                _ => false,
            };
            if named && c.disambiguator != 0 {
                let _ = write!(sfx, "#{}", c.disambiguator);
            }
        }
        s.push_str(&sfx);
        s
    }

    fn span_loc(&self, sp: rustc_span::Span) -> String {
        let sm = self.tcx.sess.source_map();
        let lo = sm.lookup_char_pos(sp.lo());
        format!("{}:{}", lo.file.name.prefer_local_unconditionally(), lo.line)
    }

    fn ty(&self, t: Ty<'tcx>) -> String {
        let tcx = self.tcx;
        match t.kind() {
            TyKind::Bool => "{\"k\":\"bool\"}".into(),
            TyKind::Char => "{\"k\":\"char\"}".into(),
            TyKind::Int(i) => format!(
                "{{\"k\":\"int\",\"bits\":{}}}",
                i.bit_width().unwrap_or(64)
            ),
            TyKind::Uint(u) => format!(
                "{{\"k\":\"uint\",\"bits\":{},\"size\":{}}}",
                u.bit_width().unwrap_or(64),
                u.bit_width().is_none()
            ),
            TyKind::Adt(def, args) => {
                let mut a = Vec::new();
                for g in args.iter() {
                    if let Some(t) = g.as_type() {
                        a.push(self.ty(t));
                    } else if let Some(c) = g.as_const() {
                        a.push(format!("{{\"k\":\"constarg\",\"s\":{}}}", esc(&format!("{:?}", c))));
                    }
                }
                format!(
                    "{{\"k\":\"adt\",\"name\":{},\"args\":[{}]}}",
                    esc(&self.path(def.did())),
                    a.join(",")
                )
            }
            TyKind::Ref(_, inner, m) => format!(
                "{{\"k\":\"ref\",\"mut\":{},\"to\":{}}}",
                m.is_mut(),
                self.ty(*inner)
            ),
            TyKind::RawPtr(inner, m) => format!(
                "{{\"k\":\"rawptr\",\"mut\":{},\"to\":{}}}",
                m.is_mut(),
                self.ty(*inner)
            ),
            TyKind::Tuple(ts) => {
                let v: Vec<String> = ts.iter().map(|t| self.ty(t)).collect();
                format!("{{\"k\":\"tuple\",\"elems\":[{}]}}", v.join(","))
            }
            TyKind::Array(e, n) => format!(
                "{{\"k\":\"array\",\"elem\":{},\"len\":{}}}",
                self.ty(*e),
                esc(&format!("{:?}", n))
            ),
            TyKind::Slice(e) => format!("{{\"k\":\"slice\",\"elem\":{}}}", self.ty(*e)),
            TyKind::Param(p) => format!("{{\"k\":\"param\",\"name\":{}}}", esc(p.name.as_str())),
            TyKind::Never => "{\"k\":\"never\"}".into(),
            TyKind::FnDef(did, _) => format!("{{\"k\":\"fndef\",\"name\":{}}}", esc(&self.path(*did))),
            TyKind::FnPtr(..) => {
                let sig = t.fn_sig(tcx);
                format!(
                    "{{\"k\":\"fnptr\",\"abi\":{},\"s\":{}}}",
                    esc(&format!("{:?}", sig.abi())),
                    esc(&format!("{}", t))
                )
            }
            TyKind::Closure(did, _) => format!("{{\"k\":\"closure\",\"name\":{}}}", esc(&self.path(*did))),
            _ => format!("{{\"k\":\"other\",\"s\":{}}}", esc(&format!("{}", t))),
        }
    }

    fn place(&self, body: &Body<'tcx>, p: &Place<'tcx>) -> String {
        let tcx = self.tcx;
        let mut out = format!("{{\"l\":{},\"p\":[", p.local.as_usize());
        let mut pty = mir::PlaceTy::from_ty(body.local_decls[p.local].ty);
        let mut first = true;
        for elem in p.projection.iter() {
            if !first {
                out.push(',');
            }
            first = false;
            match elem {
                PlaceElem::Deref => {
                    let raw = matches!(pty.ty.kind(), TyKind::RawPtr(..));
                    let _ = write!(out, "{{\"k\":\"deref\",\"raw\":{}}}", raw);
                }
                PlaceElem::Field(f, fty) => {
                    let mut name = format!("{}", f.as_usize());
                    if let TyKind::Adt(def, _) = pty.ty.kind() {
                        let v = match pty.variant_index {
                            Some(v) => Some(def.variant(v)),
                            None if def.is_struct() || def.is_union() => Some(def.non_enum_variant()),
                            None => None,
                        };
                        if let Some(v) = v {
                            if let Some(fd) = v.fields.get(f) {
                                name = fd.name.to_string();
                            }
                        }
                    }
                    let _ = write!(
                        out,
                        "{{\"k\":\"field\",\"i\":{},\"name\":{},\"ty\":{}}}",
                        f.as_usize(),
                        esc(&name),
                        self.ty(fty)
                    );
                }
                PlaceElem::Downcast(sym, v) => {
                    let _ = write!(
                        out,
                        "{{\"k\":\"downcast\",\"variant\":{},\"i\":{}}}",
                        esc(&sym.map(|s| s.to_string()).unwrap_or_default()),
                        v.as_usize()
                    );
                }
                PlaceElem::Index(l) => {
                    let _ = write!(out, "{{\"k\":\"index\",\"l\":{}}}", l.as_usize());
                }
                PlaceElem::ConstantIndex { offset, min_length, from_end } => {
                    let _ = write!(
                        out,
                        "{{\"k\":\"cindex\",\"off\":{},\"min\":{},\"from_end\":{}}}",
                        offset, min_length, from_end
                    );
                }
                PlaceElem::Subslice { from, to, from_end } => {
                    let _ = write!(
                        out,
                        "{{\"k\":\"subslice\",\"from\":{},\"to\":{},\"from_end\":{}}}",
                        from, to, from_end
                    );
                }
                other => {
                    let _ = write!(out, "{{\"k\":\"other\",\"dbg\":{}}}", esc(&format!("{:?}", other)));
                }
            }
            pty = pty.projection_ty(tcx, elem);
        }
        out.push_str("]}");
        out
    }

    fn constant(&self, caller: DefId, c: &Const<'tcx>) -> String {
        let tcx = self.tcx;
        let ty = c.ty();
        let tys = self.ty(ty);
        // function items
        if let TyKind::FnDef(did, args) = ty.kind() {
            let env = TypingEnv::post_analysis(tcx, caller);
            let mut resolved = String::from("null");
            let mut rkind = "none";
            if let Ok(Some(inst)) = Instance::try_resolve(tcx, env, *did, args) {
                let rd = inst.def_id();
                resolved = format!(
                    "{{\"name\":{},\"args\":{},\"gargs\":{},\"local\":{},\"inst\":{}}}",
                    esc(&self.path(rd)),
                    esc(&format!("{:?}", inst.args)),
                    self.gargs(inst.args),
                    rd.is_local(),
                    esc(&format!("{:?}", inst.def))
                );
                rkind = "ok";
            }
            let trait_of = tcx
                .trait_of_assoc(*did)
                .map(|t| esc(&self.path(t)))
                .unwrap_or("null".into());
            let mut targs = Vec::new();
            for g in args.iter() {
                if let Some(t) = g.as_type() {
                    targs.push(self.ty(t));
                } else if let Some(c) = g.as_const() {
                    targs.push(format!("{{\"k\":\"constarg\",\"s\":{}}}", esc(&format!("{:?}", c))));
                }
            }
            return format!(
                "{{\"k\":\"fn\",\"name\":{},\"krate\":{},\"local\":{},\"trait\":{},\"targs\":[{}],\"res\":{},\"rk\":\"{}\"}}",
                esc(&self.path(*did)),
                esc(tcx.crate_name(did.krate).as_str()),
                did.is_local(),
                trait_of,
                targs.join(","),
                resolved,
                rkind
            );
        }
        let env = TypingEnv::post_analysis(tcx, caller);
        if let Some(si) = c.try_eval_scalar_int(tcx, env) {
            let bits = si.size().bits();
            let v = si.to_bits(si.size());
            return format!(
                "{{\"k\":\"int\",\"ty\":{},\"bits\":{},\"v\":\"{:#x}\"}}",
                tys, bits, v
            );
        }
        match c {
            Const::Unevaluated(uv, _) => format!(
                "{{\"k\":\"uneval\",\"ty\":{},\"def\":{},\"args\":{},\"gargs\":{},\"promoted\":{}}}",
                tys,
                esc(&self.path(uv.def)),
                esc(&format!("{:?}", uv.args)),
                self.gargs(uv.args),
                uv.promoted.map(|p| p.as_usize().to_string()).unwrap_or("null".into())
            ),
            _ => format!(
                "{{\"k\":\"cother\",\"ty\":{},\"dbg\":{}}}",
                tys,
                esc(&format!("{:?}", c))
            ),
        }
    }

    fn gargs(&self, args: ty::GenericArgsRef<'tcx>) -> String {
        let mut v = Vec::new();
        for g in args.iter() {
            if let Some(t) = g.as_type() {
                v.push(self.ty(t));
            } else if let Some(c) = g.as_const() {
                v.push(format!("{{\"k\":\"constarg\",\"s\":{}}}", esc(&format!("{:?}", c))));
            } else {
                v.push("{\"k\":\"lifetime\"}".to_string());
            }
        }
        format!("[{}]", v.join(","))
    }

    fn operand(&self, caller: DefId, body: &Body<'tcx>, o: &Operand<'tcx>) -> String {
        match o {
            Operand::Copy(p) => format!("{{\"k\":\"copy\",\"pl\":{}}}", self.place(body, p)),
            Operand::Move(p) => format!("{{\"k\":\"move\",\"pl\":{}}}", self.place(body, p)),
            Operand::Constant(c) => self.constant(caller, &c.const_),
            other => format!("{{\"k\":\"oother\",\"dbg\":{}}}", esc(&format!("{:?}", other))),
        }
    }

    fn rvalue(&self, caller: DefId, body: &Body<'tcx>, rv: &Rvalue<'tcx>) -> String {
        let tcx = self.tcx;
        match rv {
            Rvalue::Use(o, _) => format!("{{\"k\":\"use\",\"op\":{}}}", self.operand(caller, body, o)),
            Rvalue::BinaryOp(op, ab) => format!(
                "{{\"k\":\"bin\",\"op\":\"{:?}\",\"l\":{},\"r\":{}}}",
                op,
                self.operand(caller, body, &ab.0),
                self.operand(caller, body, &ab.1)
            ),
            Rvalue::UnaryOp(op, o) => format!(
                "{{\"k\":\"un\",\"op\":\"{:?}\",\"o\":{}}}",
                op,
                self.operand(caller, body, o)
            ),
            Rvalue::Cast(kind, o, t) => format!(
                "{{\"k\":\"cast\",\"kind\":{},\"o\":{},\"ty\":{}}}",
                esc(&format!("{:?}", kind)),
                self.operand(caller, body, o),
                self.ty(*t)
            ),
            Rvalue::Ref(_, bk, p) => format!(
                "{{\"k\":\"ref\",\"bk\":{},\"pl\":{}}}",
                esc(&format!("{:?}", bk)),
                self.place(body, p)
            ),
            Rvalue::RawPtr(k, p) => format!(
                "{{\"k\":\"rawref\",\"bk\":{},\"pl\":{}}}",
                esc(&format!("{:?}", k)),
                self.place(body, p)
            ),
            Rvalue::CopyForDeref(p) => format!("{{\"k\":\"use\",\"op\":{{\"k\":\"copy\",\"pl\":{}}}}}", self.place(body, p)),
            Rvalue::Discriminant(p) => format!("{{\"k\":\"discr\",\"pl\":{}}}", self.place(body, p)),
            Rvalue::Repeat(o, n) => format!(
                "{{\"k\":\"repeat\",\"o\":{},\"n\":{}}}",
                self.operand(caller, body, o),
                esc(&format!("{:?}", n))
            ),
            Rvalue::Aggregate(kind, fields) => {
                let fs: Vec<String> = fields.iter().map(|o| self.operand(caller, body, o)).collect();
                let k = match &**kind {
                    AggregateKind::Adt(did, vidx, _, _, _) => {
                        let def = tcx.adt_def(*did);
                        let v = def.variant(*vidx);
                        let names: Vec<String> = v.fields.iter().map(|f| esc(f.name.as_str())).collect();
                        format!(
                            "\"ak\":\"adt\",\"enum\":{},\"adt\":{},\"variant\":{},\"vi\":{},\"fnames\":[{}]",
                            def.is_enum(),
                            esc(&self.path(*did)),
                            esc(v.name.as_str()),
                            vidx.as_usize(),
                            names.join(",")
                        )
                    }
                    AggregateKind::Tuple => "\"ak\":\"tuple\"".into(),
                    AggregateKind::Array(_) => "\"ak\":\"array\"".into(),
                    AggregateKind::Closure(did, _) => format!("\"ak\":\"closure\",\"name\":{}", esc(&self.path(*did))),
                    other => format!("\"ak\":\"other\",\"dbg\":{}", esc(&format!("{:?}", other))),
                };
                format!("{{\"k\":\"agg\",{},\"fields\":[{}]}}", k, fs.join(","))
            }
            other => format!("{{\"k\":\"rother\",\"dbg\":{}}}", esc(&format!("{:?}", other))),
        }
    }

    fn bb(b: BasicBlock) -> usize {
        b.as_usize()
    }

    fn terminator(&self, caller: DefId, body: &Body<'tcx>, t: &mir::Terminator<'tcx>) -> String {
        let loc = self.span_loc(t.source_info.span);
        let inner = match &t.kind {
            TerminatorKind::Goto { target } => format!("\"k\":\"goto\",\"t\":{}", Self::bb(*target)),
            TerminatorKind::SwitchInt { discr, targets } => {
                let mut ts = Vec::new();
                for (v, b) in targets.iter() {
                    ts.push(format!("[\"{:#x}\",{}]", v, Self::bb(b)));
                }
                format!(
                    "\"k\":\"switch\",\"d\":{},\"ts\":[{}],\"o\":{}",
                    self.operand(caller, body, discr),
                    ts.join(","),
                    Self::bb(targets.otherwise())
                )
            }
            TerminatorKind::Return => "\"k\":\"return\"".into(),
            TerminatorKind::Unreachable => "\"k\":\"unreachable\"".into(),
            TerminatorKind::UnwindResume => "\"k\":\"resume\"".into(),
            TerminatorKind::UnwindTerminate(_) => "\"k\":\"terminate\"".into(),
            TerminatorKind::Drop { place, target, .. } => format!(
                "\"k\":\"drop\",\"pl\":{},\"t\":{}",
                self.place(body, place),
                Self::bb(*target)
            ),
            TerminatorKind::Call { func, args, destination, target, .. } => {
                let a: Vec<String> = args.iter().map(|s| self.operand(caller, body, &s.node)).collect();
                format!(
                    "\"k\":\"call\",\"f\":{},\"args\":[{}],\"dest\":{},\"t\":{}",
                    self.operand(caller, body, func),
                    a.join(","),
                    self.place(body, destination),
                    target.map(|b| Self::bb(b).to_string()).unwrap_or("null".into())
                )
            }
            TerminatorKind::Assert { cond, expected, msg, target, .. } => {
                let kind = match &**msg {
                    mir::AssertKind::Overflow(op, ..) => format!("Overflow({:?})", op),
                    mir::AssertKind::BoundsCheck { .. } => "BoundsCheck".into(),
                    mir::AssertKind::OverflowNeg(..) => "OverflowNeg".into(),
                    mir::AssertKind::DivisionByZero(..) => "DivisionByZero".into(),
                    mir::AssertKind::RemainderByZero(..) => "RemainderByZero".into(),
                    other => format!("{:?}", other).chars().take(40).collect(),
                };
                format!(
                    "\"k\":\"assert\",\"c\":{},\"exp\":{},\"ak\":{},\"t\":{}",
                    self.operand(caller, body, cond),
                    expected,
                    esc(&kind),
                    Self::bb(*target)
                )
            }
            TerminatorKind::InlineAsm { template, operands, options, targets, .. } => {
                let mut pieces = Vec::new();
                for p in template.iter() {
                    match p {
                        rustc_ast::InlineAsmTemplatePiece::String(s) => pieces.push(format!("{{\"s\":{}}}", esc(s))),
                        rustc_ast::InlineAsmTemplatePiece::Placeholder { operand_idx, modifier, .. } => pieces.push(format!(
                            "{{\"op\":{},\"mod\":{}}}",
                            operand_idx,
                            modifier.map(|c| esc(&c.to_string())).unwrap_or("null".into())
                        )),
                    }
                }
                let mut ops = Vec::new();
                for op in operands.iter() {
                    let s = match op {
                        InlineAsmOperand::In { reg, value } => format!(
                            "{{\"k\":\"in\",\"reg\":{},\"v\":{}}}",
                            esc(&format!("{:?}", reg)),
                            self.operand(caller, body, value)
                        ),
                        InlineAsmOperand::Out { reg, late, place } => format!(
                            "{{\"k\":\"out\",\"reg\":{},\"late\":{},\"pl\":{}}}",
                            esc(&format!("{:?}", reg)),
                            late,
                            place.as_ref().map(|p| self.place(body, p)).unwrap_or("null".into())
                        ),
                        InlineAsmOperand::InOut { reg, late, in_value, out_place } => format!(
                            "{{\"k\":\"inout\",\"reg\":{},\"late\":{},\"v\":{},\"pl\":{}}}",
                            esc(&format!("{:?}", reg)),
                            late,
                            self.operand(caller, body, in_value),
                            out_place.as_ref().map(|p| self.place(body, p)).unwrap_or("null".into())
                        ),
                        InlineAsmOperand::Const { value } => format!(
                            "{{\"k\":\"const\",\"v\":{}}}",
                            self.constant(caller, &value.const_)
                        ),
                        other => format!("{{\"k\":\"aother\",\"dbg\":{}}}", esc(&format!("{:?}", other))),
                    };
                    ops.push(s);
                }
                let ts: Vec<String> = targets.iter().map(|b| Self::bb(*b).to_string()).collect();
                format!(
                    "\"k\":\"asm\",\"tpl\":[{}],\"ops\":[{}],\"opts\":{},\"ts\":[{}]",
                    pieces.join(","),
                    ops.join(","),
                    esc(&format!("{:?}", options)),
                    ts.join(",")
                )
            }
            TerminatorKind::FalseEdge { real_target, .. } => format!("\"k\":\"goto\",\"t\":{}", Self::bb(*real_target)),
            TerminatorKind::FalseUnwind { real_target, .. } => format!("\"k\":\"goto\",\"t\":{}", Self::bb(*real_target)),
            other => format!("\"k\":\"tother\",\"dbg\":{}", esc(&format!("{:?}", other))),
        };
        format!("{{{},\"loc\":{}}}", inner, esc(&loc))
    }

    fn function(&self, did: DefId) -> String {
        let tcx = self.tcx;
        let body = tcx.optimized_mir(did);
        self.function_body(did, body, None)
    }

    fn function_body(&self, did: DefId, body: &Body<'tcx>, promoted: Option<usize>) -> String {
        let tcx = self.tcx;
        let kind = tcx.def_kind(did);
        let span = tcx.def_span(did);
        let mut out = String::new();
        let _ = write!(
            out,
            "{{\"name\":{},\"kind\":\"{:?}\",\"loc\":{},\"exp\":{},\"argc\":{}",
            esc(&match promoted { Some(i) => format!("{}::promoted[{}]", self.path(did), i), None => self.path(did) }),
            kind,
            esc(&self.span_loc(span)),
            span.from_expansion(),
            body.arg_count
        );
        if span.from_expansion() {
            let m = span.ctxt().outer_expn_data();
            let _ = write!(out, ",\"macro\":{}", esc(&format!("{:?}", m.kind)));
        }
        if matches!(kind, DefKind::Fn | DefKind::AssocFn) {
            let sig = tcx.fn_sig(did).instantiate_identity().skip_norm_wip();
            let _ = write!(
                out,
                ",\"abi\":{},\"unsafe\":{},\"vis\":{}",
                esc(&format!("{:?}", sig.abi())),
                !sig.safety().is_safe(),
                esc(&format!("{:?}", tcx.visibility(did)))
            );
            let _ = write!(out, ",\"const\":{}", tcx.is_const_fn(did));
        }
        // impl info
        if let Some(impl_did) = tcx.impl_of_assoc(did) {
            let self_ty = tcx.type_of(impl_did).instantiate_identity().skip_norm_wip();
            let tr = tcx.impl_opt_trait_ref(impl_did).map(|t| format!("{:?}", t.instantiate_identity().skip_norm_wip()));
            let _ = write!(
                out,
                ",\"impl\":{{\"self\":{},\"selfs\":{},\"trait\":{},\"derived\":{}}}",
                self.ty(self_ty),
                esc(&format!("{}", self_ty)),
                tr.map(|s| esc(&s)).unwrap_or("null".into()),
                tcx.is_builtin_derived(impl_did)
            );
        }
        let gens = tcx.generics_of(did);
        let mut gnames = Vec::new();
        for i in 0..gens.count() {
            let p = gens.param_at(i, tcx);
            gnames.push(esc(p.name.as_str()));
        }
        let _ = write!(out, ",\"generics\":[{}]", gnames.join(","));
        // locals
        out.push_str(",\"locals\":[");
        for (i, l) in body.local_decls.iter().enumerate() {
            if i > 0 {
                out.push(',');
            }
            out.push_str(&self.ty(l.ty));
        }
        out.push_str("],\"dbg\":{");
        let mut first = true;
        for vdi in body.var_debug_info.iter() {
            if let mir::VarDebugInfoContents::Place(p) = &vdi.value {
                if p.projection.is_empty() {
                    if !first {
                        out.push(',');
                    }
                    first = false;
                    let _ = write!(out, "\"{}\":{}", p.local.as_usize(), esc(vdi.name.as_str()));
                }
            }
        }
        out.push_str("},\"blocks\":[");
        for (bi, data) in body.basic_blocks.iter_enumerated() {
            if bi.as_usize() > 0 {
                out.push(',');
            }
            out.push_str("{\"s\":[");
            let mut firsts = true;
            for st in data.statements.iter() {
                let s = match &st.kind {
                    StatementKind::Assign(b) => {
                        // innermost macro the statement's span comes from (only `cfg` matters: `cfg!(..)` lowers to a literal bool)
                        let sp = st.source_info.span;
                        let mac = if sp.from_expansion() {
                            match sp.ctxt().outer_expn_data().kind {
                                rustc_span::ExpnKind::Macro(_, name) => format!(",\"mac\":{}", esc(name.as_str())),
                                _ => String::new(),
                            }
                        } else {
                            String::new()
                        };
                        Some(format!(
                            "{{\"k\":\"assign\",\"pl\":{},\"rv\":{}{}}}",
                            self.place(body, &b.0),
                            self.rvalue(did, body, &b.1),
                            mac
                        ))
                    }
                    StatementKind::SetDiscriminant { place, variant_index } => Some(format!(
                        "{{\"k\":\"setdiscr\",\"pl\":{},\"v\":{}}}",
                        self.place(body, place),
                        variant_index.as_usize()
                    )),
                    StatementKind::Intrinsic(i) => Some(format!(
                        "{{\"k\":\"intrinsic\",\"dbg\":{}}}",
                        esc(&format!("{:?}", i))
                    )),
                    _ => None,
                };
                if let Some(s) = s {
                    if !firsts {
                        out.push(',');
                    }
                    firsts = false;
                    out.push_str(&s);
                }
            }
            out.push_str("],\"t\":");
            match &data.terminator {
                Some(t) => out.push_str(&self.terminator(did, body, t)),
                None => out.push_str("null"),
            }
            let _ = write!(out, ",\"cleanup\":{}}}", data.is_cleanup);
        }
        out.push_str("]}");
        out
    }

    fn layout_json(&self, ty: Ty<'tcx>) -> Option<String> {
        let tcx = self.tcx;
        let env = TypingEnv::fully_monomorphized();
        let lay = tcx.layout_of(env.as_query_input(ty)).ok()?;
        let mut out = format!(
            "{{\"ty\":{},\"tys\":{},\"size\":{},\"align\":{}",
            self.ty(ty),
            esc(&anon_lifetimes(&format!("{}", ty))),
            lay.size.bytes(),
            lay.align.abi.bytes()
        );
        if let TyKind::Adt(def, args) = ty.kind() {
            let _ = write!(out, ",\"repr\":{}", esc(&format!("{:?}", def.repr())));
            if def.is_struct() {
                out.push_str(",\"fields\":[");
                for (i, f) in def.non_enum_variant().fields.iter().enumerate() {
                    if i > 0 {
                        out.push(',');
                    }
                    let fty = tcx.normalize_erasing_regions(env, ty::Unnormalized::new(f.ty(tcx, args)));
                    let fl = tcx.layout_of(env.as_query_input(fty)).ok();
                    let _ = write!(
                        out,
                        "{{\"name\":{},\"off\":{},\"size\":{},\"ty\":{},\"vis\":{}}}",
                        esc(f.name.as_str()),
                        lay.fields.offset(i).bytes(),
                        fl.map(|l| l.size.bytes() as i64).unwrap_or(-1),
                        self.ty(fty),
                        esc(&format!("{:?}", f.vis))
                    );
                }
                out.push(']');
            } else if def.is_enum() {
                out.push_str(",\"variants\":[");
                let mut first = true;
                for (vi, d) in def.discriminants(tcx) {
                    if !first {
                        out.push(',');
                    }
                    first = false;
                    let _ = write!(
                        out,
                        "{{\"name\":{},\"discr\":\"{:#x}\",\"nfields\":{}}}",
                        esc(def.variant(vi).name.as_str()),
                        d.val,
                        def.variant(vi).fields.len()
                    );
                }
                out.push(']');
            }
        }
        out.push('}');
        Some(out)
    }
}

/// Item paths that do not depend on where an `impl` block lives or how its lifetimes are named: rustc prints
/// `module::<impl Trait for Type>::item` when the block is in neither the type's nor the trait's module and `<Type as Trait>::item`
/// otherwise (`module::<impl Type>::item` / `Type::<args>::item` for inherent blocks); the second form is used throughout, and every
/// named lifetime is printed as `'_`. Blocks inside anonymous constants (`const _: () = { impl .. }`, what `bitflags!` and derives
/// expand to) keep rustc's form: they cannot be moved without the macro invocation.
fn canon_path(s: &str) -> String {
    let s = anon_lifetimes(s);
    let pos = match s.find("<impl ") {
        Some(p) => p,
        None => return s,
    };
    let prefix = &s[..pos];
    if prefix.ends_with("_::") || prefix.contains('<') || prefix.contains('{') {
        return s;
    }
    let b = s.as_bytes();
    let mut depth = 0i32;
    let mut end = None;
    let mut i = pos;
    while i < b.len() {
        match b[i] {
            b'<' => depth += 1,
            b'>' if i > 0 && b[i - 1] == b'-' => {}
            b'>' => {
                depth -= 1;
                if depth == 0 {
                    end = Some(i);
                    break;
                }
            }
            _ => {}
        }
        i += 1;
    }
    let end = match end {
        Some(e) => e,
        None => return s,
    };
    let inner = &s[pos + 6..end];
    let rest = &s[end + 1..];
    // " for " outside any angle bracket separates trait and type
    let ib = inner.as_bytes();
    let mut depth = 0i32;
    let mut split = None;
    let mut i = 0;
    while i < ib.len() {
        match ib[i] {
            b'<' | b'(' | b'[' => depth += 1,
            b'>' if i > 0 && ib[i - 1] == b'-' => {}
            b'>' | b')' | b']' => depth -= 1,
            b' ' if depth == 0 && inner[i..].starts_with(" for ") => {
                split = Some(i);
                break;
            }
            _ => {}
        }
        i += 1;
    }
    let q = match split {
        Some(k) => format!("<{} as {}>", &inner[k + 5..], &inner[..k]),
        None => {
            let first = inner.chars().next().unwrap_or('<');
            if first.is_alphabetic() || first == '_' {
                match inner.find('<') {
                    Some(a) if inner.ends_with('>') => format!("{}::{}", &inner[..a], &inner[a..]),
                    _ => inner.to_string(),
                }
            } else {
                format!("<{}>", inner)
            }
        }
    };
    format!("{}{}", q, rest)
}

fn anon_lifetimes(s: &str) -> String {
    let b: Vec<char> = s.chars().collect();
    let mut out = String::with_capacity(s.len());
    let mut i = 0;
    while i < b.len() {
        if b[i] == '\'' && i + 1 < b.len() && (b[i + 1].is_alphabetic() || b[i + 1] == '_') {
            let mut j = i + 1;
            while j < b.len() && (b[j].is_alphanumeric() || b[j] == '_') {
                j += 1;
            }
            // a lifetime, not a char literal: no closing quote follows
            if j >= b.len() || b[j] != '\'' {
                out.push_str("'_");
                i = j;
                continue;
            }
        }
        out.push(b[i]);
        i += 1;
    }
    out
}

fn has_params<'tcx>(t: Ty<'tcx>) -> bool {
    use rustc_middle::ty::TypeVisitableExt;
    t.has_param() || t.has_infer() || t.has_aliases() || t.has_bound_vars()
}

struct Cb;
impl rustc_driver::Callbacks for Cb {
    fn after_analysis<'tcx>(&mut self, _c: &Compiler, tcx: TyCtxt<'tcx>) -> Compilation {
        let crate_name = tcx.crate_name(LOCAL_CRATE).to_string();
        let want = std::env::var("X86FACTS_CRATES").unwrap_or("x86_64".into());
        if !want.split(',').any(|w| w == crate_name) {
            return Compilation::Continue;
        }
        let outdir = std::env::var("X86FACTS_OUT").expect("X86FACTS_OUT");
        let cx = Cx { tcx };
        let mut out = String::new();
        let _ = write!(out, "{{\"crate\":{},\"fns\":[", esc(&crate_name));
        let mut nfn = 0usize;
        let mut tys: Vec<Ty<'tcx>> = Vec::new();
        let mut seen = std::collections::HashSet::new();
        let skip_macros = ["bitflags"]; // bodies of bitflags-generated fns are modelled, not analysed
        for ldid in tcx.mir_keys(()) {
            let did = ldid.to_def_id();
            let kind = tcx.def_kind(did);
            if !matches!(kind, DefKind::Fn | DefKind::AssocFn | DefKind::Closure) {
                continue;
            }
            if tcx.is_constructor(did) {
                continue;
            }
            let span = tcx.def_span(did);
            let mut skip_body = false;
            if span.from_expansion() {
                let d = span.ctxt().outer_expn_data();
                let ms = format!("{:?}", d.kind);
                if skip_macros.iter().any(|m| ms.contains(m)) {
                    skip_body = true;
                }
            }
            if skip_body {
                continue;
            }
            let body = tcx.optimized_mir(did);
            for l in body.local_decls.iter() {
                let t = l.ty;
                let t = match t.kind() {
                    TyKind::Ref(_, i, _) => *i,
                    TyKind::RawPtr(i, _) => *i,
                    _ => t,
                };
                if matches!(t.kind(), TyKind::Adt(..)) && !has_params(t) && seen.insert(t) {
                    tys.push(t);
                }
            }
            if nfn > 0 {
                out.push(',');
            }
            out.push('\n');
            out.push_str(&cx.function(did));
            nfn += 1;
            if !matches!(kind, DefKind::Closure) || true {
                let proms = tcx.promoted_mir(did);
                for (pi, pb) in proms.iter_enumerated() {
                    out.push_str(",\n");
                    out.push_str(&cx.function_body(did, pb, Some(pi.as_usize())));
                }
            }
        }
        // generic constants (`impl<S: PageSize> PhysFrame<S> { const LAST: u64 = ...S::SIZE... }`) cannot be evaluated once: their bodies
        // are dumped like functions without arguments and interpreted per instantiation
        for ldid in tcx.hir_crate_items(()).definitions() {
            let did = ldid.to_def_id();
            if !matches!(tcx.def_kind(did), DefKind::AssocConst { .. } | DefKind::Const { .. }) {
                continue;
            }
            if !tcx.generics_of(did).requires_monomorphization(tcx) {
                continue;
            }
            if !tcx.is_mir_available(did) && tcx.hir_maybe_body_owned_by(ldid).is_none() {
                continue;
            }
            let body = tcx.mir_for_ctfe(did);
            if nfn > 0 {
                out.push(',');
            }
            out.push('\n');
            out.push_str(&cx.function_body(did, body, None));
            nfn += 1;
        }
        out.push_str("],\n\"layouts\":[");
        // also every non-generic ADT defined in the crate
        for ldid in tcx.hir_crate_items(()).definitions() {
            let did = ldid.to_def_id();
            if matches!(tcx.def_kind(did), DefKind::Struct | DefKind::Enum | DefKind::Union) {
                if tcx.generics_of(did).count() == 0 {
                    let t = tcx.type_of(did).instantiate_identity().skip_norm_wip();
                    if seen.insert(t) {
                        tys.push(t);
                    }
                }
            }
        }
        // field types of collected ADTs (one level), e.g. Entry<HandlerFunc>
        let mut i = 0;
        while i < tys.len() {
            let t = tys[i];
            i += 1;
            if let TyKind::Adt(def, args) = t.kind() {
                if def.is_struct() && def.did().krate == LOCAL_CRATE {
                    for f in def.non_enum_variant().fields.iter() {
                        let mut ft = tcx.normalize_erasing_regions(
                            TypingEnv::fully_monomorphized(),
                            ty::Unnormalized::new(f.ty(tcx, args)),
                        );
                        if let TyKind::Array(e, _) = ft.kind() {
                            ft = *e;
                        }
                        if matches!(ft.kind(), TyKind::Adt(..)) && !has_params(ft) && seen.insert(ft) {
                            tys.push(ft);
                        }
                    }
                }
            }
        }
        let mut first = true;
        for t in tys.iter() {
            if let TyKind::Adt(def, _) = t.kind() {
                let kr = tcx.crate_name(def.did().krate).to_string();
                if kr != "x86_64" && kr != crate_name {
                    continue;
                }
            }
            if let Some(j) = cx.layout_json(*t) {
                if !first {
                    out.push(',');
                }
                first = false;
                out.push('\n');
                out.push_str(&j);
            }
        }
        out.push_str("],\n\"consts\":[");
        let mut first = true;
        for ldid in tcx.hir_crate_items(()).definitions() {
            let did = ldid.to_def_id();
            let k = tcx.def_kind(did);
            if !matches!(k, DefKind::AssocConst { .. } | DefKind::Const { .. }) {
                continue;
            }
            if tcx.generics_of(did).count() != 0 && tcx.generics_of(did).parent_count + tcx.generics_of(did).own_params.len() != 0 {
                // generic (e.g. trait default / Page::<S>::SIZE): skip evaluation
                if tcx.generics_of(did).requires_monomorphization(tcx) {
                    continue;
                }
            }
            let ty = tcx.type_of(did).instantiate_identity().skip_norm_wip();
            let mut fnptr = String::from("null");
            let mut flags_json = String::from("null");
            let (val, bytes) = match tcx.const_eval_poly(did) {
                Ok(v) => {
                    let mut bytes = String::from("null");
                    if let mir::ConstValue::Indirect { alloc_id, offset } = v {
                        if let Some(lay) = tcx
                            .layout_of(TypingEnv::fully_monomorphized().as_query_input(ty))
                            .ok()
                        {
                            let alloc = tcx.global_alloc(alloc_id).unwrap_memory();
                            let a = alloc.inner();
                            let start = offset.bytes_usize();
                            let end = start + lay.size.bytes_usize();
                            if end <= a.len() {
                                let bs = a.inspect_with_uninit_and_ptr_outside_interpreter(start..end);
                                let hex: String = bs.iter().map(|b| format!("{:02x}", b)).collect();
                                bytes = format!("\"{}\"", hex);
                            }
                        }
                    }
                    // the flag table of a bitflags type (`<T as bitflags::Flags>::FLAGS: &[Flag<T>]`): follow the slice and list every
                    // entry's value and whether it is named (an unnamed `const _ = ..` entry widens `all()` without adding a constant)
                    if let mir::ConstValue::Indirect { alloc_id, offset } = v {
                        if let TyKind::Ref(_, inner, _) = ty.kind() {
                            if let TyKind::Slice(elem) = inner.kind() {
                                if let TyKind::Adt(adef, eargs) = elem.kind() {
                                    if cx.path(adef.did()).ends_with("bitflags::Flag") {
                                        if let Some(fl) = flag_table(tcx, alloc_id, offset.bytes_usize(), *elem, *adef, eargs) {
                                            flags_json = fl;
                                        }
                                    }
                                }
                            }
                        }
                    }
                    // a function-pointer constant: name the function it points to
                    if let mir::ConstValue::Scalar(mir::interpret::Scalar::Ptr(ptr, _)) = v {
                        if let rustc_middle::mir::interpret::GlobalAlloc::Function { instance } =
                            tcx.global_alloc(ptr.provenance.alloc_id())
                        {
                            fnptr = format!("{}", esc(&cx.path(instance.def_id())));
                        }
                    }
                    (format!("{:?}", v), bytes)
                }
                Err(_) => ("ERR".into(), "null".into()),
            };
            let parent_impl = tcx.impl_of_assoc(did).map(|i| {
                let st = tcx.type_of(i).instantiate_identity().skip_norm_wip();
                let tr = tcx.impl_opt_trait_ref(i).map(|t| format!("{:?}", t.instantiate_identity().skip_norm_wip()));
                format!("{{\"self\":{},\"trait\":{}}}", esc(&anon_lifetimes(&format!("{}", st))), tr.map(|s| esc(&s)).unwrap_or("null".into()))
            });
            if !first {
                out.push(',');
            }
            first = false;
            let sp = tcx.def_span(did);
            let _ = write!(
                out,
                "\n{{\"name\":{},\"ty\":{},\"val\":{},\"bytes\":{},\"fn\":{},\"flags\":{},\"vis\":{},\"loc\":{},\"exp\":{},\"impl\":{}}}",
                esc(&cx.path(did)),
                cx.ty(ty),
                esc(&val),
                bytes,
                fnptr,
                flags_json,
                esc(&format!("{:?}", tcx.visibility(did))),
                esc(&cx.span_loc(sp)),
                sp.from_expansion(),
                parent_impl.unwrap_or("null".into())
            );
        }
        out.push_str("],\n\"impls\":[");
        let mut first = true;
        for tr in tcx.all_traits_including_private() {
            let tname = cx.path(tr);
            for imp in tcx.all_impls(tr) {
                if !imp.is_local() {
                    continue;
                }
                let st = tcx.type_of(imp).instantiate_identity().skip_norm_wip();
                let trf = tcx
                    .impl_opt_trait_ref(imp)
                    .map(|t| format!("{:?}", t.instantiate_identity().skip_norm_wip()))
                    .unwrap_or_default();
                // the trait's own type arguments (without Self), e.g. [u64] for `impl Sub<u64> for Page<S>`
                let mut trargs = Vec::new();
                if let Some(t) = tcx.impl_opt_trait_ref(imp) {
                    let tr = t.instantiate_identity().skip_norm_wip();
                    for (i, g) in tr.args.iter().enumerate() {
                        if i == 0 {
                            continue;
                        }
                        if let Some(ty) = g.as_type() {
                            trargs.push(cx.ty(ty));
                        } else if let Some(c) = g.as_const() {
                            trargs.push(format!("{{\"k\":\"constarg\",\"s\":{}}}", esc(&format!("{:?}", c))));
                        }
                    }
                }
                let mut items = Vec::new();
                for it in tcx.associated_items(imp).in_definition_order() {
                    items.push(format!(
                        "{{\"name\":{},\"path\":{},\"kind\":{}}}",
                        esc(it.name().as_str()),
                        esc(&cx.path(it.def_id)),
                        esc(&format!("{:?}", it.kind).chars().take(12).collect::<String>())
                    ));
                }
                if !first {
                    out.push(',');
                }
                first = false;
                let _ = write!(
                    out,
                    "\n{{\"trait\":{},\"targs\":[{}],\"self\":{},\"selfs\":{},\"traitref\":{},\"derived\":{},\"loc\":{},\"items\":[{}]}}",
                    esc(&tname),
                    trargs.join(","),
                    cx.ty(st),
                    esc(&anon_lifetimes(&format!("{}", st))),
                    esc(&trf),
                    tcx.is_builtin_derived(imp),
                    esc(&cx.span_loc(tcx.def_span(imp))),
                    items.join(",")
                );
            }
        }
        // every struct defined in the crate, generic or not: its fields in definition order (MIR field indices follow this order)
        out.push_str("],\n\"adts\":[");
        let mut first = true;
        for ldid in tcx.hir_crate_items(()).definitions() {
            let did = ldid.to_def_id();
            if !matches!(tcx.def_kind(did), DefKind::Struct) {
                continue;
            }
            let def = tcx.adt_def(did);
            let mut fields = Vec::new();
            for f in def.non_enum_variant().fields.iter() {
                let fty = tcx.type_of(f.did).instantiate_identity().skip_norm_wip();
                let marker = match fty.kind() {
                    TyKind::Adt(d, _) => d.is_phantom_data(),
                    TyKind::Tuple(l) => l.is_empty(),
                    _ => false,
                };
                fields.push(format!(
                    "{{\"name\":{},\"ty\":{},\"vis\":{},\"marker\":{}}}",
                    esc(f.name.as_str()),
                    cx.ty(fty),
                    esc(&format!("{:?}", f.vis)),
                    marker
                ));
            }
            if !first {
                out.push(',');
            }
            first = false;
            let _ = write!(out, "\n{{\"name\":{},\"repr\":{},\"fields\":[{}]}}", esc(&cx.path(did)), esc(&format!("{:?}", def.repr())), fields.join(","));
        }
        // modules with their visibility, and every re-export of a local item (`pub use`): lets the analysis name items by the
        // path a user of the crate writes, independent of the private module an item is defined in
        out.push_str("],\n\"modules\":[");
        let mut first = true;
        let mut mods: Vec<rustc_span::def_id::LocalDefId> = vec![rustc_span::def_id::CRATE_DEF_ID];
        for ldid in tcx.hir_crate_items(()).definitions() {
            if matches!(tcx.def_kind(ldid.to_def_id()), DefKind::Mod) {
                mods.push(ldid);
            }
        }
        for m in mods.iter() {
            if !first {
                out.push(',');
            }
            first = false;
            let mp = if *m == rustc_span::def_id::CRATE_DEF_ID { String::new() } else { cx.path(m.to_def_id()) };
            let _ = write!(out, "\n{{\"path\":{},\"public\":{}}}", esc(&mp), tcx.visibility(m.to_def_id()).is_public());
        }
        out.push_str("],\n\"reexports\":[");
        let mut first = true;
        for m in mods.iter() {
            let mp = if *m == rustc_span::def_id::CRATE_DEF_ID { String::new() } else { cx.path(m.to_def_id()) };
            for ch in tcx.module_children_local(*m).iter() {
                if ch.reexport_chain.is_empty() {
                    continue;
                }
                if let rustc_hir::def::Res::Def(kind, did) = ch.res {
                    if !did.is_local() {
                        continue;
                    }
                    if !matches!(
                        kind,
                        DefKind::Struct | DefKind::Enum | DefKind::Union | DefKind::Trait | DefKind::Fn | DefKind::Const { .. } | DefKind::Static { .. } | DefKind::TyAlias
                    ) {
                        continue;
                    }
                    if !first {
                        out.push(',');
                    }
                    first = false;
                    let alias = if mp.is_empty() { ch.ident.name.to_string() } else { format!("{}::{}", mp, ch.ident.name) };
                    let _ = write!(
                        out,
                        "\n{{\"alias\":{},\"target\":{},\"public\":{},\"kind\":{}}}",
                        esc(&alias),
                        esc(&cx.path(did)),
                        ch.vis.is_public(),
                        esc(&format!("{:?}", kind).chars().take(10).collect::<String>())
                    );
                }
            }
        }
        out.push_str("]}\n");
        let path = format!("{}/{}.{}.json", outdir, crate_name, std::process::id());
        std::fs::write(&path, out).expect("write facts");
        eprintln!("x86facts: wrote {} ({} fns)", path, nfn);
        Compilation::Continue
    }
}

fn main() {
    let mut args: Vec<String> = std::env::args().collect();
    args.remove(1); // RUSTC_WORKSPACE_WRAPPER passes the real rustc as argv[1]
    rustc_driver::run_compiler(&args, &mut Cb);
}
