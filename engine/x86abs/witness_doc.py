"""Compile-fail witnesses: the doc tests of /verif/witness (module `cf`), compiled - never run - against the repo under
analysis by `cargo +nightly test --doc` (error codes are only honoured on nightly). Thorough tier.

Each witness `cf::C<nn><Name>` is a pair: a `compile_fail,E....` block that must be rejected with exactly that error
code and a `no_run` twin, differing only by the offending expression, that must compile (so a witness cannot pass
because of a typo or a moved path). One obligation per block.
"""
import fcntl
import json
import os
import re
import shutil
import subprocess
import tempfile

from .facts import CACHE, REPO, VERIF, _hash_tree, repo_inputs

# property -> number of witness pairs expected (floor; fail closed when the witness file loses one)
EXPECTED = {'C03': 3, 'C04': 2, 'C06': 2, 'C08': 1, 'C09': 1, 'C11': 1, 'C12': 4, 'C14': 2, 'C18': 3, 'C19': 1, 'C20': 1}

LINE = re.compile(r'^test src/lib\.rs - cf::(C\d\d)(\w+) \(line (\d+)\) - (compile fail|compile) \.\.\. (\w+)')


def results():
    os.makedirs(CACHE, exist_ok=True)
    wdir = os.path.join(VERIF, 'witness')
    h = _hash_tree([p for p in repo_inputs() if os.path.exists(p)] + [os.path.join(wdir, 'src'), os.path.join(wdir, 'Cargo.toml')])
    path = os.path.join(CACHE, 'doctests-%s.json' % h)
    with open(os.path.join(CACHE, 'lock-doctests'), 'w') as lk:
        fcntl.flock(lk, fcntl.LOCK_EX)
        if not os.path.exists(path):
            tmp = tempfile.mkdtemp(prefix='x86facts-doctest-')
            try:
                shutil.copytree(os.path.join(wdir, 'src'), os.path.join(tmp, 'src'))
                toml = open(os.path.join(wdir, 'Cargo.toml')).read()
                open(os.path.join(tmp, 'Cargo.toml'), 'w').write(toml.replace('path = "/repo"', 'path = "%s"' % REPO))
                shutil.copy(os.path.join(REPO, 'Cargo.lock'), os.path.join(tmp, 'Cargo.lock'))
                env = dict(os.environ)
                env['CARGO_TARGET_DIR'] = os.path.join(tmp, 'target')
                env['CARGO_NET_OFFLINE'] = 'true'
                env.pop('RUSTC_WRAPPER', None)
                env.pop('RUSTC_WORKSPACE_WRAPPER', None)
                p = subprocess.run(['cargo', '+nightly', 'test', '--doc', '--offline'], cwd=tmp, env=env, stdout=subprocess.PIPE, stderr=subprocess.STDOUT, text=True)
                out = p.stdout
            finally:
                shutil.rmtree(tmp, ignore_errors=True)
            res = []
            for l in out.split('\n'):
                m = LINE.match(l.strip())
                if m:
                    res.append({'pid': m.group(1), 'name': m.group(2), 'line': int(m.group(3)), 'kind': m.group(4), 'ok': m.group(5) == 'ok'})
            # keep the compiler's message of each failing block
            fails = {}
            for m in re.finditer(r'---- src/lib\.rs - cf::(C\d\d\w+) \(line (\d+)\) stdout ----\n(.*?)(?=\n---- |\nfailures:)', out, re.S):
                fails['%s:%s' % (m.group(1), m.group(2))] = m.group(3).strip()[:600]
            d = {'tests': res, 'fails': fails, 'built': bool(res), 'tail': out[-1500:] if not res else ''}
            with open(path + '.tmp', 'w') as fh:
                json.dump(d, fh)
            os.replace(path + '.tmp', path)
    return json.load(open(path))


def obligations(chk, pid):
    """adds the compile-fail obligations of property `pid` (no-op for properties without witnesses)"""
    if pid not in EXPECTED:
        return
    d = results()
    if not d['built']:
        chk.unproven('witness', 'doc tests', 'the witness crate\'s doc tests did not build: %s' % d['tail'][-400:])
        return
    mine = [t for t in d['tests'] if t['pid'] == pid]
    names = sorted({t['name'] for t in mine})
    for n in names:
        for kind, label in (('compile fail', 'is rejected by the compiler with the pinned error code'), ('compile', 'twin compiles')):
            ts = [t for t in mine if t['name'] == n and t['kind'] == kind]
            ok = len(ts) == 1 and ts[0]['ok']
            det = ''
            if not ok:
                det = 'blocks found: %d' % len(ts)
                for t in ts:
                    det += '\n' + d['fails'].get('%s%s:%d' % (pid, n, t['line']), '')
            chk.ob('witness', '%s %s' % (n, label), ok, det, 'witness/src/lib.rs cf::%s%s' % (pid, n), nontrivial=(kind == 'compile fail'))
    chk.count('compile-fail witnesses', len(names))
    chk.floor('compile-fail witness pairs', len(names), EXPECTED[pid])
    chk.trusted.append('rustc as the decider of the compile-fail witnesses (cargo +nightly test --doc; the twins are compiled with no_run, nothing is executed)')
