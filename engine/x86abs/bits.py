"""Abstract integer domain: per-bit provenance + slice-affine form.

A bit is one of
    0, 1                      constants
    TOP                       unknown
    ('v', sym, i, neg)        bit i of symbolic input `sym` (negated if neg)
    ('p', kind, payload, neg) a predicate atom (eq0 / eq / ult / ...), only in 1-bit values
    ('and', frozenset(atoms)) conjunction of literal/predicate atoms
    ('or',  frozenset(atoms)) disjunction of literal/predicate atoms

A BV is an immutable w-bit vector of such bits with an optional affine form
    value = sum(coeff * slice(sym, lo, hi)) + const   (mod 2^w)
which is kept when bit-level precision is lost to carries.
"""

TOP = 'T'


def lit(sym, i, neg=False):
    return ('v', sym, i, neg)


def pred(kind, payload, neg=False):
    return ('p', kind, payload, neg)


def is_atom(b):
    return isinstance(b, tuple) and b[0] in ('v', 'p')


def atom_neg(a):
    return (a[0], a[1], a[2], not a[3])


def atom_key(a):
    """atom without polarity"""
    return (a[0], a[1], a[2])


def b_not(b):
    if b == 0:
        return 1
    if b == 1:
        return 0
    if b == TOP:
        return TOP
    if is_atom(b):
        return atom_neg(b)
    if b[0] == 'and':
        return ('or', frozenset(atom_neg(x) for x in b[1]))
    if b[0] == 'or':
        return ('and', frozenset(atom_neg(x) for x in b[1]))
    if b[0] == 'xor':
        return ('xor', b[1], not b[2])
    return TOP


def _mk(kind, atoms):
    """normalise a set of atoms under and/or"""
    keys = {}
    for a in atoms:
        k = atom_key(a)
        if k in keys and keys[k] != a[3]:
            return 0 if kind == 'and' else 1  # x & !x = 0, x | !x = 1
        keys[k] = a[3]
    if len(atoms) == 1:
        return next(iter(atoms))
    return (kind, frozenset(atoms))


def b_and(a, b):
    if a == 0 or b == 0:
        return 0
    if a == 1:
        return b
    if b == 1:
        return a
    if a == b:
        return a
    if a == TOP or b == TOP:
        return TOP
    sa = a[1] if a[0] == 'and' else (frozenset([a]) if is_atom(a) else None)
    sb = b[1] if b[0] == 'and' else (frozenset([b]) if is_atom(b) else None)
    if sa is None or sb is None:
        # absorption: x & (x | y) = x
        if is_atom(a) and b[0] == 'or' and a in b[1]:
            return a
        if is_atom(b) and a[0] == 'or' and b in a[1]:
            return b
        return TOP
    return _mk('and', sa | sb)


def b_or(a, b):
    if a == 1 or b == 1:
        return 1
    if a == 0:
        return b
    if b == 0:
        return a
    if a == b:
        return a
    if a == TOP or b == TOP:
        return TOP
    sa = a[1] if a[0] == 'or' else (frozenset([a]) if is_atom(a) else None)
    sb = b[1] if b[0] == 'or' else (frozenset([b]) if is_atom(b) else None)
    if sa is None or sb is None:
        if is_atom(a) and b[0] == 'and' and a in b[1]:
            return a
        if is_atom(b) and a[0] == 'and' and b in a[1]:
            return b
        return TOP
    return _mk('or', sa | sb)


def b_xor(a, b):
    if a == 0:
        return b
    if b == 0:
        return a
    if a == 1:
        return b_not(b)
    if b == 1:
        return b_not(a)
    if a == TOP or b == TOP:
        return TOP
    if a == b:
        return 0
    if is_atom(a) and is_atom(b) and atom_key(a) == atom_key(b):
        return 1
    xa, xb = _as_xor(a), _as_xor(b)
    if xa is None or xb is None:
        return TOP
    atoms = xa[0] ^ xb[0]
    neg = xa[1] != xb[1]
    if not atoms:
        return 1 if neg else 0
    if len(atoms) == 1:
        x = next(iter(atoms))
        return atom_neg(x) if neg else x
    return ('xor', atoms, neg)


def _as_xor(b):
    """(set of positive atoms, parity) for atoms and xor-forms"""
    if is_atom(b):
        return frozenset([(b[0], b[1], b[2], False)]), b[3]
    if isinstance(b, tuple) and b[0] == 'xor':
        return b[1], b[2]
    return None


def subst_bit(b, env, penv=None):
    """env: {(sym, i): 0/1}; penv: {pred atom key: 0/1}"""
    if b in (0, 1) or b == TOP:
        return b
    t = b[0]
    if t == 'v':
        c = env.get((b[1], b[2]))
        if c is None:
            return b
        return (1 - c) if b[3] else c
    if t == 'p':
        nb = subst_pred(b, env, penv)
        return nb
    if t in ('and', 'or'):
        r = 1 if t == 'and' else 0
        f = b_and if t == 'and' else b_or
        for x in b[1]:
            r = f(r, subst_bit(x, env, penv))
        if penv and r not in (0, 1):
            c = penv.get(r)
            if c is not None:
                return c
        return r
    if t == 'xor':
        r = 1 if b[2] else 0
        for x in b[1]:
            r = b_xor(r, subst_bit(x, env, penv))
        return r
    return b


def subst_pred(b, env, penv):
    _, kind, payload, neg = b
    if penv:
        c = penv.get(atom_key(b))
        if c is not None:
            return (1 - c) if neg else c
    if kind == 'eq0':
        bits = tuple(subst_bit(x, env, penv) for x in payload)
        r = eq0_bit(bits)
        return b_not(r) if neg else r
    if kind == 'eq':
        a = tuple(subst_bit(x, env, penv) for x in payload[0])
        c = tuple(subst_bit(x, env, penv) for x in payload[1])
        r = eq_bit(a, c)
        return b_not(r) if neg else r
    if kind in ('ult', 'ule'):
        a = tuple(subst_bit(x, env, penv) for x in payload[0])
        c = tuple(subst_bit(x, env, penv) for x in payload[1])
        r = cmp_bit(kind, a, c)
        return b_not(r) if neg else r
    return b


def eq0_bit(bits):
    """abstract truth of (value == 0)"""
    if any(x == 1 for x in bits):
        return 0
    nz = [x for x in bits if x != 0]
    if not nz:
        return 1
    if len(nz) == 1 and nz[0] != TOP:
        return b_not(nz[0])
    # (x ^ y) == 0 is x == y: bits that are the exclusive-or of two atoms compare those atoms
    if any(isinstance(x, tuple) and x[0] == 'xor' for x in nz) and all(is_atom(x) or (isinstance(x, tuple) and x[0] == 'xor' and len(x[1]) == 2) for x in nz):
        la, lb = [], []
        for x in nz:
            if is_atom(x):
                la.append(x)
                lb.append(0)
            else:
                u, v = sorted(x[1], key=repr)
                la.append(u)
                lb.append(atom_neg(v) if x[2] else v)
        return eq_bit(tuple(la), tuple(lb))
    # all-literal: conjunction of negations
    if all(is_atom(x) for x in nz) and len(nz) <= 4:
        return _mk('and', frozenset(atom_neg(x) for x in nz))
    return pred('eq0', tuple(bits))


def eq_bit(a, b):
    """abstract truth of (a == b) for two bit tuples of equal width"""
    diff = []
    for x, y in zip(a, b):
        if x in (0, 1) and y in (0, 1):
            if x != y:
                return 0
            continue
        if x == y and x != TOP:
            continue
        diff.append((x, y))
    if not diff:
        return 1
    if all(y == 0 for _, y in diff):
        return eq0_bit(tuple(x for x, _ in diff))
    if all(x == 0 for x, _ in diff):
        return eq0_bit(tuple(y for _, y in diff))
    if len(diff) == 1:
        x, y = diff[0]
        if y in (0, 1) and x != TOP:
            return x if y == 1 else b_not(x)
        if x in (0, 1) and y != TOP:
            return y if x == 1 else b_not(y)
    # x == const over literals: conjunction
    if all((y in (0, 1) and is_atom(x)) or (x in (0, 1) and is_atom(y)) for x, y in diff) and len(diff) <= 16:
        atoms = []
        for x, y in diff:
            if x in (0, 1):
                x, y = y, x
            atoms.append(x if y == 1 else atom_neg(x))
        return _mk('and', frozenset(atoms))
    return pred('eq', (tuple(a), tuple(b)))


def bits_min(bits):
    return sum((1 << i) for i, b in enumerate(bits) if b == 1)


def bits_max(bits):
    return sum((1 << i) for i, b in enumerate(bits) if b != 0)


def cmp_bit(kind, a, b):
    """unsigned a < b ('ult') or a <= b ('ule') from bit bounds only"""
    lo_a, hi_a, lo_b, hi_b = bits_min(a), bits_max(a), bits_min(b), bits_max(b)
    if kind == 'ult':
        if hi_a < lo_b:
            return 1
        if lo_a >= hi_b:
            return 0
    else:
        if hi_a <= lo_b:
            return 1
        if lo_a > hi_b:
            return 0
    if tuple(a) == tuple(b) and TOP not in a:
        return 1 if kind == 'ule' else 0
    return pred(kind, (tuple(a), tuple(b)))


# ------------------------------------------------------------------ affine forms

class Aff:
    """sum(coeff * atom) + const ; atom = (sym, lo, hi) the unsigned value of bits lo..hi of sym"""
    __slots__ = ('terms', 'const')

    def __init__(self, terms=None, const=0):
        self.terms = {k: v for k, v in (terms or {}).items() if v != 0}
        self.const = const

    def add(self, o, sign=1):
        t = dict(self.terms)
        for k, v in o.terms.items():
            t[k] = t.get(k, 0) + sign * v
        return Aff(t, self.const + sign * o.const)

    def scale(self, c):
        return Aff({k: v * c for k, v in self.terms.items()}, self.const * c)

    def norm(self, w):
        m = 1 << w
        return Aff({k: v % m for k, v in self.terms.items()}, self.const % m)

    def key(self, w=None):
        a = self.norm(w) if w else self
        return (tuple(sorted(a.terms.items())), a.const)

    def is_const(self):
        return not self.terms

    def __eq__(self, o):
        return isinstance(o, Aff) and self.terms == o.terms and self.const == o.const

    def __hash__(self):
        return hash(self.key())

    def low_zeros(self, w):
        z = w
        for v in list(self.terms.values()) + [self.const]:
            v %= (1 << w)
            if v:
                z = min(z, (v & -v).bit_length() - 1)
        return z

    def fmt(self, w=64):
        parts = []
        m = 1 << w
        for (s, lo, hi), c in sorted(self.terms.items()):
            c %= m
            neg = c > m // 2
            cc = m - c if neg else c
            nm = '%s[%d..%d]' % (s, lo, hi)
            parts.append(('-' if neg else '+') + (('%#x*' % cc) if cc != 1 else '') + nm)
        c = self.const % m
        if c or not parts:
            if c > m // 2 and parts:
                parts.append('-%#x' % (m - c))
            else:
                parts.append('+%#x' % c)
        s = ''.join(parts)
        return s[1:] if s.startswith('+') else s

    __repr__ = fmt


def aff_from_bits(bits):
    """affine form of a bit vector made of constants and plain (non-negated) literals; else None"""
    terms = {}
    const = 0
    i = 0
    n = len(bits)
    while i < n:
        b = bits[i]
        if b == 0:
            i += 1
            continue
        if b == 1:
            const += 1 << i
            i += 1
            continue
        if not (isinstance(b, tuple) and b[0] == 'v'):
            return None
        if b[3]:
            # !x = 1 - x
            terms[(b[1], b[2], b[2] + 1)] = terms.get((b[1], b[2], b[2] + 1), 0) - (1 << i)
            const += 1 << i
            i += 1
            continue
        j = i
        while j < n and isinstance(bits[j], tuple) and bits[j][0] == 'v' and not bits[j][3] and bits[j][1] == b[1] and bits[j][2] == b[2] + (j - i):
            j += 1
        k = (b[1], b[2], b[2] + (j - i))
        terms[k] = terms.get(k, 0) + (1 << i)
        i = j
    return Aff(_merge_slices(terms), const)


def _merge_slices(terms):
    """merge adjacent slices of the same symbol with matching coefficients: c*x[a..b] + (c<<(b-a))*x[b..d] = c*x[a..d]"""
    changed = True
    terms = dict(terms)
    while changed:
        changed = False
        for (s, lo, hi), c in list(terms.items()):
            for (s2, lo2, hi2), c2 in list(terms.items()):
                if s2 == s and lo2 == hi and c2 == c << (hi - lo) and (s, lo, hi) in terms and (s2, lo2, hi2) in terms:
                    del terms[(s, lo, hi)]
                    del terms[(s2, lo2, hi2)]
                    terms[(s, lo, hi2)] = terms.get((s, lo, hi2), 0) + c
                    changed = True
                    break
            if changed:
                break
    return terms


def bits_from_aff(aff, w):
    """bit vector of an affine form when its atoms land on disjoint bit ranges; otherwise low zero bits + TOP"""
    a = aff.norm(w)
    out = [0] * w
    used = [False] * w
    ok = True
    for (s, lo, hi), c in a.terms.items():
        if c & (c - 1):
            ok = False
            break
        p = c.bit_length() - 1
        for j in range(hi - lo):
            if p + j >= w:
                break
            if used[p + j]:
                ok = False
                break
            used[p + j] = True
            out[p + j] = lit(s, lo + j)
        if not ok:
            break
    if ok:
        for i in range(w):
            if (a.const >> i) & 1:
                if used[i]:
                    ok = False
                    break
                out[i] = 1
    if ok:
        return tuple(out)
    z = a.low_zeros(w)
    return tuple([0] * z + [TOP] * (w - z))


# ------------------------------------------------------------------ bit vectors

class BV:
    __slots__ = ('w', 'bits', 'signed', 'aff', 'nw')

    def __init__(self, w, bits, signed=False, aff=None, nw=None):
        bits = tuple(bits)
        assert len(bits) == w, (w, len(bits))
        self.w = w
        self.bits = bits
        self.signed = signed
        self.aff = aff
        self.nw = nw  # key of the overflow predicate under whose negation `aff` holds without wrap-around

    @staticmethod
    def const(w, v, signed=False):
        v &= (1 << w) - 1
        return BV(w, [(v >> i) & 1 for i in range(w)], signed)

    @staticmethod
    def sym(w, name, signed=False, lo=0):
        return BV(w, [lit(name, lo + i) for i in range(w)], signed)

    @staticmethod
    def top(w, signed=False):
        return BV(w, [TOP] * w, signed)

    def is_const(self):
        return all(b in (0, 1) for b in self.bits)

    def value(self):
        return sum((b << i) for i, b in enumerate(self.bits))

    def svalue(self):
        v = self.value()
        if self.signed and v >> (self.w - 1):
            v -= 1 << self.w
        return v

    def has_top(self):
        return any(b == TOP for b in self.bits)

    def get_aff(self):
        if self.aff is not None:
            return self.aff
        return aff_from_bits(self.bits)

    def low_zeros(self):
        k = 0
        for b in self.bits:
            if b == 0:
                k += 1
            else:
                break
        return k

    def key(self):
        """canonical hashable key of the abstract value (used for array indices and equality)"""
        if not self.has_top():
            return ('b', self.bits)
        if self.aff is not None:
            return ('a', self.w, self.aff.key(self.w))
        return ('b', self.bits)

    def same(self, o):
        if not isinstance(o, BV) or o.w != self.w:
            return False
        if not self.has_top() and not o.has_top():
            return self.bits == o.bits
        a, b = self.get_aff(), o.get_aff()
        return a is not None and b is not None and a.norm(self.w) == b.norm(self.w)

    def with_signed(self, s):
        return BV(self.w, self.bits, s, self.aff)

    def __repr__(self):
        if self.is_const():
            return '%#x:%s%d' % (self.value(), 'i' if self.signed else 'u', self.w)
        s = 'BV%d[%s]' % (self.w, fmt_bits(self.bits))
        if self.has_top() and self.aff is not None:
            s += '{' + self.aff.fmt(self.w) + '}'
        return s


def fmt_bit(b):
    if b in (0, 1):
        return str(b)
    if b == TOP:
        return '?'
    if b[0] == 'v':
        return ('!' if b[3] else '') + '%s.%d' % (b[1], b[2])
    if b[0] == 'p':
        pl = b[2]
        if b[1] in ('eq0', 'pow2'):
            s = ('zero(' if b[1] == 'eq0' else 'pow2(') + fmt_bits(pl) + ')'
        elif b[1] in ('eq', 'ult', 'ule'):
            s = '%s(%s ; %s)' % (b[1], fmt_bits(pl[0]), fmt_bits(pl[1]))
        else:
            s = '%s(%s)' % (b[1], pl)
        return ('!' if b[3] else '') + s
    if b[0] in ('or', 'and'):
        return b[0] + '(' + ','.join(sorted(fmt_bit(x) for x in b[1])) + ')'
    if b[0] == 'xor':
        return ('!' if b[2] else '') + 'xor(' + ','.join(sorted(fmt_bit(x) for x in b[1])) + ')'
    return str(b)


def _plain(b):
    return isinstance(b, tuple) and b[0] == 'v' and not b[3]


def fmt_bits(bits):
    out = []
    i = 0
    n = len(bits)
    while i < n:
        b = bits[i]
        if b in (0, 1) or b == TOP:
            j = i
            while j < n and bits[j] == b:
                j += 1
            out.append('%d..%d=%s' % (i, j, '?' if b == TOP else b))
            i = j
            continue
        if _plain(b):
            j = i
            while j < n and _plain(bits[j]) and bits[j][1] == b[1] and bits[j][2] == b[2] + (j - i):
                j += 1
            if j - i > 1:
                out.append('%d..%d=%s[%d..%d]' % (i, j, b[1], b[2], b[2] + j - i))
                i = j
                continue
            j = i
            while j < n and bits[j] == b:
                j += 1
            if j - i > 1:
                out.append('%d..%d=rep(%s.%d)' % (i, j, b[1], b[2]))
                i = j
                continue
        out.append('%d=%s' % (i, fmt_bit(b)))
        i += 1
    return ' '.join(out)


def bv_cast(a, w, signed_to):
    if w <= a.w:
        aff = a.aff
        return BV(w, a.bits[:w], signed_to, aff)
    fill = a.bits[a.w - 1] if a.signed else 0
    # an affine form is taken modulo 2^w, so it does not survive widening (the interpreter restores it
    # when an interval proves that no wrap occurred)
    return BV(w, a.bits + (fill,) * (w - a.w), signed_to, None)


def bv_not(a):
    return BV(a.w, [b_not(x) for x in a.bits], a.signed)


def _ripple_add(abits, bbits, cin, w):
    """bit-level addition while the carry stays decidable; returns bits with TOP where precision is lost"""
    out = []
    c = cin
    for i in range(w):
        x, y = abits[i], bbits[i]
        if c == TOP:
            out.append(TOP)
            continue
        s = b_xor(b_xor(x, y), c)
        out.append(s)
        # carry = maj(x, y, c)
        known = [v for v in (x, y, c) if v in (0, 1)]
        ones = sum(1 for v in known if v == 1)
        zeros = sum(1 for v in known if v == 0)
        if ones >= 2:
            c = 1
        elif zeros >= 2:
            c = 0
        else:
            c = TOP
    return out


def bits_subset(b, a):
    """is every bit of b either 0, the very bit of a at that position, or a conjunction that includes it (b = a & something)?
    Then b <= a bit for bit and a - b cannot borrow."""
    for x, y in zip(a, b):
        if y == 0 or y == x:
            continue
        if isinstance(y, tuple) and y[0] == 'and' and x in y[1]:
            continue
        return False
    return True


def bv_binop(op, a, b):
    """bit-level transfer; affine form maintained for Add/Sub/Mul-by-constant. No interval reasoning here."""
    w = a.w
    sg = a.signed
    if op in ('BitAnd', 'BitOr', 'BitXor'):
        f = {'BitAnd': b_and, 'BitOr': b_or, 'BitXor': b_xor}[op]
        return BV(w, [f(x, y) for x, y in zip(a.bits, b.bits)], sg)
    if op in ('Shl', 'ShlUnchecked', 'Shr', 'ShrUnchecked'):
        if not b.is_const():
            return BV.top(w, sg)
        n = b.value()
        if n >= w:
            n %= w
        if op.startswith('Shl'):
            r = BV(w, (0,) * n + a.bits[:w - n], sg)
            if r.has_top() and a.aff is not None:
                r.aff = a.aff.scale(1 << n)
            return r
        fill = a.bits[w - 1] if sg else 0
        return BV(w, a.bits[n:] + (fill,) * n, sg)
    if a.is_const() and b.is_const():
        x, y = a.value(), b.value()
        m = (1 << w) - 1
        if op in ('Add', 'AddUnchecked'):
            return BV.const(w, (x + y) & m, sg)
        if op in ('Sub', 'SubUnchecked'):
            return BV.const(w, (x - y) & m, sg)
        if op in ('Mul', 'MulUnchecked'):
            return BV.const(w, (x * y) & m, sg)
        if op == 'Div' and y and not sg:
            return BV.const(w, x // y, sg)
        if op == 'Rem' and y and not sg:
            return BV.const(w, x % y, sg)
    if op in ('Rem', 'Div') and b.is_const() and not sg:
        y = b.value()
        if y and y & (y - 1) == 0:
            k = y.bit_length() - 1
            if op == 'Rem':
                return BV(w, a.bits[:k] + (0,) * (w - k), sg)
            return BV(w, a.bits[k:] + (0,) * k, sg)
    if op in ('Mul', 'MulUnchecked') and (b.is_const() or a.is_const()):
        c, v = (b, a) if b.is_const() else (a, b)
        y = c.value()
        if y == 0:
            return BV.const(w, 0, sg)
        if y & (y - 1) == 0:
            k = y.bit_length() - 1
            r = BV(w, (0,) * k + v.bits[:w - k], sg)
            if r.has_top():
                va = v.get_aff()
                if va is not None:
                    r.aff = va.scale(y)
            return r
        va = v.get_aff()
        if va is not None:
            aff = va.scale(y)
            return BV(w, bits_from_aff(aff, w), sg, aff)
    if op in ('Add', 'AddUnchecked', 'Sub', 'SubUnchecked'):
        sub = op.startswith('Sub')
        if not sub and all(x == 0 or y == 0 for x, y in zip(a.bits, b.bits)):
            return BV(w, [b_or(x, y) for x, y in zip(a.bits, b.bits)], sg)
        if sub and TOP not in a.bits and TOP not in b.bits:
            # a - b where every bit of b is 0 or the very bit of a at that position (b = a & mask): no borrow can occur and the
            # result is a with those bits cleared - the `x - (x & m)` spelling of `x & !m`
            if all(y == 0 or y == x for x, y in zip(a.bits, b.bits)):
                return BV(w, [x if y == 0 else 0 for x, y in zip(a.bits, b.bits)], sg)
        if sub:
            bits = _ripple_add(a.bits, tuple(b_not(x) for x in b.bits), 1, w)
        else:
            bits = _ripple_add(a.bits, b.bits, 0, w)
        r = BV(w, bits, sg)
        if r.has_top():
            aa, ab = a.get_aff(), b.get_aff()
            if aa is not None and ab is not None:
                aff = aa.add(ab, -1 if sub else 1)
                nb = bits_from_aff(aff, w)
                # combine: prefer known bits from either derivation
                comb = tuple(y if x == TOP else x for x, y in zip(bits, nb))
                r = BV(w, comb, sg, aff if TOP in comb else None)
        return r
    return BV.top(w, sg)


def bv_cmp(op, a, b):
    """comparison -> 1-bit BV (bit-level only; the interpreter refines with intervals)"""
    if a.w != b.w:
        return BV.top(1)
    if a.is_const() and b.is_const():
        x, y = (a.svalue(), b.svalue()) if a.signed else (a.value(), b.value())
        r = {'Eq': x == y, 'Ne': x != y, 'Lt': x < y, 'Le': x <= y, 'Gt': x > y, 'Ge': x >= y}[op]
        return BV.const(1, int(r))
    if op in ('Eq', 'Ne'):
        if a.has_top() or b.has_top():
            if a.same(b):
                return BV.const(1, int(op == 'Eq'))
            for x, y in zip(a.bits, b.bits):
                if x in (0, 1) and y in (0, 1) and x != y:
                    return BV.const(1, int(op == 'Ne'))
            return BV.top(1)
        r = eq_bit(a.bits, b.bits)
        return BV(1, [r if op == 'Eq' else b_not(r)])
    if a.signed:
        return BV.top(1)
    if op == 'Lt':
        return BV(1, [cmp_bit('ult', a.bits, b.bits)])
    if op == 'Le':
        return BV(1, [cmp_bit('ule', a.bits, b.bits)])
    if op == 'Gt':
        return BV(1, [cmp_bit('ult', b.bits, a.bits)])
    if op == 'Ge':
        return BV(1, [cmp_bit('ule', b.bits, a.bits)])
    return BV.top(1)
