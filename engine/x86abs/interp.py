"""Abstract interpreter over the JSON MIR written by x86facts.

Forward interpretation with trace partitioning: every SwitchInt / Assert whose condition is not decided splits the
state; paths are kept apart to the function exit. No solver is involved: a branch is pruned only when the abstract
value of its condition excludes it.
"""
import itertools
import re
import sys

from .bits import (BV, TOP, Aff, atom_key, bits_subset, b_and, b_not, b_or, bits_max, bits_min, bv_binop, bv_cast, bv_cmp, bv_not,
                   fmt_bit, fmt_bits, is_atom, lit, pred, subst_bit, bits_from_aff)
from .values import (UNIT, Array, Closure, Enum, FnItem, Opaque, Ptr, Ref, Struct, fmt_loc, fmt_path, map_value)

sys.setrecursionlimit(20000)


class Unsupported(Exception):
    pass


class Outcome:
    __slots__ = ('st', 'kind', 'val', 'frame')

    def __init__(self, st, kind, val=None):
        self.st = st
        self.kind = kind  # 'ret' | 'panic' | 'diverge' | 'loop'
        self.val = val
        self.frame = None

    def __repr__(self):
        return 'Outcome(%s, %r)' % (self.kind, self.val)


class State:
    def __init__(self):
        self.mem = {}
        self.events = []
        self.facts = {}   # predicate / compound bit -> 0/1
        self.rng = {}     # symbol -> [(lo, hi), ...] unsigned
        self.rel = []     # (strict, a_bv, b_bv): a < b or a <= b
        self.notes = []   # branch facts in readable form
        self.env = {}     # accumulated literal substitutions (sym, i) -> bit
        self.defs = {}    # symbol introduced for an arithmetic result -> (Aff, width, exact-as-integers?)
        self.dead = False

    def clone(self):
        s = State()
        s.mem = dict(self.mem)
        s.events = list(self.events)
        s.facts = dict(self.facts)
        s.rng = dict(self.rng)
        s.rel = list(self.rel)
        s.notes = list(self.notes)
        s.env = dict(self.env)
        s.defs = dict(self.defs)
        s.dead = self.dead
        return s


def ty_width(t):
    k = t.get('k')
    if k in ('uint', 'int'):
        return t['bits']
    if k == 'bool':
        return 1
    if k == 'char':
        return 32
    return None


def ty_signed(t):
    return t.get('k') == 'int'


def short_ty(t):
    k = t.get('k')
    if k == 'adt':
        return t['name'].split('::')[-1] + (('<' + ','.join(short_ty(a) for a in t['args']) + '>') if t.get('args') else '')
    if k in ('uint', 'int'):
        return ('u' if k == 'uint' else 'i') + ('size' if t.get('size') else str(t['bits']))
    if k == 'param':
        return t['name']
    if k in ('ref', 'rawptr'):
        return '&' + short_ty(t['to'])
    return k or '?'


M64 = (1 << 64) - 1

PANIC_PREFIXES = ('core::panicking::', 'std::panicking::', 'core::option::unwrap_failed', 'core::option::expect_failed',
                  'core::result::unwrap_failed', 'std::rt::begin_panic', 'core::slice::index::slice_',
                  'core::str::slice_error_fail')


class _UnrollAbort(Exception):
    pass


class Interp:
    def __init__(self, facts, inline_bitflags=True):
        self.facts = facts
        Interp.CURRENT = self
        self._unrolling = {}
        self.fn = {}
        for f in facts['fns']:
            self.fn[f['name']] = f
        self.consts = {c['name']: c for c in facts['consts']}
        self.layouts = {}
        for l in facts['layouts']:
            self.layouts[l['tys']] = l
            self.layouts.setdefault(('j', _tykey(l['ty'])), l)
        self.impls = facts['impls']
        self.counter = itertools.count()
        self.depth = 0
        self.max_depth = 24
        self.models = {}
        self.pattern_models = []
        self.trace_calls = True
        self.cfg_fork = True         # treat cfg!(debug_assertions) as unknown (see exec_block)
        self.opaque_fns = set()      # in-crate functions to treat as opaque events (by name)
        self.stats = {'blocks': 0, 'calls': 0, 'paths': 0}
        self._flags_all = {}
        from . import models
        models.install(self)

    # ------------------------------------------------------------------ types
    def subst_ty(self, t, sub):
        if not sub or not isinstance(t, dict):
            return t
        k = t.get('k')
        if k == 'param':
            return sub.get(t['name'], t)
        if k == 'adt' and t.get('args'):
            return {'k': 'adt', 'name': t['name'], 'args': [self.subst_ty(a, sub) for a in t['args']]}
        if k in ('ref', 'rawptr'):
            return {'k': k, 'mut': t['mut'], 'to': self.subst_ty(t['to'], sub)}
        if k == 'tuple':
            return {'k': 'tuple', 'elems': [self.subst_ty(e, sub) for e in t['elems']]}
        if k in ('array', 'slice'):
            r = dict(t)
            r['elem'] = self.subst_ty(t['elem'], sub)
            return r
        return t

    def find_layout(self, t):
        return self.layouts.get(('j', _tykey(t)))

    def enum_variants(self, t):
        n = t['name']
        if n == 'core::option::Option':
            return [('None', 0, 0), ('Some', 1, 1)]
        if n == 'core::result::Result':
            return [('Ok', 0, 1), ('Err', 1, 1)]
        if n == 'core::ops::ControlFlow':
            return [('Continue', 0, 1), ('Break', 1, 1)]
        lay = self.find_layout(t)
        if lay is None:
            # generic enum: any instantiation has the same variants
            for l in self.facts['layouts']:
                if l['ty'].get('name') == n and 'variants' in l:
                    lay = l
                    break
        if lay and 'variants' in lay:
            return [(v['name'], int(v['discr'], 16), v['nfields']) for v in lay['variants']]
        return None

    def page_size_bits(self, t, sub=None):
        """log2(SIZE) of a PageSize type"""
        t = self.subst_ty(t, sub)
        n = t.get('name', '').split('::')[-1]
        return {'Size4KiB': 12, 'Size2MiB': 21, 'Size1GiB': 30}.get(n)

    def flags_all(self, tyname):
        """`T::all().bits()` of a bitflags type: the OR of its flag table `<T as bitflags::Flags>::FLAGS` (which also holds
        unnamed `const _ = ..` entries); when the table was not extracted, the OR of the named associated constants"""
        if tyname not in self._flags_all:
            tbl = self.flag_table(tyname)
            if tbl is not None:
                v = 0
                for e in tbl:
                    v |= int(e['value'], 16)
            else:
                v = 0
                for c in self.consts.values():
                    if c['ty'].get('k') == 'adt' and c['ty']['name'] == tyname and c['val'].startswith('Scalar(') \
                            and c.get('impl') and c['impl']['self'] == tyname and not c['impl'].get('trait'):
                        v |= int(c['val'][7:-1], 16)
            self._flags_all[tyname] = v
        return self._flags_all[tyname]

    def flag_table(self, tyname):
        c = self.consts.get('<%s as bitflags::Flags>::FLAGS' % tyname)
        if c is None:
            return None
        return c.get('flags')

    def flags_named_or(self, tyname):
        v = 0
        for c in self.consts.values():
            if c['ty'].get('k') == 'adt' and c['ty']['name'] == tyname and c['val'].startswith('Scalar(') \
                    and c.get('impl') and c['impl']['self'] == tyname and not c['impl'].get('trait'):
                v |= int(c['val'][7:-1], 16)
        return v

    # ------------------------------------------------------------------ symbolic values
    def fresh(self, tag):
        return '%s#%d' % (tag, next(self.counter))

    def sym_value(self, t, name, st=None, sub=None, invariants=True):
        """symbolic value of type t whose integer leaves are named after `name`"""
        t = self.subst_ty(t, sub)
        w = ty_width(t)
        if w:
            return BV.sym(w, name, ty_signed(t))
        k = t.get('k')
        if k == 'adt':
            n = t['name']
            if invariants:
                v = self.invariant_value(t, name, st)
                if v is not None:
                    return v
            if n in ('core::option::Option', 'core::result::Result'):
                raise Unsupported('symbolic %s must be split by the caller' % n)
            if n == 'core::marker::PhantomData':
                return UNIT
            lay = self.find_layout(t)
            if lay is None:
                return Opaque(name + ':' + short_ty(t))
            if 'fields' in lay:
                fs = []
                for f in lay['fields']:
                    fs.append(self.sym_value(f['ty'], name + '.' + f['name'] if len(lay['fields']) > 1 else name, st, None, invariants))
                return Struct(n, fs)
            if 'variants' in lay:
                if all(v['nfields'] == 0 for v in lay['variants']):
                    dw = max(8, lay['size'] * 8) if lay['size'] else 8
                    return Enum(n, None, None, (), BV.sym(dw, name))
                raise Unsupported('symbolic data-carrying enum %s must be split by the caller' % n)
            return Opaque(name + ':' + short_ty(t))
        if k == 'tuple':
            return Struct('tuple', [self.sym_value(e, '%s.%d' % (name, i), st, None, invariants) for i, e in enumerate(t['elems'])])
        if k == 'array':
            et = t['elem']
            return Array(name, mk=lambda nm, et=et: self.sym_value(et, nm, None, None, invariants), length=_arr_len(t))
        if k in ('ref', 'rawptr'):
            if st is None:
                return Opaque(name + ':ref')
            loc = ('obj', name)
            if t['to'].get('k') in ('adt', 'tuple', 'array', 'uint', 'int', 'bool'):
                try:
                    st.mem[loc] = self.sym_value(t['to'], '*' + name, st, None, invariants)
                except Unsupported:
                    st.mem[loc] = Opaque('*' + name)
            else:
                st.mem[loc] = Opaque('*' + name)
            return Ref(loc, (), k == 'rawptr')
        return Opaque(name + ':' + short_ty(t))

    def invariant_value(self, t, name, st):
        """representation invariants of the crate's own value types (established by C03/C04/C19)"""
        n = t['name']
        tail = n.split('::')[-1]
        if n.startswith(('addr::', 'structures::paging::page::Page', 'structures::paging::frame::PhysFrame', 'structures::paging::page_table::Page', 'instructions::tlb::Pcid')):
            Interp.INVARIANTS_USED.add(n)
        if n.endswith('addr::VirtAddr'):
            return Struct(n, [BV(64, [lit(name, i) for i in range(48)] + [lit(name, 47)] * 16)])
        if n.endswith('addr::PhysAddr'):
            return Struct(n, [BV(64, [lit(name, i) for i in range(52)] + [0] * 12)])
        if n.endswith('page::Page') or n.endswith('frame::PhysFrame'):
            sb = self.page_size_bits(t['args'][0]) if t.get('args') else None
            if sb is None:
                return None
            if tail == 'PhysFrame':
                inner = Struct('addr::PhysAddr', [BV(64, [0] * sb + [lit(name, i) for i in range(sb, 52)] + [0] * 12)])
            else:
                inner = Struct('addr::VirtAddr', [BV(64, [0] * sb + [lit(name, i) for i in range(sb, 48)] + [lit(name, 47)] * 16)])
            return self.newtype(n, inner)
        if n.endswith('page_table::PageTableIndex'):
            return Struct(n, [BV(16, [lit(name, i) for i in range(9)] + [0] * 7)])
        if n.endswith('page_table::PageOffset'):
            return Struct(n, [BV(16, [lit(name, i) for i in range(12)] + [0] * 4)])
        if n.endswith('tlb::Pcid'):
            return Struct(n, [BV(16, [lit(name, i) for i in range(12)] + [0] * 4)])
        if n.endswith('page_table::PageTable'):
            return Struct(n, [Array(name, mk=lambda nm: Struct('structures::paging::page_table::PageTableEntry', [BV.sym(64, nm)]), length=512)])
        if n.endswith('debug::Dr7Value'):
            # Dr7Value only holds field and flag bits (enforced by from_bits / from_bits_truncate, decided in C19)
            valid = 0xffff0000 | self.flags_all(n.replace('Dr7Value', 'Dr7Flags'))
            return Struct(n, [BV(64, [lit(name, i) if (valid >> i) & 1 else 0 for i in range(64)])])
        if self.is_flags_type(n):
            allv = self.flags_all(n)
            lay = self.find_layout(t)
            w = lay['size'] * 8
            return self.wrap_scalar(t, BV(w, [lit(name, i) if (allv >> i) & 1 else 0 for i in range(w)]))
        return None

    def newtype(self, name, val):
        """a struct with one data field and zero-sized markers (Page, PhysFrame, PortGeneric, ...): `val` goes where the crate declares
        the data field - the order of private fields is the crate's business"""
        for a in self.facts.get('adts', []):
            if a['name'] == name:
                data = [f for f in a['fields'] if not f['marker']]
                if len(data) == 1:
                    return Struct(name, [UNIT if f['marker'] else val for f in a['fields']])
        return Struct(name, [val, UNIT])

    def is_flags_type(self, n):
        if not hasattr(self, '_flagtypes'):
            self._flagtypes = set()
            for im in self.impls:
                if im['trait'] == 'bitflags::Flags':
                    self._flagtypes.add(im['self'].get('name'))
        return n in self._flagtypes

    def wrap_scalar(self, t, bv):
        """value of a (nested) newtype around one scalar"""
        lay = self.find_layout(t)
        if lay and 'fields' in lay and lay['fields']:
            nz = [i for i, f in enumerate(lay['fields']) if f['size'] != 0]
            if len(nz) == 1:
                inner = lay['fields'][nz[0]]['ty']
                w = ty_width(inner)
                if w:
                    val = BV(w, bv.bits[:w] if bv.w >= w else bv.bits + (0,) * (w - bv.w), ty_signed(inner))
                elif inner.get('k') == 'adt':
                    val = self.wrap_scalar(inner, bv)
                else:
                    val = bv
                return Struct(t['name'], [val if i == nz[0] else UNIT for i in range(len(lay['fields']))])
        return Opaque('scalar-const:' + short_ty(t))

    def inner_bv(self, st, v):
        """the single scalar inside nested newtypes"""
        while True:
            if isinstance(v, BV):
                return v
            if isinstance(v, Ref):
                v = self.load(st, v)
                continue
            if isinstance(v, Struct):
                nz = [x for x in v.fields if not (isinstance(x, Struct) and not x.fields)]
                if len(nz) != 1:
                    raise Unsupported('inner_bv of %r' % (v,))
                v = nz[0]
                continue
            if isinstance(v, Enum) and v.disc is not None:
                return v.disc
            raise Unsupported('inner_bv of %r' % (v,))

    # ------------------------------------------------------------------ memory
    def load(self, st, ref):
        if isinstance(ref, Ptr):
            return self.load(st, self.ptr_ref(st, ref))
        base = st.mem.get(ref.loc)
        if base is None:
            raise Unsupported('load from unknown location %s' % (fmt_loc(ref.loc),))
        return self.walk(st, ref.loc, base, ref.path)

    def walk(self, st, loc, v, path):
        for n, p in enumerate(path):
            if isinstance(p, tuple) and p[0] == 'idx':
                if isinstance(v, Array):
                    r, na = v.get(p[1], lambda a, b: self.may_alias(st, a, b))
                    if na is not v:
                        # lazily created element: store it back
                        self._store_at(st, loc, path[:n], na)
                    if r is None:
                        raise Unsupported('read of possibly-aliased array element %s%s' % (fmt_loc(loc), fmt_path(path)))
                    v = r
                elif isinstance(v, Opaque):
                    v = Opaque(v.tag + '[]')
                else:
                    raise Unsupported('index into %r' % (v,))
            else:
                if isinstance(v, (Struct, Enum, Closure)):
                    if p >= len(v.fields):
                        raise Unsupported('field %s of %r' % (p, v))
                    v = v.fields[p]
                elif isinstance(v, Opaque):
                    v = Opaque('%s.%s' % (v.tag, p))
                else:
                    raise Unsupported('field %s of %r' % (p, v))
        return v

    def _store_at(self, st, loc, path, val):
        if not path:
            st.mem[loc] = val
            return
        st.mem[loc] = self._update(st.mem.get(loc), path, val, st)

    def may_alias(self, st, a, b):
        """can two abstract indices denote the same element on this path?"""
        from .values import may_alias as syntactic
        if not syntactic(a, b):
            return False
        ea, eb = self.aff_of(st, a), self.aff_of(st, b)
        if ea is not None and eb is not None:
            d = ea.add(eb, -1).norm(a.w)
            if d.is_const() and d.const != 0:
                return False
        ra, rb = self.rng_of(st, a), self.rng_of(st, b)
        if ra and rb and (max(y for _, y in ra) < min(x for x, _ in rb) or max(y for _, y in rb) < min(x for x, _ in ra)):
            return False
        return True

    def _update(self, v, path, val, st=None):
        if not path:
            return val
        p = path[0]
        al = (lambda a, b: self.may_alias(st, a, b)) if st is not None else None
        if isinstance(p, tuple) and p[0] == 'idx':
            if isinstance(v, Array):
                if len(path) == 1:
                    return v.set(p[1], val, al)
                cur, na = v.get(p[1], al)
                if cur is None:
                    raise Unsupported('update of possibly-aliased array element')
                return na.set(p[1], self._update(cur, path[1:], val, st), al)
            raise Unsupported('index-update into %r' % (v,))
        if isinstance(v, (Struct, Enum, Closure)):
            cur = v.fields[p] if p < len(v.fields) else UNIT
            return v.with_field(p, self._update(cur, path[1:], val, st))
        if v is None or isinstance(v, Opaque):
            # partially initialised aggregate (MIR may assign fields one by one)
            s = Struct('?', [])
            return s.with_field(p, self._update(None, path[1:], val, st))
        raise Unsupported('field-update %s into %r' % (p, v))

    def store(self, st, ref, val):
        if isinstance(ref, Ptr):
            ref = self.ptr_ref(st, ref)
        self.on_store(st, ref, val)
        self._store_at(st, ref.loc, ref.path, val)

    def on_store(self, st, ref, val):
        """hook: record writes to tracked objects (abstract heap objects and argument objects)"""
        if ref.loc[0] in ('obj', 'arg'):
            try:
                old = self.load(st, ref)
            except Unsupported:
                old = None
            st.events.append(('write', ref, old, val))

    def ptr_ref(self, st, p):
        """location denoted by a raw pointer known by address / provenance only"""
        loc = ('obj', p.key())
        if loc not in st.mem:
            st.mem[loc] = self.new_object(st, p)
        path = ()
        if p.off is not None:
            path = (('idx', p.off),)
        return Ref(loc, path, True)

    def new_object(self, st, p):
        f = getattr(self, 'object_factory', None)
        if f is not None:
            v = f(p)
            if v is not None:
                return v
        return Opaque('*' + p.key())

    # ------------------------------------------------------------------ places
    def place_ty(self, f, pl, sub=None):
        t = f['locals'][pl['l']]
        for e in pl['p']:
            k = e['k']
            if k == 'field':
                t = e['ty']
            elif k == 'deref':
                t = t.get('to', {'k': 'other'})
            elif k in ('index', 'cindex'):
                t = t.get('elem', {'k': 'other'})
        return self.subst_ty(t, sub)

    def place_ref(self, st, fr, pl):
        """resolve a MIR place to (loc, path)"""
        loc = ('L', fr.id, pl['l'])
        path = []
        for e in pl['p']:
            k = e['k']
            if k == 'deref':
                v = self.walk(st, loc, st.mem.get(loc), path) if (path or loc in st.mem) else None
                if loc not in st.mem:
                    raise Unsupported('deref of uninitialised %s' % fmt_loc(loc))
                if isinstance(v, Ref):
                    loc, path = v.loc, list(v.path)
                elif isinstance(v, Ptr):
                    if e.get('raw'):
                        st.events.append(('rawderef', v, fr.f['name']))
                    r = self.ptr_ref(st, v)
                    loc, path = r.loc, list(r.path)
                elif isinstance(v, Opaque):
                    loc = ('obj', 'opaque:' + v.tag)
                    path = []
                    st.mem.setdefault(loc, Opaque('*' + v.tag))
                else:
                    raise Unsupported('deref of %r in %s' % (v, fr.f['name']))
                if e.get('raw') and isinstance(v, Ref):
                    st.events.append(('rawderef', v, fr.f['name']))
            elif k == 'field':
                path.append(e['i'])
            elif k == 'downcast':
                pass
            elif k == 'index':
                iv = st.mem[('L', fr.id, e['l'])]
                path.append(('idx', iv))
            elif k == 'cindex':
                if e.get('from_end'):
                    raise Unsupported('constant index from end')
                path.append(('idx', BV.const(64, e['off'])))
            else:
                raise Unsupported('projection %s' % k)
        return Ref(loc, path)

    def read_place(self, st, fr, pl):
        r = self.place_ref(st, fr, pl)
        if r.loc not in st.mem:
            raise Unsupported('read of uninitialised %s in %s' % (fmt_loc(r.loc), fr.f['name']))
        v = self.walk(st, r.loc, st.mem[r.loc], r.path)
        # check downcasts
        return v

    def write_place(self, st, fr, pl, val):
        r = self.place_ref(st, fr, pl)
        if r.loc[0] != 'L':
            self.on_store(st, r, val)
        self._store_at(st, r.loc, r.path, val)

    # ------------------------------------------------------------------ constants
    def const_val(self, st, fr, c):
        k = c['k']
        if k == 'int':
            t = c['ty']
            w = ty_width(t)
            v = int(c['v'], 16)
            if w:
                return BV.const(w, v, ty_signed(t))
            if t['k'] == 'adt':
                return self.scalar_const_of_type(t, v, c['bits'])
            if t['k'] in ('rawptr',):
                return Ptr(addr=BV.const(64, v))
            return Opaque('const:%#x' % v)
        if k == 'fn':
            return FnItem(c)
        if k == 'uneval':
            return self.uneval_const(st, fr, c)
        if k == 'cother':
            t = c['ty']
            m = re.match(r'Ty\(\w+, (\w+)/#\d+\)', c.get('dbg', ''))
            if m:
                if fr is not None and fr.consts and m.group(1) in fr.consts:
                    return BV.const(ty_width(t) or 64, fr.consts[m.group(1)], ty_signed(t))
                raise Unsupported('const generic parameter %s has no value' % m.group(1))
            if t['k'] == 'tuple' and not t['elems']:
                return UNIT
            if 'ZeroSized' in c.get('dbg', ''):
                if t['k'] == 'adt':
                    lay = self.find_layout(t)
                    if lay and 'fields' in lay:
                        return Struct(t['name'], [UNIT] * len(lay['fields']))
                    if lay and 'variants' in lay and len(lay['variants']) == 1:
                        return Enum(t['name'], 0, lay['variants'][0]['name'])
                return UNIT
            return Opaque('const:' + c.get('dbg', '')[:60])
        raise Unsupported('constant kind %s' % k)

    def scalar_const_of_type(self, t, v, bits):
        sub_t = t
        variants = self.enum_variants(t) if t['k'] == 'adt' else None
        lay = self.find_layout(t)
        if lay and 'variants' in lay:
            for (nm, d, nf) in variants:
                if d & ((1 << bits) - 1) == v and nf == 0:
                    return Enum(t['name'], [x[0] for x in variants].index(nm), nm)
            return Opaque('enum-const:%#x' % v)
        return self.wrap_scalar(t, BV.const(bits, v))

    def uneval_const(self, st, fr, c):
        name = c['def']
        if c.get('promoted') is not None:
            pname = '%s::promoted[%d]' % (name, c['promoted'])
            pf = self.fn.get(pname)
            if pf is None:
                raise Unsupported('missing promoted body ' + pname)
            loc = ('prom', pname, tuple(sorted((k, _tykey(v)) for k, v in (fr.sub or {}).items())))
            if loc not in st.mem:
                outs = self.run_fn(pf, [], st, fr.sub, keep_locals=True)
                if len(outs) != 1 or outs[0].kind != 'ret':
                    raise Unsupported('promoted %s does not evaluate to one value' % pname)
                # promoted bodies return a reference to their local; keep the referent alive
                v = outs[0].val
                st.mem[loc] = v
            return st.mem[loc]
        gargs = [self.subst_ty(g, fr.sub) for g in c.get('gargs', [])]
        # associated const of a trait, selected by the Self type
        short = name.split('::')[-1]
        if gargs and gargs[0].get('k') in ('adt', 'uint', 'int'):
            selfs = _ty_str(gargs[0])
            trait = name.rsplit('::', 1)[0]
            for cn, cv in self.consts.items():
                im = cv.get('impl')
                if im and im.get('trait') and cn.endswith('::' + short) and im['self'] == selfs and _trait_name(im['trait']) == trait:
                    return self.const_item_value(cv)
        if name in self.consts:
            return self.const_item_value(self.consts[name])
        cf = self.fn.get(name)
        if cf is not None and cf['argc'] == 0 and str(cf.get('kind', '')).startswith(('AssocConst', 'Const')):
            # a generic constant: its initialiser is interpreted for this instantiation
            sub = dict(zip(cf['generics'], gargs_for(cf, gargs)))
            outs = self.run_fn(cf, [], st.clone(), sub)
            if len(outs) == 1 and outs[0].kind == 'ret':
                return outs[0].val
            raise Unsupported('generic constant %s does not evaluate to one value' % name)
        raise Unsupported('unevaluated constant %s %s' % (name, [short_ty(g) for g in gargs]))

    def const_item_value(self, cv):
        t = cv['ty']
        val = cv['val']
        if cv.get('fn'):
            n = cv['fn']
            return FnItem({'k': 'fn', 'name': n, 'krate': None, 'local': n in self.fn, 'trait': None, 'targs': [],
                           'res': {'name': n, 'args': '[]', 'gargs': [], 'local': n in self.fn}, 'rk': 'ok'})
        if val.startswith('Scalar('):
            v = int(val[7:-1], 16)
            w = ty_width(t)
            if w:
                return BV.const(w, v, ty_signed(t))
            if t['k'] == 'adt':
                lay = self.find_layout(t)
                return self.scalar_const_of_type(t, v, (lay['size'] * 8) if lay else 64)
        if val == 'ZeroSized':
            return UNIT
        if cv.get('bytes'):
            return self.value_from_bytes(t, bytes.fromhex(cv['bytes']))
        raise Unsupported('constant item %s = %s' % (cv['name'], val[:40]))

    def value_from_bytes(self, t, bs):
        w = ty_width(t)
        if w:
            return BV.const(w, int.from_bytes(bs[:(w + 7) // 8], 'little'), ty_signed(t))
        k = t['k']
        if k == 'array':
            n = _arr_len(t)
            es = len(bs) // n if n else 0
            elems = {}
            for i in range(n):
                iv = BV.const(64, i)
                elems[iv.key()] = (iv, self.value_from_bytes(t['elem'], bs[i * es:(i + 1) * es]))
            return Array('const', elems, length=n)
        if k == 'adt':
            lay = self.find_layout(t)
            if lay and 'fields' in lay:
                fs = []
                for f in lay['fields']:
                    fs.append(self.value_from_bytes(f['ty'], bs[f['off']:f['off'] + f['size']]) if f['size'] else UNIT)
                return Struct(t['name'], fs)
            if lay and 'variants' in lay:
                d = int.from_bytes(bs[:lay['size']], 'little')
                for i, v in enumerate(lay['variants']):
                    if int(v['discr'], 16) & ((1 << (8 * lay['size'])) - 1) == d:
                        return Enum(t['name'], i, v['name'])
            if t['name'] == 'core::option::Option' and len(t.get('args', [])) == 1 and t['args'][0].get('k') == 'adt':
                # Option of a field-less enum of the same size: None lives in a discriminant value the enum does not use (niche)
                pl = self.find_layout(t['args'][0])
                if pl and 'variants' in pl and all(v['nfields'] == 0 for v in pl['variants']) and pl['size'] == len(bs) and len(pl['variants']) < (1 << (8 * pl['size'])):
                    d = int.from_bytes(bs, 'little')
                    for i, v in enumerate(pl['variants']):
                        if int(v['discr'], 16) & ((1 << (8 * pl['size'])) - 1) == d:
                            return Enum('core::option::Option', 1, 'Some', [Enum(t['args'][0]['name'], i, v['name'])])
                    return Enum('core::option::Option', 0, 'None')
            if lay is None and t['name'].startswith('core::ops::Range') and t.get('args'):
                # core's range types over an integer (constants such as `const BITS: Range<usize> = 13..15`): start, end[, exhausted]
                ew = ty_width(t['args'][0])
                if ew:
                    eb = ew // 8
                    short = t['name'].split('::')[-1]
                    sgn = ty_signed(t['args'][0])
                    get = lambda i: BV.const(ew, int.from_bytes(bs[i * eb:(i + 1) * eb], 'little'), sgn)
                    if short in ('Range',) and len(bs) >= 2 * eb:
                        return Struct(t['name'], [get(0), get(1)])
                    if short == 'RangeInclusive' and len(bs) >= 2 * eb:
                        return Struct(t['name'], [get(0), get(1), BV.const(1, bs[2 * eb] & 1 if len(bs) > 2 * eb else 0)])
                    if short in ('RangeFrom', 'RangeTo', 'RangeToInclusive') and len(bs) >= eb:
                        return Struct(t['name'], [get(0)])
            if lay is None and 0 < len(bs) <= 16:
                # a foreign newtype around one scalar (e.g. core's Atomic<u64>)
                return Struct(t['name'], [BV.const(8 * len(bs), int.from_bytes(bs, 'little'))])
        if k == 'tuple':
            if not t['elems']:
                return UNIT
        raise Unsupported('constant bytes of type %s' % short_ty(t))

    # ------------------------------------------------------------------ operands / rvalues
    def operand(self, st, fr, o):
        k = o['k']
        if k in ('copy', 'move'):
            return self.read_place(st, fr, o['pl'])
        return self.const_val(st, fr, o)

    def operand_ty(self, fr, o):
        if o['k'] in ('copy', 'move'):
            return self.place_ty(fr.f, o['pl'], fr.sub)
        return self.subst_ty(o.get('ty', {'k': 'other'}), fr.sub)

    def norm(self, st, v):
        """reduce a BV with what the state knows about its symbols' ranges"""
        if isinstance(v, BV) and not v.is_const() and st.rng:
            return self.reduce_bits(st, v)
        return v

    def rvalue(self, st, fr, rv, dest_ty, loc=None):
        k = rv['k']
        if k == 'use':
            return self.operand(st, fr, rv['op'])
        if k == 'bin':
            a = self.operand(st, fr, rv['l'])
            b = self.operand(st, fr, rv['r'])
            return self.binop(st, rv['op'], a, b, loc, fr)
        if k == 'un':
            a = self.operand(st, fr, rv['o'])
            op = rv['op']
            if op == 'Not' and isinstance(a, BV):
                return bv_not(a)
            if op == 'Neg' and isinstance(a, BV):
                return bv_binop('Sub', BV.const(a.w, 0, a.signed), a)
            if op == 'PtrMetadata':
                return self.slice_len(st, a)
            raise Unsupported('unary op %s on %r' % (op, a))
        if k == 'cast':
            return self.cast(st, fr, rv, dest_ty)
        if k in ('ref', 'rawref'):
            r = self.place_ref(st, fr, rv['pl'])
            return Ref(r.loc, r.path, k == 'rawref')
        if k == 'agg':
            vals = [self.operand(st, fr, o) for o in rv['fields']]
            ak = rv['ak']
            if ak == 'tuple':
                return Struct('tuple', vals)
            if ak == 'adt':
                dt = dest_ty if dest_ty.get('k') == 'adt' else {'k': 'adt', 'name': rv['adt'], 'args': []}
                if rv.get('enum') or self.enum_variants({'k': 'adt', 'name': rv['adt'], 'args': dt.get('args', [])}) is not None:
                    return Enum(rv['adt'], rv['vi'], rv['variant'], vals)
                return Struct(rv['adt'], vals)
            if ak == 'array':
                elems = {}
                for i, v in enumerate(vals):
                    iv = BV.const(64, i)
                    elems[iv.key()] = (iv, v)
                return Array('array', elems, length=len(vals))
            if ak == 'closure':
                return Closure(rv['name'], vals)
            if ak == 'other' and 'RawPtr' in rv.get('dbg', ''):
                return vals[0]
            raise Unsupported('aggregate %s %s' % (ak, rv.get('dbg', '')))
        if k == 'repeat':
            v = self.operand(st, fr, rv['o'])
            return Array('repeat', default=v, length=self.array_len(rv['n'], fr))
        if k == 'discr':
            v = self.read_place(st, fr, rv['pl'])
            w = ty_width(dest_ty) or 64
            if isinstance(v, Enum):
                if v.vi is not None:
                    vs = self.enum_variants({'k': 'adt', 'name': v.name, 'args': []})
                    d = vs[v.vi][1] if vs else v.vi
                    return BV.const(w, d, ty_signed(dest_ty))
                return bv_cast(v.disc, w, ty_signed(dest_ty))
            raise Unsupported('discriminant of %r in %s' % (v, fr.f['name']))
        if k == 'rother':
            d = rv.get('dbg', '')
            if d.startswith('ShallowInitBox') or d.startswith('ThreadLocalRef'):
                raise Unsupported('rvalue ' + d[:30])
            m = re.match(r'Len\((.*)\)', d)
            raise Unsupported('rvalue %s' % d[:60])
        raise Unsupported('rvalue kind %s' % k)

    def array_len(self, s, fr=None):
        m = re.search(r'(0x[0-9a-f]+|\b\d+)', s.replace('_usize', ''))
        if 'Param' in s or 'MAX' in s:
            if fr is not None and fr.consts:
                for k, v in fr.consts.items():
                    if k in s:
                        return v
            return None
        if m:
            return int(m.group(1), 0)
        return None

    def slice_len(self, st, a):
        if isinstance(a, Ref):
            v = self.load(st, a)
            if isinstance(v, Array) and v.length is not None:
                return v.length if isinstance(v.length, BV) else BV.const(64, v.length)
        raise Unsupported('length of %r' % (a,))

    def cast(self, st, fr, rv, dest_ty):
        a = self.operand(st, fr, rv['o'])
        kind = rv['kind']
        w = ty_width(dest_ty)
        if kind == 'IntToInt':
            if isinstance(a, Enum):
                a = self.inner_bv(st, a) if a.vi is None else BV.const(64, self.enum_variants({'k': 'adt', 'name': a.name, 'args': []})[a.vi][1])
            if isinstance(a, BV) and w:
                a = self.norm(st, a)
                return bv_cast(a, w, ty_signed(dest_ty))
        if kind in ('PointerExposeProvenance', 'PointerExposeAddress') and w:
            return self.addr_of(st, a, w)
        if kind in ('PointerWithExposedProvenance', 'PointerFromExposedAddress'):
            if isinstance(a, BV):
                return Ptr(addr=a)
        if kind.startswith('PtrToPtr') or kind.startswith('PointerCoercion') or kind in ('Transmute', 'FnPtrToPtr'):
            if kind == 'Transmute' and isinstance(a, BV) and w and w != a.w:
                raise Unsupported('transmute between widths')
            if kind == 'Transmute' and isinstance(a, BV) and dest_ty.get('k') == 'rawptr':
                return Ptr(addr=a)
            if 'Unsize' in kind and isinstance(a, Ref):
                return a
            return a
        if kind == 'Transmute':
            return a
        raise Unsupported('cast %s of %r' % (kind, a))

    def addr_of(self, st, a, w=64):
        """integer value of a pointer"""
        if isinstance(a, Ptr):
            if a.addr is not None and a.off is None:
                return bv_cast(a.addr, w, False)
            return BV.sym(w, 'addr(%s)' % a.key())
        if isinstance(a, Ref):
            ov = getattr(self, 'addr_override', {}).get((a.loc, a.path))
            if ov is not None:
                return bv_cast(ov, w, False)
            return BV.sym(w, 'addr(%s%s)' % (fmt_loc(a.loc), fmt_path(a.path)))
        if isinstance(a, FnItem):
            return BV.sym(w, 'addr(fn %s)' % a.c['name'])
        if isinstance(a, Opaque):
            return BV.sym(w, 'addr(%s)' % a.tag)
        if isinstance(a, BV):
            return bv_cast(a, w, False)
        raise Unsupported('address of %r' % (a,))

    # ------------------------------------------------------------------ arithmetic with intervals
    def sym_of(self, bv, st=None):
        """name of the symbol this value *is* (its non-constant bits are that symbol's bits at their own positions).
        With a state, every constant bit must also be a known fact about the symbol (recorded refinement, bit implied
        by its range) - a value like x & 0xff shares x's bits but is not x."""
        name = None
        moved = []
        for i, b in enumerate(bv.bits):
            if b in (0, 1):
                continue
            if b == TOP or b[0] != 'v' or b[3]:
                return None
            if b[2] != i:
                # a copy of another bit of the same symbol is fine when that equality is a recorded fact (x.i == x.k)
                if st is None:
                    return None
                moved.append((i, b))
            if name is None:
                name = b[1]
            elif name != b[1]:
                return None
        for i, b in moved:
            if st.env.get((name, i)) != b:
                return None
        if name is None or st is None:
            return name
        r = st.rng.get(name)
        lo = hi = None
        if r:
            lo, hi = min(a for a, _ in r), max(b2 for _, b2 in r)
        for i, b in enumerate(bv.bits):
            if b not in (0, 1):
                continue
            e = st.env.get((name, i))
            if e == b:
                continue
            if r and (lo >> i) == (hi >> i) and ((lo >> i) & 1) == b:
                continue
            if e is None and not r and False:
                continue
            return None
        return name

    def rng_of(self, st, bv):
        lo, hi = bits_min(bv.bits), bits_max(bv.bits)
        n = self.sym_of(bv, st)
        if n is not None and n in st.rng:
            out = []
            for a, b in st.rng[n]:
                a2, b2 = max(a, lo), min(b, hi)
                if a2 <= b2:
                    out.append((a2, b2))
            return out
        if n is None and st.rng and not bv.has_top() and any(isinstance(b, tuple) and b[0] == 'v' and b[3] for b in bv.bits):
            # !x (= MAX - x): the mirror image of x's range
            nb = bv_not(bv)
            n2 = self.sym_of(nb, st)
            if n2 is not None and n2 in st.rng:
                m_ = (1 << bv.w) - 1
                out = []
                for a, b in self.rng_of(st, nb):
                    out.append((m_ - b, m_ - a))
                return sorted(out)
        aff = bv.aff if bv.has_top() else (bv.get_aff() if st.rng else None)
        if aff is not None and aff.terms:
            alo, ahi = self.aff_range(st, aff)
            if alo >= 0 and ahi < (1 << bv.w):
                lo, hi = max(lo, alo), min(hi, ahi)
        if lo > hi:
            return []
        if st.facts and lo < hi and not bv.has_top():
            # an endpoint that a recorded (in)equality fact rules out (x != u64::MAX before x + 1, x != 0 before x - 1)
            from .bits import eq_bit
            for _ in range(2):
                e = eq_bit(bv.bits, tuple((hi >> i) & 1 for i in range(bv.w)))
                if e not in (0, 1) and subst_bit(e, {}, st.facts) == 0 and lo < hi:
                    hi -= 1
                else:
                    break
            e = eq_bit(bv.bits, tuple((lo >> i) & 1 for i in range(bv.w)))
            if e not in (0, 1) and subst_bit(e, {}, st.facts) == 0 and lo < hi:
                lo += 1
        return [(lo, hi)]

    def atom_range(self, st, atom):
        s, lo, hi = atom
        full = (0, (1 << (hi - lo)) - 1)
        if lo == 0 and s in st.rng and st.rng[s]:
            r = st.rng[s]
            mx = max(b for a, b in r)
            mn = min(a for a, b in r)
            if mx <= full[1]:
                return (mn, mx)
        return full

    def aff_range(self, st, aff):
        lo = hi = aff.const
        for atom, c in aff.terms.items():
            a, b = self.atom_range(st, atom)
            if c >= 0:
                lo += c * a
                hi += c * b
            else:
                lo += c * b
                hi += c * a
        return lo, hi

    def reduce_bits(self, st, bv):
        r = self.rng_of(st, bv)
        if not r:
            return bv
        lo, hi = min(a for a, b in r), max(b for a, b in r)
        nb = None
        for i in range(bv.w - 1, -1, -1):
            if (lo >> i) == (hi >> i):
                c = (lo >> i) & 1
                if bv.bits[i] != c:
                    if nb is None:
                        nb = list(bv.bits)
                    nb[i] = c
            else:
                break
        if nb is None:
            return bv
        return BV(bv.w, nb, bv.signed, bv.aff, bv.nw)

    def fresh_num(self, st, w, tag, r, zeros=0, signed=False, aff=None, exact=True):
        """a fresh symbol standing for an arithmetic result: interval `r`, known low zero bits, and - when the result
        is an affine form of other symbols - its definition (exact: equal as integers, not only modulo 2^w)"""
        name = self.fresh(tag)
        st.rng[name] = list(r)
        if aff is not None:
            st.defs[name] = (aff, w, exact)
        for i in range(zeros):
            st.env[(name, i)] = 0
        bv = BV(w, [0] * zeros + [lit(name, i) for i in range(zeros, w)], signed)
        return self.reduce_bits(st, bv)

    def aff_of(self, st, bv, depth=0):
        """affine form of a value over the *input* symbols: symbols introduced for arithmetic results are replaced by
        their definitions (only where that is exact for the width at hand)"""
        if not isinstance(bv, BV):
            return None
        n = self.sym_of(bv, st)
        if n is not None and n in st.defs:
            aff, w, exact = st.defs[n]
            if w == bv.w or exact:
                return self.expand_aff(st, aff, depth)
        a = bv.get_aff()
        if a is None:
            return None
        return self.expand_aff(st, a, depth)

    def exact_aff(self, st, bv):
        """affine form that equals the value as an integer (no wrap-around): fully known bits, or a result symbol whose
        definition was shown not to wrap on this path"""
        if not isinstance(bv, BV):
            return None
        n = self.sym_of(bv, st)
        if n is not None and n in st.defs:
            aff, w, exact = st.defs[n]
            return self.expand_aff(st, aff) if exact else None
        if bv.has_top():
            return None
        a = bv.get_aff()
        return self.expand_aff(st, a) if a is not None else None

    def aff_equal(self, st, a, b, w=64):
        """are two affine forms equal modulo 2^w on this path? Atoms (s, 0, k) that cover the whole symbol (its range
        is below 2^k) are identified with each other."""
        if a is None or b is None:
            return False

        def canon(x, depth=0):
            x = self.expand_aff(st, x)
            t = {}
            k0 = x.const
            again = False
            # a slice s[lo..hi) whose lower bits s[0..lo) are all known constants is (s[0..hi) - K) / 2^lo: rewrite it as the slice from
            # bit 0 when the coefficient allows (2^lo divides it), so that the whole-symbol identification below applies
            terms = {}
            for (sym, lo, hi), c in x.terms.items():
                if hi - lo <= 64 and hi <= 64:
                    # a slice all of whose bits this path has fixed is a constant
                    full = self.reduce_bits(st, BV.sym(64, sym)).bits
                    kn = [full[i] if full[i] in (0, 1) else st.env.get((sym, i)) for i in range(lo, hi)]
                    if all(b in (0, 1) for b in kn):
                        k0 += c * sum(b << i for i, b in enumerate(kn))
                        continue
                if lo > 0 and c % (1 << lo) == 0:
                    full = self.reduce_bits(st, BV.sym(64, sym)).bits
                    known = [full[i] if full[i] in (0, 1) else st.env.get((sym, i)) for i in range(0, lo)]
                    if all(b in (0, 1) for b in known):
                        K = sum(b << i for i, b in enumerate(known))
                        terms[(sym, 0, hi)] = terms.get((sym, 0, hi), 0) + (c >> lo)
                        k0 -= (c >> lo) * K
                        continue
                terms[(sym, lo, hi)] = terms.get((sym, lo, hi), 0) + c
            for (sym, lo, hi), c in terms.items():
                key = (sym, lo, hi)
                if lo == 0:
                    r = st.rng.get(sym)
                    if hi >= 64 or (r and max(y for _, y in r) < (1 << hi)):
                        key = (sym, 0, -1)
                        again = again or sym in st.defs
                    elif hi < 64:
                        # bits hi.. of the symbol are all known constants: x[0..hi] = x - K
                        full = self.reduce_bits(st, BV.sym(64, sym)).bits
                        known = [full[i] if full[i] in (0, 1) else st.env.get((sym, i)) for i in range(hi, 64)]
                        if all(b in (0, 1) for b in known):
                            K = sum(b << (hi + i) for i, b in enumerate(known))
                            key = (sym, 0, -1)
                            k0 -= c * K
                            again = again or sym in st.defs
                t[key] = t.get(key, 0) + c
            out = Aff(t, k0)
            if again and depth < 4:
                # whole-symbol atoms of defined symbols can now be expanded
                out = canon(Aff({(s2, 0, 64) if h == -1 else (s2, l, h): c for (s2, l, h), c in out.terms.items()}, out.const), depth + 1)
            return out.norm(w)
        ca, cb = canon(a), canon(b)
        if ca == cb:
            return True
        # slices of one symbol cut at different places (`x - x[0..k)` against `2^k * x[k..64)`): cut both forms at every boundary
        # either uses - x[lo..hi) = sum over the pieces [p, q) of 2^(p - lo) * x[p..q) - and compare again
        cuts = {}
        for f_ in (ca, cb):
            for (sym, lo, hi), _c in f_.terms.items():
                cuts.setdefault(sym, set()).update((lo, 64 if hi == -1 else hi))

        def split(f_):
            t = {}
            for (sym, lo, hi), c in f_.terms.items():
                h = 64 if hi == -1 else hi
                pts = sorted(p for p in cuts[sym] if lo <= p <= h)
                for p, q in zip(pts, pts[1:]):
                    t[(sym, p, q)] = t.get((sym, p, q), 0) + (c << (p - lo))
            return Aff(t, f_.const).norm(w)
        return split(ca) == split(cb)

    def expand_aff(self, st, aff, depth=0):
        if depth > 6:
            return aff
        out = Aff({}, aff.const)
        changed = False
        for (sym, lo, hi), c in aff.terms.items():
            d = st.defs.get(sym)
            whole = d is not None and lo == 0 and (hi == d[1] or (sym in st.rng and st.rng[sym] and max(y for _, y in st.rng[sym]) < (1 << hi)))
            if whole and d[2]:
                out = out.add(d[0].scale(c))
                changed = True
            else:
                out = out.add(Aff({(sym, lo, hi): c}, 0))
        return self.expand_aff(st, out, depth + 1) if changed else out

    def binop(self, st, op, a, b, loc=None, fr=None):
        if isinstance(a, Enum) and isinstance(b, Enum) and op in ('Eq', 'Ne'):
            a, b = self.inner_or_disc(a), self.inner_or_disc(b)
        if op == 'Offset':
            return self.ptr_add(st, a, b)
        if not isinstance(a, BV) or not isinstance(b, BV):
            if op in ('Eq', 'Ne') and isinstance(a, (Ref, Ptr)) and isinstance(b, (Ref, Ptr)):
                return BV.top(1)
            raise Unsupported('binary op %s on %r, %r' % (op, a, b))
        a = self.norm(st, a)
        b = self.norm(st, b)
        if op in ('Eq', 'Ne') and (a.is_const() != b.is_const()):
            c, x = (a, b) if a.is_const() else (b, a)
            nm = self.sym_of(x, st) if c.value() == 1 else None
            pc = st.facts.get(('popcount-of', nm)) if nm is not None else None
            if pc is not None:
                bit = pred('pow2', pc)
                return BV(1, [bit if op == 'Eq' else b_not(bit)])
        if op in ('Lt', 'Le', 'Gt', 'Ge') and (a.is_const() != b.is_const()):
            # `x.leading_zeros() < K` is `x >= 2^(w-K)`: a guard on the magnitude of x, refined as such
            if a.is_const():
                c, x, op2 = a, b, {'Lt': 'Gt', 'Le': 'Ge', 'Gt': 'Lt', 'Ge': 'Le'}[op]
            else:
                c, x, op2 = b, a, op
            nm = self.sym_of(x, st)
            lz = st.facts.get(('lz-of', nm)) if nm is not None else None
            if lz is not None:
                w_ = len(lz)
                K = c.value() + (1 if op2 in ('Le', 'Gt') else 0)      # lz < K  /  lz >= K
                less = op2 in ('Lt', 'Le')
                xv = BV(w_, lz)
                if K <= 0:
                    return BV.const(1, 0 if less else 1)
                if K > w_:
                    return BV.const(1, 1 if less else 0)
                bound = BV.const(w_, 1 << (w_ - K))
                return self.compare(st, 'Ge' if less else 'Lt', self.norm(st, xv), bound)
        if op in ('Eq', 'Ne', 'Lt', 'Le', 'Gt', 'Ge'):
            return self.compare(st, op, a, b)
        if op in ('Cmp',):
            raise Unsupported('three-way compare')
        wo = op.endswith('WithOverflow')
        base = op[:-len('WithOverflow')] if wo else op
        if b.w != a.w and not base.startswith('Sh'):
            raise Unsupported('width mismatch in %s' % op)
        if base == 'BitAnd' and (a.is_const() != b.is_const()):
            r = self.mask_low(st, b if a.is_const() else a, (a if a.is_const() else b).value())
            if r is not None:
                return r
        res = bv_binop(base, a, b)
        if base in ('Add', 'Sub', 'Mul', 'AddUnchecked', 'SubUnchecked', 'MulUnchecked') and not (a.is_const() and b.is_const()):
            b0 = base[:3]
            ra, rb = self.rng_of(st, a), self.rng_of(st, b)
            if not ra or not rb:
                st.dead = True
                ra = ra or [(0, 0)]
                rb = rb or [(0, 0)]
            amin, amax = min(x for x, _ in ra), max(y for _, y in ra)
            bmin, bmax = min(x for x, _ in rb), max(y for _, y in rb)
            lo = {'Add': amin + bmin, 'Sub': amin - bmax, 'Mul': amin * bmin}[b0]
            hi = {'Add': amax + bmax, 'Sub': amax - bmin, 'Mul': amax * bmax}[b0]
            # relational tightening for a - b when b <= a is known
            if b0 == 'Sub' and self.known_le(st, b, a):
                lo = max(lo, 0)
            if b0 == 'Add' and not a.has_top() and not b.has_top() and (self.known_le(st, b, bv_not(a)) or self.known_le(st, a, bv_not(b))):
                # b <= MAX - a was established on this path (`assert!(rhs <= u64::MAX - x)`): the sum fits
                hi = min(hi, (1 << a.w) - 1)
            if b0 == 'Sub' and TOP not in a.bits and TOP not in b.bits and bits_subset(b.bits, a.bits):
                # b = a & mask: b <= a bit for bit, the difference cannot borrow
                lo = max(lo, 0)
            m = 1 << a.w
            if a.signed:
                # signed operands: ranges are meaningful only when both are known non-negative
                h = m >> 1
                if amax < h and bmax < h:
                    may = lo < -h or hi >= h
                    must = hi < -h or lo >= h
                    if not may and (lo < 0):
                        # result may be negative: keep the affine form, no unsigned interval
                        if wo:
                            st.events.append(('ovf', b0, a, b, 'no-wrap', loc, fr.f['name'] if fr else None))
                            return Struct('tuple', [res, BV.const(1, 0)])
                        return res
                else:
                    may, must = True, False
            else:
                may = lo < 0 or hi >= m
                must = hi < 0 or lo >= m
            symname = None
            if res.has_top():
                aff = res.aff
                if aff is None:
                    ea, eb = a.get_aff(), b.get_aff()
                    if ea is not None and eb is not None and b0 in ('Add', 'Sub'):
                        aff = ea.add(eb, 1 if b0 == 'Add' else -1)
                if b0 == 'Mul':
                    z = min(a.w, a.low_zeros() + b.low_zeros())
                else:
                    z = min(a.low_zeros(), b.low_zeros())
                if aff is not None:
                    z = max(z, min(a.w, aff.low_zeros(a.w)))
                if not may:
                    res = self.fresh_num(st, a.w, b0.lower(), [(lo, hi)], z, a.signed, aff, exact=True)
                elif aff is not None:
                    res = self.fresh_num(st, a.w, b0.lower(), [(0, m - 1)], z, a.signed, aff, exact=False)
                symname = self.sym_of(res, st)
            if wo:
                if must:
                    ov = BV.const(1, 1)
                elif not may:
                    ov = BV.const(1, 0)
                else:
                    ov = BV(1, [pred('ovf', (b0, a.key(), b.key(), next(self.counter), symname, lo, hi, a.w))])
                st.events.append(('ovf', b0, a, b, 'may-wrap' if may else 'no-wrap', loc, fr.f['name'] if fr else None))
                return Struct('tuple', [res, ov])
            if may and base in ('Add', 'Sub', 'Mul'):
                # plain op without an overflow assertion: release-profile MIR, or a wrapping intrinsic
                st.events.append(('ovf', b0, a, b, 'may-wrap-unchecked', loc, fr.f['name'] if fr else None))
            return res
        if wo:
            return Struct('tuple', [res, BV.const(1, 0) if (a.is_const() and b.is_const() and self._no_ovf(base, a, b)) else
                                    (BV.const(1, 1) if (a.is_const() and b.is_const()) else BV.top(1))])
        if base in ('Div', 'Rem') and res.has_top() and not a.signed:
            ra, rb = self.rng_of(st, a), self.rng_of(st, b)
            if ra and rb and min(x for x, _ in rb) > 0:
                amin, amax = min(x for x, _ in ra), max(y for _, y in ra)
                bmin, bmax = min(x for x, _ in rb), max(y for _, y in rb)
                if base == 'Div':
                    res = self.fresh_num(st, a.w, 'div', [(amin // bmax, amax // bmin)], 0, a.signed)
                else:
                    res = self.fresh_num(st, a.w, 'rem', [(0, min(amax, bmax - 1))], 0, a.signed)
        return res

    def mask_low(self, st, v, m):
        """v & (2^k - 1) for a result symbol with an exact definition A + C*2^k where 0 <= A < 2^k: the value is A"""
        k = m.bit_length()
        if m != (1 << k) - 1 or k >= v.w or k == 0:
            return None
        n = self.sym_of(v, st)
        if n is None or n not in st.defs or not st.defs[n][2]:
            return None
        aff = self.expand_aff(st, st.defs[n][0])
        terms = {t: c for t, c in aff.terms.items() if c % (1 << k)}
        chi = aff.const >> k
        A = Aff(terms, aff.const - (chi << k))
        lo, hi = self.aff_range(st, A)
        if 0 <= lo and hi < (1 << k):
            return self.fresh_num(st, v.w, 'mask', [(lo, hi)], 0, v.signed, A, exact=True)
        return None

    def _no_ovf(self, base, a, b):
        x, y = a.value(), b.value()
        full = {'Add': x + y, 'Sub': x - y, 'Mul': x * y}[base[:3]]
        return 0 <= full < (1 << a.w)

    def tighten(self, st, res, lo, hi):
        """a TOP-carrying affine result with a known interval: fix the high bits the interval decides"""
        nb = list(res.bits)
        for i in range(res.w - 1, -1, -1):
            if (lo >> i) == (hi >> i):
                if nb[i] == TOP:
                    nb[i] = (lo >> i) & 1
            else:
                break
        return BV(res.w, nb, res.signed, res.aff, res.nw)

    def inner_or_disc(self, e):
        if e.vi is None:
            return e.disc
        vs = self.enum_variants({'k': 'adt', 'name': e.name, 'args': []})
        return BV.const(64, vs[e.vi][1] if vs else e.vi)

    def ptr_add(self, st, p, n):
        if isinstance(p, Ref):
            # pointer into an array: element offset
            if p.path and isinstance(p.path[-1], tuple) and p.path[-1][0] == 'idx':
                base = p.path[-1][1]
                return Ref(p.loc, p.path[:-1] + (('idx', self.binop(st, 'Add', base, bv_cast(n, base.w, False))),), p.raw)
            return Ref(p.loc, p.path + (('idx', n),), p.raw)
        if isinstance(p, Ptr):
            off = n if p.off is None else self.binop(st, 'Add', p.off, n)
            return Ptr(p.addr, p.tag, off)
        raise Unsupported('pointer offset on %r' % (p,))

    def known_le(self, st, a, b):
        """is a <= b recorded on this path?"""
        for strict, x, y in st.rel:
            if x.key() == a.key() and y.key() == b.key():
                return True
        return False

    def compare(self, st, op, a, b):
        r = bv_cmp(op, a, b)
        if r.is_const():
            return r
        if op in ('Eq', 'Ne'):
            ra, rb = self.rng_of(st, a), self.rng_of(st, b)
            if ra and rb and not a.signed:
                if max(y for _, y in ra) < min(x for x, _ in rb) or max(y for _, y in rb) < min(x for x, _ in ra):
                    return BV.const(1, int(op == 'Ne'))
            da, db = self.sym_of(a, st), self.sym_of(b, st)
            if a.has_top() or b.has_top() or (da in st.defs) or (db in st.defs):
                aa, ab = self.aff_of(st, a), self.aff_of(st, b)
                if aa is not None and ab is not None:
                    d = aa.add(ab, -1).norm(a.w)
                    if d.is_const():
                        return BV.const(1, int((d.const == 0) == (op == 'Eq')))
                if a.has_top() or b.has_top():
                    # bit-level payloads with unknown bits would alias distinct comparisons: key the predicate by the
                    # affine difference (a - b == 0), or make it unique
                    if aa is not None and ab is not None:
                        pb = pred('affeq', (a.w, d.key()))
                    else:
                        pb = pred('opaque-eq', next(self.counter))
                    r = BV(1, [pb if op == 'Eq' else b_not(pb)])
            return self.apply_facts(st, r)
        if a.signed:
            return r
        if op in ('Gt', 'Ge'):
            op = {'Gt': 'Lt', 'Ge': 'Le'}[op]
            a, b = b, a
        ra, rb = self.rng_of(st, a), self.rng_of(st, b)
        if not ra or not rb:
            return r
        strict = op == 'Lt'
        amin, amax = min(x for x, _ in ra), max(y for _, y in ra)
        bmin, bmax = min(x for x, _ in rb), max(y for _, y in rb)
        if amax < bmin or (not strict and amax <= bmin):
            return BV.const(1, 1)
        if amin > bmax or (strict and amin >= bmax):
            return BV.const(1, 0)
        # retained relations
        for s2, x, y in st.rel:
            if x.key() == a.key() and y.key() == b.key() and (s2 or not strict):
                return BV.const(1, 1)
            if x.key() == b.key() and y.key() == a.key() and (s2 or strict):
                # b < a  => not (a <= b) ; b <= a => not (a < b)
                return BV.const(1, 0)
        if a.has_top() or b.has_top():
            ka, kb = a.key(), b.key()
            uniq = next(self.counter) if (ka[0] == 'b' and TOP in ka[1]) or (kb[0] == 'b' and TOP in kb[1]) else 0
            return self.apply_facts(st, BV(1, [pred('ultx' if strict else 'ulex', (ka, kb, uniq))]))
        return self.apply_facts(st, BV(1, [pred('ult' if strict else 'ule', (a.bits, b.bits))]))

    def apply_facts(self, st, r):
        if st.facts and not r.is_const():
            nb = tuple(subst_bit(x, {}, st.facts) for x in r.bits)
            if nb != r.bits:
                return BV(r.w, nb, r.signed)
        return r

    # ------------------------------------------------------------------ refinement
    def assume(self, st, bit, val, note=None):
        """refine `st` with bit == val; returns False when that is impossible"""
        if bit in (0, 1):
            return bit == val
        if bit == TOP:
            return True
        t = bit[0]
        if t == 'v':
            self.apply_env(st, {(bit[1], bit[2]): (1 - val) if bit[3] else val})
            h = getattr(self, 'refine_hook', None)
            if h is not None and not st.dead:
                h(self, st, ('bit', bit[1], bit[2], (1 - val) if bit[3] else val))
            return not st.dead
        if t == 'p':
            truth = (1 - val) if bit[3] else val
            k = atom_key(bit)
            if k in st.facts and st.facts[k] != truth:
                return False
            st.facts[k] = truth
            kind, payload = bit[1], bit[2]
            if kind == 'eq0' and not truth:
                h = getattr(self, 'refine_hook', None)
                if h is not None:
                    h(self, st, ('nonzero', payload))
            if kind == 'eq0':
                if truth:
                    env = {}
                    for x in payload:
                        if x in (0, TOP):
                            continue
                        if x == 1:
                            return False
                        if x[0] == 'v':
                            env[(x[1], x[2])] = 1 if x[3] else 0
                        else:
                            if not self.assume(st, x, 0):
                                return False
                    self.apply_env(st, env)
            elif kind == 'eq':
                if truth:
                    env = {}
                    for x, y in zip(payload[0], payload[1]):
                        if x == y:
                            continue
                        if y in (0, 1) and isinstance(x, tuple) and x[0] == 'v':
                            env[(x[1], x[2])] = (1 - y) if x[3] else y
                        elif x in (0, 1) and isinstance(y, tuple) and y[0] == 'v':
                            env[(y[1], y[2])] = (1 - x) if y[3] else x
                        elif isinstance(x, tuple) and x[0] == 'v' and isinstance(y, tuple) and y[0] == 'v':
                            # unify: replace the later-named literal (larger symbol/index) by the other
                            if (x[1], x[2]) < (y[1], y[2]):
                                x, y = y, x
                            tgt = y if not x[3] else b_not(y)
                            if (x[1], x[2]) != (y[1], y[2]) and (x[1], x[2]) not in env:
                                env[(x[1], x[2])] = tgt
                    self.apply_env(st, env)
                    # numeric: both sides share their ranges
                    a = BV(len(payload[0]), payload[0])
                    b = BV(len(payload[1]), payload[1])
                    ra, rb = self.rng_of(st, a), self.rng_of(st, b)
                    if ra and rb:
                        self.narrow(st, a, min(x for x, _ in rb), max(y for _, y in rb))
                        self.narrow(st, b, min(x for x, _ in ra), max(y for _, y in ra))
                else:
                    # `x >> k != c` (an `if` chain where a `match` would be): the values of x with that slice leave its range, exactly as
                    # in the `otherwise` arm of a switch
                    for pa, pb in ((payload[0], payload[1]), (payload[1], payload[0])):
                        if all(y in (0, 1) for y in pb) and not all(x in (0, 1) for x in pa):
                            self.exclude_slice_value(st, BV(len(pa), pa), sum(y << i for i, y in enumerate(pb)))
                            break
            elif kind == 'ovf':
                if not truth and payload[4] is not None and payload[4] in st.rng:
                    nm, lo, hi, w = payload[4], payload[5], payload[6], payload[7]
                    d = st.defs.get(nm)
                    if d is not None:
                        # no wrap: the result is its defining form as an integer, so bounds on it bound the operands too
                        st.defs[nm] = (d[0], d[1], True)
                    self.narrow(st, BV.sym(w, nm), max(lo, 0), min(hi, (1 << w) - 1))
                    if not st.dead:
                        self.back_propagate(st, nm)
            elif kind == 'pow2':
                if truth:
                    a = BV(len(payload), payload)
                    self.narrow(st, a, 1, 1 << (len(payload) - 1))
            elif kind in ('ult', 'ule'):
                a = BV(len(payload[0]), payload[0])
                b = BV(len(payload[1]), payload[1])
                strict = kind == 'ult'
                if truth:
                    st.rel.append((strict, a, b))
                else:
                    st.rel.append((not strict, b, a))
                self.propagate(st)
            return not st.dead
        if t == 'and':
            if val == 1:
                for x in bit[1]:
                    if not self.assume(st, x, 1):
                        return False
                return True
            st.facts[bit] = 0
            # a conjunction of literals of one symbol covering all its unknown bits from some position up is `x >> k == c`: its negation
            # removes those values from x's range
            atoms = list(bit[1])
            if atoms and all(isinstance(x, tuple) and x[0] == 'v' for x in atoms) and len({x[1] for x in atoms}) == 1:
                name = atoms[0][1]
                pos = sorted(x[2] for x in atoms)
                shift = pos[0]
                full = self.reduce_bits(st, BV.sym(64, name)).bits
                up = full[shift + len(pos):]
                if name in st.rng and pos == list(range(shift, shift + len(pos))) and all(b in (0, 1) for b in up):
                    c = sum((0 if x[3] else 1) << (x[2] - shift) for x in atoms) | (sum(b << i for i, b in enumerate(up)) << len(pos))
                    self.exclude_slice_value(st, BV(64, list(full[shift:]) + [0] * shift), c)
            return not st.dead
        if t == 'or':
            if val == 0:
                for x in bit[1]:
                    if not self.assume(st, x, 0):
                        return False
                return True
            st.facts[bit] = 1
            return True
        return True

    def apply_env(self, st, env):
        if not env:
            return
        penv = st.facts
        st.env.update(env)

        def fb(bv):
            ch = False
            nb = []
            for x in bv.bits:
                y = subst_bit(x, env, penv) if x not in (0, 1, TOP) else x
                if y is not x and y != x:
                    ch = True
                nb.append(y)
            if not ch:
                return bv
            aff = bv.aff
            r = BV(bv.w, nb, bv.signed, aff if TOP in nb else None, bv.nw)
            return r
        for k in list(st.mem):
            v = st.mem[k]
            nv = map_value(v, fb)
            if nv is not v:
                st.mem[k] = nv
        # facts: re-key
        nf = {}
        for k, tv in st.facts.items():
            if isinstance(k, tuple) and k and k[0] in ('p', 'v'):
                nb = subst_bit((k[0], k[1], k[2], False), env, None)
                if nb in (0, 1):
                    if nb != tv:
                        st.dead = True
                    continue
                if is_atom(nb):
                    nf[atom_key(nb)] = (1 - tv) if nb[3] else tv
                    continue
            nf[k] = tv
        st.facts = nf
        # ranges of symbols whose bits got fixed
        for (s, i), c in env.items():
            if s in st.rng and c in (0, 1):
                out = []
                for a, b in st.rng[s]:
                    out += _restrict_bit(a, b, i, c)
                st.rng[s] = out
                if not out:
                    st.dead = True
        st.rel = [(s, map_value(a, fb), map_value(b, fb)) for s, a, b in st.rel]
        for s in {k[0] for k in env if k[0] in st.defs}:
            self.back_propagate(st, s)
        if st.rel and not st.dead and any(k[0] in st.rng for k in env):
            self.propagate(st)

    def resub(self, st, v):
        """re-evaluate a value captured before refinements of `st` (literal substitutions and facts)"""
        env, penv = st.env, st.facts
        if not env and not penv:
            return v

        def fb(bv):
            nb = tuple(subst_bit(x, env, penv) if x not in (0, 1, TOP) else x for x in bv.bits)
            if nb == bv.bits:
                return self.norm(st, bv)
            return self.norm(st, BV(bv.w, nb, bv.signed, bv.aff if TOP in nb else None, bv.nw))
        return map_value(v, fb)

    def narrow(self, st, bv, lo=None, hi=None, prop=True):
        n = self.sym_of(bv, st)
        if n is None:
            # x << k (k zeros, then the bits of one symbol from bit 0 up, then zeros): bounds on it are bounds on x - provided the bits
            # of x that fell off the top are known to be zero (x's range fits the slice)
            k = 0
            while k < bv.w and bv.bits[k] == 0:
                k += 1
            m = 0
            nm = None
            while k + m < bv.w and isinstance(bv.bits[k + m], tuple) and bv.bits[k + m][0] == 'v' and not bv.bits[k + m][3] and bv.bits[k + m][2] == m and \
                    (nm is None or bv.bits[k + m][1] == nm):
                nm = bv.bits[k + m][1]
                m += 1
            if nm is not None and 0 < k and m > 0 and all(b == 0 for b in bv.bits[k + m:]):
                r = st.rng.get(nm)
                if r and max(y for _, y in r) < (1 << m):
                    x = self.reduce_bits(st, BV.sym(bv.w, nm))
                    self.narrow(st, x, None if lo is None else ((lo + (1 << k) - 1) >> k), None if hi is None else (hi >> k), prop)
                return
            # !x on the low m bits (`mask - x` for x <= mask = 2^m - 1, what `MAX - len` is when MAX is all ones): bounds mirror
            m = 0
            nm = None
            while m < bv.w and isinstance(bv.bits[m], tuple) and bv.bits[m][0] == 'v' and bv.bits[m][3] and bv.bits[m][2] == m and (nm is None or bv.bits[m][1] == nm):
                nm = bv.bits[m][1]
                m += 1
            if nm is not None and m > 0 and all(b == 0 for b in bv.bits[m:]):
                r = st.rng.get(nm)
                mask = (1 << m) - 1
                if r and max(y for _, y in r) <= mask:
                    x = self.reduce_bits(st, BV.sym(bv.w, nm))
                    self.narrow(st, x, None if hi is None else max(mask - hi, 0), None if lo is None else mask - lo, prop)
            return
        z = bv.low_zeros()
        out = []
        for a, b in self.rng_of(st, bv):
            if lo is not None:
                a = max(a, lo)
            if hi is not None:
                b = min(b, hi)
            a = ((a + (1 << z) - 1) >> z) << z
            b = (b >> z) << z
            if a <= b:
                out.append((a, b))
        changed = st.rng.get(n) != out
        st.rng[n] = out
        if not out:
            st.dead = True
        elif changed:
            # fix bits decided by the new range everywhere
            lo2, hi2 = min(a for a, b in out), max(b for a, b in out)
            env = {}
            for i in range(bv.w - 1, -1, -1):
                if (lo2 >> i) == (hi2 >> i):
                    if bv.bits[i] not in (0, 1):
                        env[(n, i)] = (lo2 >> i) & 1
                else:
                    break
            if env:
                self.apply_env(st, env)
            self.back_propagate(st, n)
            if prop:
                self.propagate(st)

    def exclude_slice_value(self, st, d, c):
        """d is bits [shift..) of one symbol (zero-extended) and is known to differ from the constant c"""
        name, shift = self.slice_of(d)
        if name is None or shift is None or shift < 0 or st.dead:
            return
        full = self.reduce_bits(st, BV.sym(64, name)).bits
        if not all(d.bits[i] == (full[shift + i] if shift + i < 64 else 0) for i in range(d.w)):
            return
        xr = st.rng.get(name)
        if not xr:
            return
        lo, hi = c << shift, ((c + 1) << shift) - 1
        rem = []
        for a, b in xr:
            if hi < a or lo > b:
                rem.append((a, b))
                continue
            if a < lo:
                rem.append((a, lo - 1))
            if b > hi:
                rem.append((hi + 1, b))
        if rem == list(xr):
            return
        if not rem:
            st.dead = True
            return
        st.rng[name] = rem
        self.narrow(st, BV.sym(64, name), None, None)

    def back_propagate(self, st, n):
        """a result symbol defined exactly as c*x + k bounds its operand x"""
        d = st.defs.get(n)
        r = st.rng.get(n)
        if d is None or not d[2] or len(d[0].terms) != 1 or st.dead or not r:
            return
        (xs, xlo, xhi), c = next(iter(d[0].terms.items()))
        k = d[0].const
        if c == 0:
            return
        neg = c < 0
        if neg:
            c = -c
        if xlo != 0:
            # c * x[lo..hi] with x's low `lo` bits known zero is (c >> lo) * x
            if c % (1 << xlo) or not all(st.env.get((xs, i)) == 0 for i in range(xlo)):
                return
            c >>= xlo
        xr = st.rng.get(xs)
        whole = xhi >= 64 or (xr and max(y for _, y in xr) < (1 << xhi))
        if not whole:
            return
        lo2, hi2 = min(a for a, _ in r), max(b for _, b in r)
        if neg:
            # n = k - c*x (`free = MAX - len`): bounds on n bound x from the other side
            nlo = -(-(k - hi2) // c)
            nhi = (k - lo2) // c
        else:
            nlo = -(-(lo2 - k) // c)
            nhi = (hi2 - k) // c
        cur = xr or [(0, (1 << 64) - 1)]
        if nlo > min(a for a, _ in cur) or nhi < max(b for _, b in cur):
            self.narrow(st, self.reduce_bits(st, BV.sym(64, xs)), max(nlo, 0), nhi, prop=False)

    def propagate(self, st):
        for _ in range(8):
            before = dict(st.rng)
            for strict, a, b in st.rel:
                a = self.norm(st, a)
                b = self.norm(st, b)
                ra, rb = self.rng_of(st, a), self.rng_of(st, b)
                if not ra or not rb:
                    st.dead = True
                    return
                bmax = max(y for _, y in rb)
                if bmax - (1 if strict else 0) < 0:
                    st.dead = True
                    return
                self.narrow(st, a, hi=bmax - (1 if strict else 0), prop=False)
                ra = self.rng_of(st, self.norm(st, a))
                if not ra:
                    st.dead = True
                    return
                self.narrow(st, b, lo=min(x for x, _ in ra) + (1 if strict else 0), prop=False)
                if st.dead:
                    return
            if before == st.rng:
                break

    # ------------------------------------------------------------------ running functions
    class Frame:
        __slots__ = ('id', 'f', 'sub', 'consts', 'stop')

        def __init__(self, id, f, sub, consts=None, stop=None):
            self.id = id
            self.f = f
            self.sub = sub
            self.consts = consts
            self.stop = stop     # blocks at which a segment run ends (Outcome kind 'stop')

    def run(self, name, args, st=None, sub=None, consts=None, keep_locals=False):
        f = self.fn.get(name)
        if f is None:
            raise Unsupported('no such function ' + name)
        top = self.depth == 0
        if top:
            Interp.ENTRIES.add(name)
        outs = self.run_fn(f, args, st if st is not None else State(), sub, consts, keep_locals=keep_locals)
        if top and self.merge_diamonds and not keep_locals and len(outs) > 1:
            outs = merge_diamonds(outs, self)
        if keep_locals:
            for o in outs:
                o.frame = self.last_top_frame
        return outs

    unroll_limit = 24      # iterations a loop may be executed concretely before it is summarised instead (0: always summarise)
    merge_calls = True     # the same join at the return of every inlined call
    merge_diamonds = True  # join returning paths that differ only in the value of one tested bit (see merge_diamonds below)
    INVARIANTS_USED = set()   # value types some interpretation of this process assumed the representation invariant of
    ASM_TOUCHED = set()  # (function, location) of every inline-asm block an interpretation of this process executed
    ENTRIES = set()      # functions a rule started an interpretation at (audit: which anchors are private names)
    TOUCHED = set()      # names of every function body entered by any interpreter of this process (coverage accounting)

    def run_fn(self, f, args, st, sub=None, consts=None, keep_locals=False):
        Interp.TOUCHED.add(f['name'])
        self.depth += 1
        if self.depth > self.max_depth:
            self.depth -= 1
            raise Unsupported('inlining depth exceeded at ' + f['name'])
        fid = next(self.counter)
        fr = Interp.Frame(fid, f, sub or {}, consts)
        if self.depth == 1:
            self.last_top_frame = fid
        if len(args) != f['argc']:
            self.depth -= 1
            raise Unsupported('arity mismatch calling %s: %d args for %d params' % (f['name'], len(args), f['argc']))
        for i, a in enumerate(args):
            st.mem[('L', fid, i + 1)] = a
        try:
            outs = self.exec_block(fr, 0, st, frozenset())
        finally:
            self.depth -= 1
        # drop the frame's locals (promoted bodies return references to theirs)
        for o in ([] if keep_locals else outs):
            m = o.st.mem
            for k in [k for k in m if k[0] == 'L' and k[1] == fid]:
                del m[k]
        return outs

    def run_segment(self, f, start, stop, st, locals_, sub=None, consts=None, fid=None):
        """interpret the part of `f` from block `start` up to (not including) any block in `stop`; `locals_` maps
        local index -> value for the locals live on entry. Outcomes: 'stop' (val = block reached), 'ret', 'panic'...
        The frame's locals are kept (o.frame); passing the `fid` of an earlier segment continues in that frame
        (its locals are whatever `st` holds for it)."""
        self.depth += 1
        Interp.TOUCHED.add(f['name'])
        if fid is None:
            fid = next(self.counter)
        fr = Interp.Frame(fid, f, sub or {}, consts, stop=frozenset(stop))
        for i, a in locals_.items():
            st.mem[('L', fid, i)] = a
        try:
            outs = self.exec_block(fr, start, st, frozenset())
        finally:
            self.depth -= 1
        for o in outs:
            o.frame = fid
        return outs

    def loops_of(self, f):
        """loop headers of a function -> set of locals assigned in the loop body (natural loops of DFS back edges)"""
        lp = f.get('_loops')
        if lp is not None:
            return lp
        blocks = f['blocks']
        succ = {}
        for i, b in enumerate(blocks):
            t = b['t']
            out = []
            if t:
                k = t['k']
                if k in ('goto', 'drop', 'assert'):
                    out = [t['t']]
                elif k == 'switch':
                    out = [x[1] for x in t['ts']] + [t['o']]
                elif k == 'call':
                    out = [t['t']] if t['t'] is not None else []
                elif k == 'asm':
                    out = list(t['ts'])
            succ[i] = [x for x in out if not blocks[x].get('cleanup')]
        back = []
        color = {}
        stack = [(0, iter(succ[0]))]
        color[0] = 1
        while stack:
            n, it = stack[-1]
            adv = False
            for m in it:
                if color.get(m, 0) == 0:
                    color[m] = 1
                    stack.append((m, iter(succ[m])))
                    adv = True
                    break
                if color.get(m) == 1:
                    back.append((n, m))
            if not adv:
                color[n] = 2
                stack.pop()
        pred = {}
        for a, outs in succ.items():
            for b2 in outs:
                pred.setdefault(b2, []).append(a)
        lp = {}
        for src, hdr in back:
            body = {hdr}
            work = [src]
            while work:
                x = work.pop()
                if x in body:
                    continue
                body.add(x)
                work.extend(pred.get(x, []))
            assigned = lp.setdefault(hdr, set())
            for bi2 in body:
                b = blocks[bi2]
                for s_ in b['s']:
                    if s_['k'] in ('assign', 'setdiscr'):
                        assigned.add(s_['pl']['l'])
                t = b['t']
                if t and t['k'] == 'call':
                    assigned.add(t['dest']['l'])
                if t and t['k'] == 'asm':
                    for o in t['ops']:
                        if o.get('pl'):
                            assigned.add(o['pl']['l'])
        f['_loops'] = lp
        return lp

    def havoc_loop(self, fr, st, hdr, assigned):
        """widen at a loop header: every local assigned in the loop body gets a fresh symbolic value"""
        n = next(self.counter)
        before = {}
        for l in sorted(assigned):
            loc = ('L', fr.id, l)
            if l == 0 or loc not in st.mem:
                # not yet initialised at the header: a temporary of the body
                continue
            before[l] = st.mem[loc]
            t = self.subst_ty(fr.f['locals'][l], fr.sub)
            try:
                st.mem[loc] = self.sym_value(t, 'loop%d._%d' % (n, l), st)
            except Unsupported:
                st.mem[loc] = Opaque('loop%d._%d' % (n, l))
        st.events.append(('loop-head', fr.f['name'], hdr, n, before))

    def exec_block(self, fr, bi, st, visiting):
        f = fr.f
        while True:
            if fr.stop is not None and bi in fr.stop:
                return [Outcome(st, 'stop', bi)]
            if bi in visiting:
                u = self._unrolling.get((fr.id, bi))
                if u is not None:
                    # a loop being unrolled: the next iteration starts from this path's own state
                    u[0] += 1
                    if u[0] > self.unroll_limit:
                        raise _UnrollAbort((fr.id, bi))
                    visiting = u[1]
                else:
                    return self.loop_reentry(fr, bi, st, visiting)
            lp = self.loops_of(f)
            if bi in lp:
                key = (fr.id, bi)
                if key in self._unrolling:
                    self._unrolling[key][1] = visiting
                elif self.unroll_limit:
                    # loops whose trip count the path decides (`for i in 0..8`, a walk over four levels) are executed iteration by
                    # iteration; when that does not end within the limit the attempt is discarded and the loop is summarised as before
                    # (header widening, one iteration, `loop` outcome)
                    self._unrolling[key] = [0, visiting]
                    try:
                        outs = self.exec_block(fr, bi, st.clone(), visiting)
                        if len(outs) <= 4 * self.unroll_limit:
                            return outs
                    except _UnrollAbort as ua:
                        if ua.args[0] != key:
                            raise
                    finally:
                        self._unrolling.pop(key, None)
                    self.havoc_loop(fr, st, bi, lp[bi])
                else:
                    self.havoc_loop(fr, st, bi, lp[bi])
            self.stats['blocks'] += 1
            blk = f['blocks'][bi]
            visiting = visiting | {bi}
            for s in blk['s']:
                sk = s['k']
                if sk == 'assign':
                    dt = self.place_ty(f, s['pl'], fr.sub)
                    v = self.rvalue(st, fr, s['rv'], dt, blk['t'].get('loc') if blk['t'] else None)
                    self.write_place(st, fr, s['pl'], v)
                elif sk == 'setdiscr':
                    raise Unsupported('SetDiscriminant')
                elif sk == 'intrinsic':
                    if 'assume' in s.get('dbg', '').lower():
                        continue
                    raise Unsupported('intrinsic statement ' + s.get('dbg', '')[:40])
            t = blk['t']
            k = t['k']
            if k == 'goto':
                bi = t['t']
                continue
            if k == 'drop':
                bi = t['t']
                continue
            if k == 'return':
                self.stats['paths'] += 1
                return [Outcome(st, 'ret', st.mem.get(('L', fr.id, 0), UNIT))]
            if k == 'unreachable':
                return []
            if k == 'assert':
                c = self.operand(st, fr, t['c'])
                c = self.apply_facts(st, c) if isinstance(c, BV) else c
                exp = 1 if t['exp'] else 0
                if isinstance(c, BV) and c.is_const():
                    if c.value() == exp:
                        bi = t['t']
                        continue
                    st.events.append(('panic', 'assert:' + t['ak'], t['loc'], f['name']))
                    return [Outcome(st, 'panic', ('assert:' + t['ak'], t['loc']))]
                outs = []
                s2 = st.clone()
                if self.assume(s2, c.bits[0], 1 - exp) and not s2.dead:
                    s2.events.append(('panic', 'assert:' + t['ak'], t['loc'], f['name']))
                    outs.append(Outcome(s2, 'panic', ('assert:' + t['ak'], t['loc'])))
                if self.assume(st, c.bits[0], exp) and not st.dead:
                    outs = self.exec_block(fr, t['t'], st, visiting) + outs
                return outs
            if k == 'switch':
                lit_ = _literal_bool_switch(blk) if self.cfg_fork else None
                if lit_ is not None:
                    # `cfg!(debug_assertions)` (debug_assert!, `if cfg!(..)`) is a literal boolean in this build's MIR and the opposite
                    # literal in an optimised build. Both profiles are explored so that every obligation holds in both: the path of
                    # the other profile in full, and from this profile's path only the panics it adds (a debug-only block is taken to
                    # have no effect but to panic, so its non-panicking continuations are those of the other profile's path).
                    taken = t['o']
                    for v, tgt in t['ts']:
                        if int(v, 16) == lit_:
                            taken = tgt
                    others = [tgt for tgt in dict.fromkeys([tt for _, tt in t['ts']] + [t['o']]) if tgt != taken]
                    if len(others) == 1:
                        s_rel = st.clone()
                        s_rel.notes.append(('cfg(debug_assertions)', 1 - lit_, t['loc']))
                        outs_rel = self.exec_block(fr, others[0], s_rel, visiting)
                        st.notes.append(('cfg(debug_assertions)', lit_, t['loc']))
                        outs_dbg = self.exec_block(fr, taken, st, visiting)
                        # Panics that only the debug-assertions profile adds are the failures of `debug_assert!`s. They are not turned into
                        # outcomes: such an assertion states an invariant its author holds to be unreachable, the domains here cannot always
                        # re-prove it (`(a | m) + 1 > a`), and reporting it would be an alarm on code whose behaviour in the property's terms
                        # is that of the other profile. They are counted (stats['debug-only panics']) so that the evidence shows them.
                        extra = [o for o in outs_dbg if o.kind == 'panic' and repr(o.val) not in {repr(x.val) for x in outs_rel if x.kind == 'panic'}]
                        self.stats['debug-only panics'] = self.stats.get('debug-only panics', 0) + len(extra)
                        return outs_rel
                return self.switch(fr, t, st, visiting)
            if k == 'call':
                return self.call_term(fr, t, st, visiting)
            if k == 'asm':
                return self.asm_term(fr, t, st, visiting)
            if k in ('resume', 'terminate'):
                return []
            raise Unsupported('terminator %s in %s' % (k, f['name']))

    def loop_reentry(self, fr, bi, st, visiting):
        """back edge: the path summary ends here (one iteration of the body from the widened header state)"""
        st.events.append(('loop-back', fr.f['name'], bi))
        return [Outcome(st, 'loop', bi)]

    def switch(self, fr, t, st, visiting):
        d = self.operand(st, fr, t['d'])
        if isinstance(d, Enum):
            d = self.inner_or_disc(d)
        if not isinstance(d, BV):
            raise Unsupported('switch on %r in %s' % (d, fr.f['name']))
        d = self.norm(st, d)
        d = self.apply_facts(st, d)
        targets = [(int(v, 16), b) for v, b in t['ts']]
        if d.is_const():
            v = d.value()
            for val, tgt in targets:
                if val == v:
                    return self.exec_block(fr, tgt, st, visiting)
            return self.exec_block(fr, t['o'], st, visiting)
        outs = []
        if d.w == 1:
            for val in (0, 1):
                tgt = None
                for v2, tg in targets:
                    if v2 == val:
                        tgt = tg
                if tgt is None:
                    tgt = t['o']
                s2 = st.clone() if val == 0 else st
                if self.assume(s2, d.bits[0], val) and not s2.dead:
                    s2.notes.append((fmt_bit(d.bits[0]), val, t['loc']))
                    s2.events.append(('branch', d.bits[0], val, t['loc'], fr.f['name']))
                    outs += self.exec_block(fr, tgt, s2, visiting)
            return outs
        # multiway on a wider value
        name, shift = self.slice_of(d)
        width = max((i for i, b in enumerate(d.bits) if b not in (0, 1)), default=-1) + 1
        xr = None
        if name is not None:
            xr = st.rng.get(name) or [(0, (1 << 64) - 1)]
            # interval reasoning on the switch needs d == sym >> shift: every bit of d must be the symbol's bit there
            full = self.reduce_bits(st, BV.sym(64, name)).bits if shift is not None and shift >= 0 else None
            if full is None or not all(d.bits[i] == (full[shift + i] if shift + i < 64 else 0) for i in range(d.w)):
                name = None
        taken = []
        varbits = [(i, b) for i, b in enumerate(d.bits) if b not in (0, 1)]
        single = varbits[0] if len(varbits) == 1 and isinstance(varbits[0][1], tuple) and varbits[0][1][0] == 'v' else None
        for val, tgt in targets:
            if any(b in (0, 1) and b != (val >> i) & 1 for i, b in enumerate(d.bits)):
                continue
            if val >> d.w:
                continue
            s2 = st.clone()
            env = {}
            ok = True
            for i, b in enumerate(d.bits):
                want = (val >> i) & 1
                if b in (0, 1):
                    continue
                if isinstance(b, tuple) and b[0] == 'v':
                    k2 = (b[1], b[2])
                    c = (1 - want) if b[3] else want
                    if k2 in env and env[k2] != c:
                        ok = False
                        break
                    env[k2] = c
            if not ok:
                continue
            taken.append(val)
            self.apply_env(s2, env)
            if s2.dead:
                continue
            s2.notes.append(('%s' % fmt_bits(d.bits), val, t['loc']))
            if any(b == TOP or (isinstance(b, tuple) and b[0] != 'v') for b in d.bits):
                s2.facts[('sw', d.key())] = val
            if single is not None:
                # a value with one unknown bit (`x & FLAG`): the switch is a test of that bit
                s2.events.append(('branch', single[1], (val >> single[0]) & 1, t['loc'], fr.f['name']))
            outs += self.exec_block(fr, tgt, s2, visiting)
        # a discriminant built from a few input bits (sign-extension copies of one bit, `x >> 47` of a canonical address): when every
        # value those bits can produce has its own arm, there is no `otherwise`
        if varbits and all(isinstance(b, tuple) and b[0] == 'v' for _, b in varbits):
            keys = sorted({(b[1], b[2]) for _, b in varbits})
            if len(keys) <= 6:
                feas = set()
                for asg in itertools.product((0, 1), repeat=len(keys)):
                    m = dict(zip(keys, asg))
                    v = 0
                    for i, b in enumerate(d.bits):
                        if b == 1:
                            v |= 1 << i
                        elif b != 0:
                            bit = m[(b[1], b[2])]
                            v |= ((1 - bit) if b[3] else bit) << i
                    feas.add(v)
                if feas <= set(taken):
                    return outs
        # otherwise arm
        s2 = st
        if name is not None and shift >= 0:
            rem = list(xr)
            for val in taken:
                lo, hi = val << shift, ((val + 1) << shift) - 1
                nr = []
                for a, b in rem:
                    if hi < a or lo > b:
                        nr.append((a, b))
                        continue
                    if a < lo:
                        nr.append((a, lo - 1))
                    if b > hi:
                        nr.append((hi + 1, b))
                rem = nr
            # values of d are limited to width bits above shift
            if not rem:
                return outs
            s2.rng[name] = rem
            self.narrow(s2, BV.sym(64, name), None, None)
        elif len(taken) >= (1 << width) and width > 0:
            return outs
        if single is not None and not s2.dead:
            # the one unknown bit takes the value no listed target has
            base = sum(b << i for i, b in enumerate(d.bits) if b in (0, 1))
            left = [v for v in (0, 1) if (base | (v << single[0])) not in taken]
            if not left:
                return outs
            if len(left) == 1:
                if not self.assume(s2, single[1], left[0]) or s2.dead:
                    return outs
                s2.events.append(('branch', single[1], left[0], t['loc'], fr.f['name']))
        if not s2.dead:
            s2.notes.append(('%s' % fmt_bits(d.bits), 'otherwise:' + ','.join('%#x' % v for v in taken[:8]), t['loc']))
            s2.facts[('swnot', d.key())] = tuple(taken)
            outs += self.exec_block(fr, t['o'], s2, visiting)
        return outs

    def slice_of(self, d):
        """(symbol, shift) when d is bits [shift..) of one symbol (zero-extended)"""
        name = None
        k = None
        for i, b in enumerate(d.bits):
            if b in (0, 1):
                continue
            if b == TOP or b[0] != 'v' or b[3]:
                return None, None
            if name is None:
                name, k = b[1], b[2] - i
            elif name != b[1] or b[2] - i != k:
                return None, None
        if name is None:
            return None, None
        return name, k

    # ------------------------------------------------------------------ calls
    def callee_target(self, fr, c):
        """resolved callee: (target name, generic args after substitution, resolved?)"""
        res = c.get('res')
        if res:
            return res['name'], [self.subst_ty(g, fr.sub) for g in res.get('gargs', [])], True
        # unresolved at the caller's genericity: trait method on a type parameter
        targs = [self.subst_ty(g, fr.sub) for g in c.get('targs', [])]
        if c.get('trait') and targs and targs[0].get('k') != 'param':
            m = self.lookup_impl(c['trait'], c['name'].split('::')[-1], targs)
            if m is not None:
                return m, self.impl_generic_args(m, targs), True
            # no impl item: the trait's provided (default) body with Self := the concrete type
            d = self.fn.get(c['name'])
            if d is not None and d['generics'] and d['generics'][0] == 'Self' and c['name'] not in self.opaque_fns and \
                    any(im['trait'] == c['trait'] and _self_matches(im['self'], targs[0]) for im in self.impls):
                return c['name'], targs, True
        return c['name'], targs, False

    def impl_generic_args(self, path, targs):
        """generic arguments of the impl method `path` when it is selected for `<targs[0] as Trait<targs[1..]>>::method::<..>`: the
        impl's own parameters are read off by matching its Self type against the concrete one, the method's own parameters are the
        trailing trait-call arguments"""
        f = self.fn.get(path)
        if f is None:
            return targs
        im = None
        for x in self.impls:
            if any(it['path'] == path for it in x['items']):
                im = x
                break
        if im is None:
            return targs
        binding = {}
        _unify_ty(im['self'], targs[0], binding)
        gens = [g for g in f['generics']]
        free = [g for g in gens if not g.startswith("'") and g not in binding]
        tail = [t for t in targs if t.get('k') != 'lifetime']
        tail = tail[len(tail) - len(free):] if free and len(tail) >= len(free) else []
        if free and len(tail) != len(free):
            return targs
        out = []
        it = iter(tail)
        for g in gens:
            if g.startswith("'"):
                out.append({'k': 'lifetime'})
            elif g in binding:
                out.append(binding[g])
            else:
                out.append(next(it))
        return out

    def lookup_impl(self, trait, method, targs):
        st = targs[0]
        cands = []
        for im in self.impls:
            if im['trait'] != trait:
                continue
            if not _self_matches(im['self'], st):
                continue
            cands.append(im)
        if len(cands) > 1 and len(targs) > 1:
            # select by the trait's own type arguments, e.g. Mapper<Size4KiB>, Sub<u64> / Sub<Page<S>>
            c2 = [im for im in cands if 'targs' in im and len(im['targs']) <= len(targs) - 1 and
                  all(_self_matches(a, b) for a, b in zip(im['targs'], targs[1:]))]
            if c2:
                cands = c2
            else:
                want = _ty_str(targs[1])
                c2 = [im for im in cands if want in im['traitref']]
                if c2:
                    cands = c2
        if len(cands) >= 1:
            for it in cands[0]['items']:
                if it['name'] == method:
                    return it['path']
        return None

    def call_term(self, fr, t, st, visiting):
        fo = self.operand(st, fr, t['f'])
        args = [self.operand(st, fr, a) for a in t['args']]
        argtys = [self.operand_ty(fr, a) for a in t['args']]
        dest_ty = self.place_ty(fr.f, t['dest'], fr.sub)
        loc = t['loc']
        if not isinstance(fo, FnItem):
            outs = self.indirect_call(st, fr, fo, args, argtys, dest_ty, loc)
        else:
            outs = self.call(st, fr, fo.c, args, argtys, dest_ty, loc)
        res = []
        for o in outs:
            if o.kind != 'ret':
                res.append(o)
                continue
            if t['t'] is None:
                res.append(Outcome(o.st, 'diverge', None))
                continue
            if o.st.dead:
                continue
            self.write_place(o.st, fr, t['dest'], o.val)
            res += self.exec_block(fr, t['t'], o.st, visiting)
        return res

    def indirect_call(self, st, fr, fo, args, argtys, dest_ty, loc):
        st.events.append(('call', 'indirect:' + repr(fo), tuple(args), loc, fr.f['name']))
        return self.fresh_result(st, dest_ty, 'indirect')

    def call(self, st, fr, c, args, argtys, dest_ty, loc):
        self.stats['calls'] += 1
        target, gargs, resolved = self.callee_target(fr, c)
        name = c['name']
        if target.startswith(PANIC_PREFIXES) or name.startswith(PANIC_PREFIXES):
            msg = self.panic_message(st, target, args)
            st.events.append(('panic', msg, loc, fr.f['name']))
            return [Outcome(st, 'panic', (msg, loc))]
        if 'constructor' in str((c.get('res') or {}).get('inst', '')):
            # a tuple-struct / variant constructor used as a function (`opt.map(PhysAddr)`): it builds exactly that value - never an
            # opaque call whose result could be given the type's invariant
            if any(a_['name'] == target for a_ in self.facts.get('adts', [])):
                return [Outcome(st, 'ret', Struct(target, list(args)))]
            if '::' in target:
                en, vn = target.rsplit('::', 1)
                vs = self.enum_variants({'k': 'adt', 'name': en, 'args': []})
                if vs is None:
                    for l_ in self.facts['layouts']:
                        if l_['ty'].get('name') == en and 'variants' in l_:
                            vs = [(v['name'], int(v['discr'], 16), v['nfields']) for v in l_['variants']]
                            break
                if vs:
                    for i_, v_ in enumerate(vs):
                        if v_[0] == vn:
                            return [Outcome(st, 'ret', Enum(en, i_, vn, list(args)))]
            raise Unsupported('constructor %s used as a function' % target)
        ctx = CallCtx(self, st, fr, c, target, gargs, args, argtys, dest_ty, loc)
        m = self.models.get(target)
        if m is None and not (resolved and target in self.fn):
            # the model of a trait method by its generic name (`From::from`) only when the call does not resolve to the crate's own impl
            m = self.models.get(name)
        if m is None:
            for pat, fn_ in self.pattern_models:
                if pat.search(target):
                    m = fn_
                    break
        if m is not None:
            r = m(ctx)
            return self._norm_outs(st, r)
        f = self.fn.get(target)
        if f is not None and resolved and target not in self.opaque_fns:
            sub = {}
            consts = fr.consts
            for g, a in zip(f['generics'], gargs_for(f, gargs)):
                sub[g] = a
                if a.get('k') == 'constarg':
                    # a const generic argument: a literal (`2_usize`, `true`) or one of the caller's own const parameters (`MAX/#0`)
                    v = const_arg_value(a.get('s', ''), fr.consts)
                    if v is not None:
                        if consts is fr.consts:
                            consts = dict(fr.consts or {})
                        consts[g] = v
            if self.trace_calls:
                cid = next(self.counter)
                st.events.append(('icall', target, tuple(args), loc, fr.f['name'], cid))
                outs = self.run_fn(f, args, st, sub, consts)
                if len(outs) > 1 and self.merge_calls:
                    outs = merge_diamonds(outs, self)
                for o in outs:
                    if o.kind == 'ret':
                        o.st.events.append(('iret', target, o.val, cid))
                return outs
            outs = self.run_fn(f, args, st, sub, consts)
            if len(outs) > 1 and self.merge_calls:
                outs = merge_diamonds(outs, self)
            return outs
        # opaque: unknown callee or trait method on a type parameter
        return self.opaque_call(ctx)

    def _norm_outs(self, st, r):
        if isinstance(r, list):
            return r
        return [Outcome(st, 'ret', r)]

    def panic_message(self, st, target, args):
        short = target.split('::')[-1]
        return 'panic:' + short

    def opaque_call(self, ctx):
        st = ctx.st
        tag = ctx.target.split('::')[-1]
        n = next(self.counter)
        st.events.append(('call', ctx.target, tuple(ctx.args), ctx.loc, ctx.fr.f['name'], n, self.snapshot(st, ctx.args)))
        # mutable reference arguments are havocked
        def havoc(a, t):
            if isinstance(a, Ref) and t.get('k') == 'ref' and t.get('mut') and t['to'].get('k') in ('adt', 'uint', 'int', 'tuple'):
                try:
                    nv = self.sym_value(t['to'], self.fresh('havoc'), st)
                    self._store_at(st, a.loc, a.path, nv)
                except Unsupported:
                    pass
            elif isinstance(a, Struct) and a.name == 'tuple' and t.get('k') == 'tuple':
                for x, tx in zip(a.fields, t['elems']):
                    havoc(x, tx)
        for a, t in zip(ctx.args, ctx.argtys):
            havoc(a, t)
        return self.fresh_result(st, ctx.dest_ty, '%s#%d' % (tag, n))

    def snapshot(self, st, args):
        """values behind reference arguments at the time of an opaque call"""
        out = []
        for a in args:
            if isinstance(a, (Ref, Ptr)):
                try:
                    out.append(self.load(st, a))
                except Unsupported:
                    out.append(None)
            elif isinstance(a, Struct) and a.name == 'tuple':
                out.append(tuple(self.snapshot(st, a.fields)))
            else:
                out.append(None)
        return out

    def fresh_result(self, st, rt, tag):
        k = rt.get('k')
        if k == 'adt' and rt['name'] in ('core::option::Option', 'core::result::Result'):
            outs = []
            vs = self.enum_variants(rt)
            for i, (vn, d, nf) in enumerate(vs):
                s2 = st.clone() if i < len(vs) - 1 else st
                s2.events.append(('opaque-result', tag, vn))
                if nf:
                    argi = 0 if (rt['name'].endswith('Option') or vn == 'Ok') else 1
                    inner_t = rt['args'][argi]
                    inners = self.fresh_result(s2, inner_t, tag + '.' + vn)
                    for o in inners:
                        outs.append(Outcome(o.st, 'ret', Enum(rt['name'], i, vn, [o.val])))
                else:
                    outs.append(Outcome(s2, 'ret', Enum(rt['name'], i, vn)))
            return outs
        if k == 'adt':
            vs = self.enum_variants(rt)
            lay = self.find_layout(rt)
            if vs is not None and any(nf for _, _, nf in vs):
                # data-carrying enum of the crate: one outcome per variant, payloads unknown
                outs = []
                for i, (vn, d, nf) in enumerate(vs):
                    s2 = st.clone() if i < len(vs) - 1 else st
                    s2.events.append(('opaque-result', tag, vn))
                    outs.append(Outcome(s2, 'ret', Enum(rt['name'], i, vn, [Opaque('%s.%s.%d' % (tag, vn, j)) for j in range(nf)])))
                return outs
        if k == 'rawptr':
            return [Outcome(st, 'ret', Ptr(tag=tag))]
        if k == 'never':
            return [Outcome(st, 'diverge', None)]
        if k == 'tuple' and not rt['elems']:
            return [Outcome(st, 'ret', UNIT)]
        if k == 'tuple':
            # cross product of the element outcomes (elements may be Option / Result and split the path)
            partial = [(st, [])]
            for i, et in enumerate(rt['elems']):
                nxt = []
                for (s1, vals) in partial:
                    for o in self.fresh_result(s1, et, '%s.%d' % (tag, i)):
                        if o.kind == 'ret':
                            nxt.append((o.st, vals + [o.val]))
                partial = nxt
            return [Outcome(s1, 'ret', Struct('tuple', vals)) for s1, vals in partial]
        return [Outcome(st, 'ret', self.sym_value(rt, tag, st))]

    # ------------------------------------------------------------------ inline asm
    def asm_term(self, fr, t, st, visiting):
        tpl = ''.join(p['s'] if 's' in p else '{%d%s}' % (p['op'], (':' + p['mod']) if p['mod'] else '') for p in t['tpl'])
        ops = []
        n = next(self.counter)
        for i, o in enumerate(t['ops']):
            k = o['k']
            if k == 'in':
                v = self.operand(st, fr, o['v'])
                d = {'k': 'in', 'reg': o['reg'], 'v': v, 'ty': self.operand_ty(fr, o['v'])}
                if isinstance(v, (Ref, Ptr)):
                    try:
                        d['pointee'] = self.load(st, v)
                    except Unsupported:
                        pass
                ops.append(d)
            elif k == 'out':
                if o['pl']:
                    ty = self.place_ty(fr.f, o['pl'], fr.sub)
                    hv = self.hw_value(st, ty, 'hw%d.%d' % (n, i))
                    ops.append({'k': 'out', 'reg': o['reg'], 'v': hv, 'ty': ty, 'late': o['late']})
                else:
                    ops.append({'k': 'out', 'reg': o['reg'], 'v': None, 'ty': None, 'late': o['late']})
            elif k == 'inout':
                iv = self.operand(st, fr, o['v'])
                ty = self.operand_ty(fr, o['v'])
                hv = None
                if o['pl']:
                    oty = self.place_ty(fr.f, o['pl'], fr.sub)
                    hv = self.hw_value(st, oty, 'hw%d.%d' % (n, i))
                ops.append({'k': 'inout', 'reg': o['reg'], 'v': iv, 'out': hv, 'ty': ty, 'late': o['late']})
            elif k == 'const':
                ops.append({'k': 'const', 'v': self.const_val(st, fr, o['v'])})
            else:
                ops.append({'k': k, 'dbg': o.get('dbg')})
        Interp.ASM_TOUCHED.add((fr.f['name'], t['loc']))
        st.events.append(('asm', tpl, ops, t['opts'], t['loc'], fr.f['name'], n))
        # memory reachable through pointer operands may be written unless the block is nomem/readonly
        opts = t['opts']
        if 'NOMEM' not in opts and 'READONLY' not in opts:
            for o in ops:
                v = o.get('v')
                if isinstance(v, (Ref, Ptr)) and o['k'] in ('in', 'inout'):
                    self.asm_clobber(st, v, o, n)
        for i, o in enumerate(t['ops']):
            if o['k'] == 'out' and o['pl']:
                self.write_place(st, fr, o['pl'], ops[i]['v'])
            elif o['k'] == 'inout' and o['pl']:
                self.write_place(st, fr, o['pl'], ops[i]['out'])
        if t['ts']:
            return self.exec_block(fr, t['ts'][0], st, visiting)
        return [Outcome(st, 'diverge', None)]

    def hw_value(self, st, ty, name):
        w = ty_width(ty)
        if w:
            return BV.sym(w, name, ty_signed(ty))
        return self.sym_value(ty, name, st, None, invariants=False)

    def asm_clobber(self, st, ref, op, n):
        """an asm block that may write memory gets a fresh value behind each pointer operand it is given"""
        if isinstance(ref, Ptr):
            return
        try:
            old = self.load(st, ref)
        except Unsupported:
            return
        pt = op['ty'].get('to') if op.get('ty') else None
        if op.get('ty', {}).get('k') == 'rawptr' and not op['ty'].get('mut'):
            return
        if op.get('ty', {}).get('k') == 'ref' and not op['ty'].get('mut'):
            return
        if pt is None:
            return
        try:
            nv = self.hw_value(st, pt, 'hwmem%d' % n)
        except Unsupported:
            nv = Opaque('hwmem%d' % n)
        self._store_at(st, ref.loc, ref.path, nv)
        op['memout'] = nv


class CallCtx:
    __slots__ = ('I', 'st', 'fr', 'c', 'target', 'gargs', 'args', 'argtys', 'dest_ty', 'loc')

    def __init__(self, I, st, fr, c, target, gargs, args, argtys, dest_ty, loc):
        self.I = I
        self.st = st
        self.fr = fr
        self.c = c
        self.target = target
        self.gargs = gargs
        self.args = args
        self.argtys = argtys
        self.dest_ty = dest_ty
        self.loc = loc

    def ret(self, v, st=None):
        return Outcome(st if st is not None else self.st, 'ret', v)

    def panic(self, msg, st=None):
        st = st if st is not None else self.st
        st.events.append(('panic', msg, self.loc, self.fr.f['name']))
        return Outcome(st, 'panic', (msg, self.loc))


def _literal_bool_switch(blk):
    """value (0/1) of the literal boolean a block assigns to the local it then switches on, else None"""
    t = blk['t']
    d = t['d']
    if not (d.get('pl') and not d['pl']['p']):
        return None
    l = d['pl']['l']
    for s in blk['s']:
        if s['k'] == 'assign' and s['pl']['l'] == l and not s['pl']['p'] and s['rv']['k'] == 'use' and s['rv']['op'].get('k') == 'int' and \
                s['rv']['op']['ty'].get('k') == 'bool' and s.get('mac') in ('cfg', '$crate::cfg'):
            # the literal is the expansion of `cfg!(..)` (the driver records the innermost macro of the statement's span)
            return int(s['rv']['op']['v'], 16) & 1
    return None


def _mux_bit(x, b1, b0):
    """bit that equals b1 when literal x is 1 and b0 when it is 0, if representable"""
    if b1 == b0:
        return b1
    if b1 == 1 and b0 == 0:
        return x
    if b1 == 0 and b0 == 1:
        return b_not(x)
    # one side already is the literal (or its negation) it would become
    if b1 == 1 and b0 == x:
        return x
    if b1 == x and b0 == 0:
        return x
    nx = b_not(x)
    if b1 == 0 and b0 == nx:
        return nx
    if b1 == nx and b0 == 1:
        return nx
    return None


def _mux_value(x, v1, v0):
    if isinstance(v1, BV) and isinstance(v0, BV) and v1.w == v0.w and v1.signed == v0.signed:
        bits = []
        for a, b in zip(v1.bits, v0.bits):
            m = _mux_bit(x, a, b)
            if m is None:
                return None
            bits.append(m)
        return BV(v1.w, bits, v1.signed)
    if isinstance(v1, Struct) and isinstance(v0, Struct) and v1.name == v0.name and len(v1.fields) == len(v0.fields):
        fs = []
        for a, b in zip(v1.fields, v0.fields):
            m = _mux_value(x, a, b)
            if m is None:
                return None
            fs.append(m)
        return Struct(v1.name, fs)
    if isinstance(v1, Enum) and isinstance(v0, Enum) and v1.name == v0.name and v1.vi == v0.vi and v1.vi is not None and len(v1.fields) == len(v0.fields):
        fs = []
        for a, b in zip(v1.fields, v0.fields):
            m = _mux_value(x, a, b)
            if m is None:
                return None
            fs.append(m)
        return Enum(v1.name, v1.vi, v1.vname, fs, v1.disc)
    if isinstance(v1, Ptr) and isinstance(v0, Ptr) and v1.tag is None and v0.tag is None and v1.addr is not None and v0.addr is not None and repr(v1.off) == repr(v0.off):
        a = _mux_value(x, v1.addr, v0.addr)
        return None if a is None else Ptr(addr=a, off=v1.off)
    return v1 if repr(v1) == repr(v0) else None


def merge_diamonds(outs, I=None):
    """`if x.bit(k) { v | m } else { v & !m }` and `sign_extend(v)` are the same function; the first is explored as two returning paths.
    Two returning paths are joined into one when they assumed opposite values of ONE input bit and nothing else, had the same effects
    (events other than the branch itself), and every value they computed (result and memory) is the same or is that bit / its negation
    / the matching constants - i.e. when the join is exactly representable. Anything else is left alone."""
    def sig(o):
        return (frozenset(o.st.env.keys()), tuple(repr(e) for e in o.st.events if e[0] != 'branch'),
                repr(o.st.rel), repr(sorted(((k, v) for k, v in o.st.facts.items() if not (isinstance(k, tuple) and k and k[0] in ('sw', 'swnot'))), key=repr)),
                frozenset(o.st.mem.keys()))
    changed = True
    outs = list(outs)
    while changed:
        changed = False
        groups = {}
        for i, o in enumerate(outs):
            if o.kind == 'ret' and not o.st.dead:
                groups.setdefault(sig(o), []).append(i)
        for idx in groups.values():
            if len(idx) < 2:
                continue
            for ai in range(len(idx)):
                for bi in range(ai + 1, len(idx)):
                    o1, o2 = outs[idx[ai]], outs[idx[bi]]
                    diff = sorted(k for k in o1.st.env if o1.st.env[k] != o2.st.env[k])
                    if not diff:
                        continue
                    # one tested bit, or a group of bits tested to be all ones on one path and all zeros on the other (`x >> 47` is
                    # 0 or 0x1ffff): the join then records that the group's bits are equal
                    v1 = {o1.st.env[k] for k in diff}
                    v2 = {o2.st.env[k] for k in diff}
                    if len(v1) != 1 or len(v2) != 1 or v1 | v2 != {0, 1} or (len(diff) > 1 and I is None):
                        continue
                    if repr(sorted(o1.st.defs.items(), key=repr)) != repr(sorted(o2.st.defs.items(), key=repr)):
                        continue
                    k = diff[0]
                    if o1.st.env[k] == 0:
                        o1, o2 = o2, o1
                    x = lit(k[0], k[1])
                    val = _mux_value(x, o1.val, o2.val)
                    if val is None:
                        continue
                    mem = {}
                    ok = True
                    for loc, v in o1.st.mem.items():
                        m = _mux_value(x, v, o2.st.mem[loc])
                        if m is None:
                            ok = False
                            break
                        mem[loc] = m
                    if not ok:
                        continue
                    stn = o1.st.clone()
                    for kk in diff:
                        del stn.env[kk]
                    stn.mem = mem
                    # value ranges: the union of what the two paths knew; switch facts: those both had
                    rng = {}
                    for nm in o1.st.rng:
                        if nm in o2.st.rng:
                            iv = sorted(list(o1.st.rng[nm]) + list(o2.st.rng[nm]))
                            acc = []
                            for a, b in iv:
                                if acc and a <= acc[-1][1] + 1:
                                    acc[-1] = (acc[-1][0], max(acc[-1][1], b))
                                else:
                                    acc.append((a, b))
                            rng[nm] = acc
                    stn.rng = rng
                    stn.facts = {k2: v2 for k2, v2 in o1.st.facts.items() if k2 in o2.st.facts and repr(o2.st.facts[k2]) == repr(v2)}
                    if len(diff) > 1:
                        from .bits import eq_bit
                        rest = tuple(lit(kk[0], kk[1]) for kk in diff[1:])
                        if not I.assume(stn, eq_bit(rest, (x,) * len(rest)), 1) or stn.dead:
                            continue
                    other = set(repr(e) for e in o2.st.events)
                    stn.events = [e for e in o1.st.events if e[0] != 'branch' or repr(e) in other]
                    merged = Outcome(stn, 'ret', val)
                    keep = [o for j, o in enumerate(outs) if j not in (idx[ai], idx[bi])]
                    outs = keep + [merged]
                    changed = True
                    break
                if changed:
                    break
            if changed:
                break
    return outs


def const_arg_value(s, consts):
    m = re.match(r'^(-?\d+)_[iu](\d+|size)$', s)
    if m:
        return int(m.group(1))
    if s in ('true', 'false'):
        return 1 if s == 'true' else 0
    m = re.match(r'^(\w+)/#\d+$', s)
    if m and consts and m.group(1) in consts:
        return consts[m.group(1)]
    return None


def gargs_for(f, gargs):
    """generic args aligned with the function's generics list (lifetimes are listed in both)"""
    gens = f['generics']
    if len(gargs) == len(gens):
        return gargs
    # lifetimes may be erased from the instance args: align type params from the right
    tys = [g for g in gargs if g.get('k') != 'lifetime']
    names = [g for g in gens if not g.startswith("'")]
    out = []
    it = iter(tys)
    for g in gens:
        if g.startswith("'"):
            out.append({'k': 'lifetime'})
        else:
            out.append(next(it, {'k': 'param', 'name': g}))
    return out


def _restrict_bit(a, b, i, c):
    """sub-intervals of [a, b] whose bit i equals c"""
    out = []
    step = 1 << i
    blk = a >> (i + 1)
    while True:
        base = blk << (i + 1)
        lo = base + (step if c else 0)
        hi = lo + step - 1
        if lo > b:
            break
        if hi >= a:
            out.append((max(a, lo), min(b, hi)))
        blk += 1
        if len(out) > 64:
            return [(a, b)]
    return out


def _tykey(t):
    if not isinstance(t, dict):
        return str(t)
    k = t.get('k')
    if k == 'adt':
        return 'adt:' + t['name'] + '<' + ','.join(_tykey(a) for a in t.get('args', [])) + '>'
    if k in ('uint', 'int'):
        return '%s%d%s' % (k, t['bits'], 's' if t.get('size') else '')
    if k in ('ref', 'rawptr'):
        return '%s%s(%s)' % (k, 'm' if t.get('mut') else '', _tykey(t['to']))
    if k == 'tuple':
        return 'tuple(' + ','.join(_tykey(e) for e in t['elems']) + ')'
    if k in ('array', 'slice'):
        return '%s(%s;%s)' % (k, _tykey(t['elem']), t.get('len'))
    if k == 'param':
        return 'param:' + t['name']
    if k in ('fndef', 'closure'):
        return k + ':' + t.get('name', '')
    if k in ('fnptr', 'other'):
        return k + ':' + t.get('s', '')
    if k == 'constarg':
        return 'const:' + t.get('s', '')
    return k or '?'


def _ty_str(t):
    k = t.get('k')
    if k == 'adt':
        return t['name'] + (('<' + ', '.join(_ty_str(a) for a in t['args']) + '>') if t.get('args') else '')
    if k in ('uint', 'int'):
        return ('u' if k == 'uint' else 'i') + ('size' if t.get('size') else str(t['bits']))
    if k == 'bool':
        return 'bool'
    if k == 'param':
        return t['name']
    return t.get('s', k)


def _trait_name(tr):
    # "<Size4KiB as structures::paging::page::PageSize>" -> structures::paging::page::PageSize
    m = re.match(r'<.* as (.*?)(<.*>)?>$', tr)
    return m.group(1) if m else tr


def _unify_ty(pat, t, binding):
    """bind the type parameters of `pat` so that it equals `t` (best effort: first binding wins)"""
    k = pat.get('k')
    if k == 'param':
        binding.setdefault(pat['name'], t)
        return
    if k != t.get('k'):
        return
    if k == 'adt':
        for a, b in zip(pat.get('args', []), t.get('args', [])):
            _unify_ty(a, b, binding)
    elif k in ('ref', 'rawptr'):
        _unify_ty(pat['to'], t['to'], binding)
    elif k == 'tuple':
        for a, b in zip(pat.get('elems', []), t.get('elems', [])):
            _unify_ty(a, b, binding)
    elif k in ('array', 'slice'):
        _unify_ty(pat['elem'], t['elem'], binding)


def _self_matches(impl_self, t):
    if impl_self.get('k') == 'param':
        return True
    if impl_self.get('k') != t.get('k'):
        return False
    if t['k'] == 'adt':
        if impl_self['name'] != t['name']:
            return False
        for a, b in zip(impl_self.get('args', []), t.get('args', [])):
            if a.get('k') == 'param' or b.get('k') == 'param':
                continue
            if not _self_matches(a, b):
                return False
        return True
    return _tykey(impl_self) == _tykey(t)


def _arr_len(t):
    s = str(t.get('len'))
    m = re.search(r'0x[0-9a-f]+', s)
    if m:
        return int(m.group(0), 16)
    m = re.search(r'\b(\d+)(?:_usize)?\b', s)
    return int(m.group(1)) if m else None
