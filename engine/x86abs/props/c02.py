"""C02 - mapper errors are precise and a failed call changes no mapping."""
from spec import mapper as SM
from spec import paging as SP

from ..bits import BV, TOP, b_or, lit
from ..values import Enum, Struct
from .common import SIZES, inner, same
from .mapper import (MapperLab, compatible, flag_args, knowledge, map_args, norm_result)

LEVEL = 'other'
IMPLS = ('mapped', 'recursive')
SIZES3 = ('Size4KiB', 'Size2MiB', 'Size1GiB')


def run(chk):
    chk.trusted += ['spec/mapper.py (documented outcome per page-table state), spec/paging.py', 'page-table entries are all-zero or PRESENT (the property\'s quantifier)',
                    'PageTable::zero clears the whole table (C08); x86abs models of Option/Result/?/bitflags']
    chk.explanation = ('Decided, for both walking implementations, all three page sizes and every operation: (D1/D5) the outcome in every page-table walk state and allocator schedule '
                       '(entry classes absent/table/huge/leaf per level x Some/None per allocation) equals the documented one, and no operation reports success for a huge-page size whose '
                       'leaf slot holds a table; (D2) on every path that returns an error there is no write to the operation\'s leaf slot, and every write to a parent entry either links a fresh '
                       'frame into a slot that tested unused or ORs the requested parent flags into an entry already known not to be a huge-page leaf; (D4) every dereference of a next-level '
                       'table is preceded by a present test of the parent entry and, at the levels that can hold huge pages, by a huge-page test. Not decided: "leaves the mapping of every '
                       'address exactly as it was" as a statement about memory (D2 is its structural necessary condition).')
    lab = MapperLab(chk)
    runs = {}
    for impl in IMPLS:
        for size in SIZES3:
            for op, extra in (('map_to_with_table_flags', map_args), ('unmap', None), ('update_flags', flag_args), ('translate_page', None),
                              ('set_flags_p4_entry', flag_args), ('set_flags_p3_entry', flag_args), ('set_flags_p2_entry', flag_args)):
                def one(impl=impl, size=size, op=op, extra=extra):
                    fn_, pss = lab.run(impl, size, op, extra)
                    runs[(impl, size, op)] = (fn_, pss)
                chk.guard('run', '%s %s %s' % (impl, size, op), one)
    for key, (fn_, pss) in sorted(runs.items()):
        impl, size, op = key
        site = lab.I.fn[fn_]['loc']
        chk.guard('outcome-table', '%s %s %s' % key, lambda: outcome_table(chk, lab, key, pss, site))
        chk.guard('failed-call-purity', '%s %s %s' % key, lambda: purity(chk, lab, key, pss, site))
        chk.guard('guarded-dereference', '%s %s %s' % key, lambda: guards(chk, lab, key, pss, site))
    chk.floor('operation instances analysed', len(runs), 42)
    conversions(chk, lab)
    chk.guard('occupancy-agreement', 'map_to', lambda: occupancy_agreement(chk))
    chk.guard('failed-call-purity', 'arbitrary entry contents', lambda: stale_entries(chk))


def stale_entries(chk, rule='failed-call-purity', runs=None):
    """The same write discipline for *arbitrary* slot contents. The outcome tables above range over entries that are all-zero or PRESENT
    (what map_to stores); `update_flags` / `set_flags_pN_entry` with flags lacking PRESENT leave entries that are neither - a huge-page
    leaf or a table link that is temporarily not present. For those no outcome is documented, but the structural clauses still decide
    what a call may do to them: a failing call writes no leaf slot, a fresh table goes only into a slot that tested all-zero, parent flags
    are ORed only into an entry known not to carry HUGE_PAGE, and update_flags on a huge page keeps HUGE_PAGE whatever the flags."""
    lab = MapperLab(chk, invariant=False)
    n = 0
    for impl in IMPLS:
        for size in SIZES3:
            key = (impl, size, 'map_to_with_table_flags')
            fn_, pss = lab.run(impl, size, 'map_to_with_table_flags', map_args)
            n += 1
            purity(chk, lab, key, pss, lab.I.fn[fn_]['loc'], rule=rule, tag=' (arbitrary entry contents)')
            if size == 'Size4KiB':
                continue
            # update_flags of a huge page, flags with or without PRESENT: the leaf keeps its address and its HUGE_PAGE mark
            fn_, pss = lab.run(impl, size, 'update_flags', lambda lab_, size_: [lab_.flags('fl', present=False)])
            n += 1
            leaf = SM.LEAF_LEVEL[size]
            bad = set()
            seen = 0
            for ps in pss:
                for s_ in ps.steps:
                    if s_.k == 'write' and s_.level == leaf and isinstance(s_.new, BV) and isinstance(s_.old, BV):
                        seen += 1
                        if s_.new.bits[7] != 1:
                            bad.add('HUGE_PAGE of the rewritten leaf is %r' % (s_.new.bits[7],))
                        if any(s_.new.bits[i] != s_.old.bits[i] for i in range(30 if size == 'Size1GiB' else 21, 52)):
                            bad.add('frame address changed')
            chk.ob(rule, '%s: the rewritten leaf keeps its frame and HUGE_PAGE for every flags argument (with or without PRESENT)' % label((impl, size, 'update_flags')),
                   seen > 0 and not bad, '; '.join(sorted(bad)) or 'no leaf write seen', lab.I.fn[fn_]['loc'])
    chk.floor('operation instances analysed with arbitrary entry contents', n, 10)


def occupancy_agreement(chk):
    """Sibling agreement on what "the slot is free" means: for *arbitrary* slot contents (no PRESENT-or-zero invariant) the six
    map_to variants must know the same bits of the old leaf-slot value to be zero when they overwrite it (today: all 64, the
    is_unused test). A variant that decides occupancy by another predicate (say PRESENT only) would overwrite entries its
    siblings refuse - the implementations would stop agreeing on PageAlreadyMapped."""
    lab = MapperLab(chk, invariant=False)
    known = {}
    for impl in IMPLS:
        for size in SIZES3:
            fn_, pss = lab.run(impl, size, 'map_to_with_table_flags', map_args)
            leaf = SM.LEAF_LEVEL[size]
            zero = None
            n = 0
            for ps in pss:
                if norm_result(ps)[0] != 'Ok':
                    continue
                ws = [s for s in ps.steps if s.k == 'write' and s.level == leaf]
                if not ws:
                    continue
                # tables created on this path are zeroed: their slots are trivially free
                if any(s.k == 'zero' and s.table == ws[-1].table for s in ps.steps):
                    continue
                old = ws[-1].old
                z = frozenset(i for i, b in enumerate(old.bits) if b == 0) if isinstance(old, BV) else frozenset()
                zero = z if zero is None else (zero & z)
                n += 1
            known[(impl, size)] = (zero, n, fn_)
    chk.floor('map_to variants compared for their occupancy test', len([k for k, v in known.items() if v[1] > 0]), 6)
    from collections import Counter
    maj = Counter(v[0] for v in known.values() if v[1] > 0).most_common(1)
    maj = maj[0][0] if maj else None
    for (impl, size), (z, n, fn_) in sorted(known.items()):
        chk.ob('occupancy-agreement', '%s: the leaf slot is overwritten under the same free-slot test as in the sibling map_to variants' % label((impl, size, 'map_to')),
               n > 0 and z == maj, 'old slot bits known zero at the write: %s; siblings: %s' % (_fmt_set(z), _fmt_set(maj)), lab.I.fn[fn_]['loc'])


def _fmt_set(z):
    if z is None:
        return 'none'
    if len(z) == 64:
        return 'all 64'
    return '{%s}' % ','.join(str(i) for i in sorted(z))


def label(key):
    impl, size, op = key
    return '%s::%s<%s>' % ({'mapped': 'MappedPageTable', 'recursive': 'RecursivePageTable'}[impl], op, size)


def outcome_table(chk, lab, key, pss, site):
    impl, size, op = key
    if op == 'map_to_with_table_flags':
        for state in SM.states_for(size):
            n = SM.allocs_needed(size, state)
            scheds = [tuple([True] * n)] + [tuple([True] * j + [False]) for j in range(n)]
            for al in scheds:
                want = SM.expect_map(size, state, al)
                got = {norm_result(ps) for ps in pss if compatible(ps, state, al)}
                wn = ('Ok', 'MapperFlush') if want[0] == 'Ok' else want
                chk.ob('outcome-table', '%s in state %s, allocator %s' % (label(key), '/'.join(state), ''.join('S' if a else 'N' for a in al) or '-'), got == {wn},
                       'paths give %s, documented outcome %s' % (sorted(got), wn), site)
        return
    if op.startswith('set_flags_p'):
        lvl = int(op[len('set_flags_p')])
        for state in SM.states_for(size, entry_level=max(lvl, SM.LEAF_LEVEL[size])):
            want = SM.expect_set_flags(size, lvl, state)
            got = {norm_result(ps) for ps in pss if compatible(ps, state)}
            chk.ob('outcome-table', '%s in state %s' % (label(key), '/'.join(state)), got == {want}, 'paths give %s, documented outcome %s' % (sorted(got), want), site)
        return
    for state in SM.states_for(size):
        want = SM.expect_walk(size, state, op)
        got = {norm_result(ps) for ps in pss if compatible(ps, state)}
        if want[0] == 'NotOk':
            ok = bool(got) and not any(g[0] == 'Ok' for g in got)
            chk.ob('no-success-for-missing-size', '%s in state %s' % (label(key), '/'.join(state)), ok,
                   'paths give %s: the slot holds a table, there is no %s mapping here, yet the call succeeds' % (sorted(got), size), site)
        elif want[0] == 'Ok':
            chk.ob('outcome-table', '%s in state %s' % (label(key), '/'.join(state)), bool(got) and all(g[0] == 'Ok' for g in got), 'paths give %s, documented outcome Ok' % (sorted(got),), site)
        else:
            chk.ob('outcome-table', '%s in state %s' % (label(key), '/'.join(state)), got == {want}, 'paths give %s, documented outcome %s' % (sorted(got), want), site)


def purity(chk, lab, key, pss, site, rule='failed-call-purity', tag=''):
    impl, size, op = key
    leaf = SM.LEAF_LEVEL[size]
    if op.startswith('set_flags_p'):
        leaf = int(op[len('set_flags_p')])
    bad_leaf = []
    bad_parent = []
    for n, ps in enumerate(pss):
        res = ps.result()
        for i, s in enumerate(ps.steps):
            if s.k != 'write':
                continue
            if s.level is None:
                bad_parent.append('write to a slot of unknown level (%s)' % s.table[:40])
                continue
            if s.level == leaf:
                if res[0] != 'Ok':
                    bad_leaf.append('%s path writes the level-%d slot' % (res, leaf))
                continue
            if s.level < leaf:
                bad_parent.append('write below the leaf level (level %d)' % s.level)
                continue
            # parent entry: fresh link or flag widening of a non-huge entry
            known = knowledge(ps, s.table, s.idx, i, getattr(lab, 'invariant', True))
            old, new = s.old, s.new
            fresh = isinstance(old, BV) and old.is_const() and old.value() == 0 and isinstance(new, BV) and new.bits[0] == 1 and new.bits[7] == 0 and \
                any(isinstance(b, tuple) and b[0] == 'v' and b[1].startswith('allocate_frame#') for b in new.bits[12:52])
            widen = isinstance(old, BV) and isinstance(new, BV) and all(nb == ob or (isinstance(nb, tuple) and nb[0] == 'or' and ob in nb[1]) or (nb == 1 and i2 == 0)
                                                                       for i2, (ob, nb) in enumerate(zip(old.bits, new.bits)))
            if fresh:
                # ... and only into a slot whose whole entry tested unused on this path: an entry that merely lacks PRESENT may still be a
                # (temporarily non-present) huge-page leaf or table link, which a call must report, not overwrite
                if not any((t.k == 'test' and t.table == s.table and t.idx.key() == s.idx.key() and t.what == 'unused' and t.res == 1) or
                           (t.k == 'zero' and t.table == s.table) for t in ps.steps[:i]):      # ... or the slot lies in a table this call has just zeroed
                    bad_parent.append('level-%d entry linked to a fresh table without the whole entry having tested unused' % s.level)
                continue
            if widen:
                if s.level in (3, 2) and known.get(7) != 0:
                    what = 'the entry has not been checked for HUGE_PAGE yet'
                    later_huge = any(t.k == 'test' and t.table == s.table and t.idx.key() == s.idx.key() and t.what == 'huge' and t.res == 1 for t in ps.steps[i:])
                    if later_huge:
                        bad_parent.append('level-%d entry: parent flags are ORed into a huge-page leaf before the call fails with %s' % (s.level, res[1] if len(res) > 1 else res))
                continue
            if op.startswith('set_flags_p'):
                continue
            bad_parent.append('level-%d entry rewritten: %r -> %r' % (s.level, old, new))
    chk.ob(rule, '%s%s: no write to the leaf slot on any failing path' % (label(key), tag), not bad_leaf, '; '.join(sorted(set(bad_leaf))), site)
    chk.ob(rule, '%s%s: parent entries are only linked when unused or widened when known not to be a huge page' % (label(key), tag), not bad_parent, '; '.join(sorted(set(bad_parent))), site)


def guards(chk, lab, key, pss, site):
    impl, size, op = key
    bad = set()
    n = 0
    for ps in pss:
        for i, s in enumerate(ps.steps):
            if s.k != 'deref':
                continue
            n += 1
            if s.level is None or s.level > 3:
                bad.add('dereference of a table of unknown level (%s)' % (s.table[:50],))
                continue
            pl = s.level + 1
            # the parent entry: level pl on this page's walk
            cands = [(t.table, t.idx) for t in ps.steps[:i] if t.k in ('test', 'write') and t.level == pl]
            okp = False
            for (tk, iv) in cands:
                known = knowledge(ps, tk, iv, i)
                if known.get(0) == 1 and (pl == 4 or known.get(7) == 0):
                    okp = True
            if not okp:
                miss = 'present and huge-page' if pl != 4 else 'present'
                bad.add('level-%d table dereferenced without a prior %s check of its level-%d entry' % (s.level, miss, pl))
    chk.count('dereference sites on paths', n)
    chk.ob('guarded-dereference', '%s: every next-level table dereference is guarded' % label(key), not bad, '; '.join(sorted(bad)), site)


def conversions(chk, lab):
    """error conversions map variant to variant as documented"""
    I = lab.I
    M = 'structures::paging::mapper::'
    W = M + 'mapped_page_table::PageTableWalkError'
    C = M + 'mapped_page_table::PageTableCreateError'
    table = []
    for tgt in ('UnmapError', 'FlagUpdateError', 'TranslateError'):
        fn_ = '<%s%s as core::convert::From<%s>>::from' % (M, tgt, W)
        table.append((fn_, W, {'MappedToHugePage': 'ParentEntryHugePage', 'NotMapped': 'PageNotMapped'}))
    for s in SIZES3:
        fn_ = '<%sMapToError<structures::paging::page::%s> as core::convert::From<%s>>::from' % (M, s, C)
        table.append((fn_, C, {'MappedToHugePage': 'ParentEntryHugePage', 'FrameAllocationFailed': 'FrameAllocationFailed'}))
    from .common import enum_val
    # These enums and impls are private plumbing between the walker and the public errors; what they must achieve is decided end to end
    # by the outcome tables above. The variant-by-variant rule below is an additional cross-check that applies only while the plumbing
    # has the shape it has today (it is skipped, not failed, when a private name is gone).
    for fn_, src, mp in table:
        if fn_ not in I.fn:
            continue
        try:
            have = {v[0] for v in I.enum_variants({'k': 'adt', 'name': src, 'args': []})}
        except Exception:
            continue
        if not set(mp) <= have:
            continue
        for a, b in mp.items():
            def one(fn_=fn_, src=src, a=a, b=b):
                o = I.run(fn_, [enum_val(I, src, a)])
                chk.count('function-instances')
                chk.ob('error-conversion', '%s -> %s via %s' % (a, b, fn_.split(' for ')[1].split('>::')[0].split('::')[-1] if ' for ' in fn_ else fn_), len(o) == 1 and o[0].kind == 'ret' and o[0].val.vname == b,
                       'returns %r' % (o,), I.fn[fn_]['loc'])
            chk.guard('error-conversion', fn_ + a, one)
