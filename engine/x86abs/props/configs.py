"""Configuration agreement - run after every property.

Every verdict is reached on the facts of the default feature set (`nightly` + `instructions`). The crate supports others
(`--no-default-features`, with or without `instructions` / the nightly features), and code behind `#[cfg(not(feature = ..))]` is never
compiled by the default build or its tests. The verdicts carry over to such a feature set exactly when the functions this property
analysed are the same functions there. This rule extracts the MIR of three more feature sets from the same working tree and compares,
function by function, the bodies the property's interpretations entered (`Interp.TOUCHED`):

  * identical after normalising compiler-internal numbering (DefId indices, alloc ids, impl ordinals) and the one type-level difference
    the crate documents (the `extern "x86-interrupt"` handler aliases are place-holder structs without `abi_x86_interrupt`): carried over;
  * different, and the difference is one this file knows how to decide (HANDLED: the GDT entry is a plain `u64` instead of an
    `AtomicU64` without `instructions`): the same obligations are decided again on that feature set's MIR;
  * different otherwise, or a function of the analysed files that exists only in the other feature set: reported - the property has not
    been decided for that configuration.

Layouts and constant values of the items both configurations have must agree as well.
"""
import json
import re

from ..bits import BV
from ..facts import CONFIGS, get_facts
from ..interp import Interp, State
from ..values import Array, Struct
from .common import arg_obj, eval_value, fn_site, inner, same

EXTRA = ('none', 'instr-only', 'nightly-only')
_cache = {}


def _pair(a, b, out):
    """walk two type trees in step; where the default one has an x86-interrupt fn pointer and the other an adt, record the pairing"""
    if isinstance(a, dict) and isinstance(b, dict):
        if a.get('k') == 'fnptr' and a.get('abi') == 'X86Interrupt' and b.get('k') == 'adt':
            out[re.sub(r'\s+', ' ', a.get('s', ''))] = b.get('name')
            return
        for k in a:
            if k in b:
                _pair(a[k], b[k], out)
    elif isinstance(a, list) and isinstance(b, list) and len(a) == len(b):
        for x, y in zip(a, b):
            _pair(x, y, out)


def handler_map(base, other):
    """signature of an `extern "x86-interrupt"` handler alias -> name of the struct standing in for it in the other feature set, read
    off the fields of the structs both feature sets define (the IDT)"""
    out = {}
    oa = {a['name']: a for a in other.get('adts', [])}
    for a in base.get('adts', []):
        b = oa.get(a['name'])
        if b is None:
            continue
        fb = {f['name']: f for f in b['fields']}
        for f in a['fields']:
            if f['name'] in fb:
                _pair(f['ty'], fb[f['name']]['ty'], out)
    return out


def _norm(x, hmap, hnames):
    if isinstance(x, dict):
        if x.get('k') == 'fnptr' and x.get('abi') == 'X86Interrupt':
            s = re.sub(r'\s+', ' ', x.get('s', ''))
            return {'k': 'handler', 's': hmap.get(s, s)}
        if x.get('k') == 'adt' and x.get('name') in hnames:
            return {'k': 'handler', 's': x['name']}
        out = {}
        for k, v in x.items():
            if k.startswith('_'):
                continue        # the interpreter's own per-function caches
            # `inst` and the string form of generic arguments are debug renderings of what `name` / `gargs` say structurally
            if k == 'inst' or (k == 'args' and isinstance(v, str)):
                if k == 'inst' and 'onstructor' in str(v):
                    out[k] = 'constructor'
                continue
            out[k] = _norm(v, hmap, hnames)
        return out
    if isinstance(x, list):
        return [_norm(v, hmap, hnames) for v in x]
    if isinstance(x, str):
        x = re.sub(r'DefId\(\d+:\d+ ~ (\w+)\[[0-9a-f]+\]', r'DefId(\1', x)
        x = re.sub(r'alloc\d+', 'alloc', x)
        x = re.sub(r'\{impl#\d+\}', '{impl}', x)
        for s, n in hmap.items():
            x = x.replace(s, n)
    return x


def compare(cfg):
    """(functions of `cfg` whose body differs from the default feature set's, functions only `cfg` has, types whose layout differs,
    constants whose value differs, number of functions compared)"""
    if cfg in _cache:
        return _cache[cfg]
    base = get_facts('default')
    other = get_facts(cfg)
    hmap = handler_map(base, other)
    hnames = set(hmap.values())

    def key(f):
        return json.dumps(_norm(f, hmap, hnames), sort_keys=True)
    bf = {f['name']: f for f in base['fns']}
    differ, only, n = {}, {}, 0
    for f in other['fns']:
        g = bf.get(f['name'])
        if g is None:
            only[f['name']] = f
            continue
        n += 1
        if key(f) != key(g):
            differ[f['name']] = f
    bl = {l['tys']: l for l in base['layouts']}
    lay = []
    for l in other['layouts']:
        g = bl.get(l['tys'])
        if g is None:
            continue
        sig = lambda z: (z.get('size'), z.get('align'), [(x.get('name'), x.get('off'), x.get('size')) for x in z.get('fields', [])],
                         [(v.get('name'), v.get('discr')) for v in z.get('variants', [])] if 'variants' in z else None)
        if sig(l) != sig(g):
            lay.append(l['tys'])
    bc = {c['name']: c for c in base['consts']}
    cons = []
    for c in other['consts']:
        g = bc.get(c['name'])
        if g is not None and (re.sub(r'alloc\d+', 'alloc', str(c.get('val'))), c.get('bytes'), c.get('flags')) != (re.sub(r'alloc\d+', 'alloc', str(g.get('val'))), g.get('bytes'), g.get('flags')):
            cons.append(c['name'])
    _cache[cfg] = (differ, only, lay, cons, n, other)
    return _cache[cfg]


# ---------------------------------------------------------------- differences this file knows how to decide
ENTRY = 'structures::gdt::Entry'
GEMPTY = 'structures::gdt::GlobalDescriptorTable::<MAX>::empty'


def gdt_entry_plain(chk, cfg, facts):
    """without `instructions` the GDT entry holds a plain u64: new / raw / empty decided on that feature set's MIR"""
    I = Interp(facts)
    w = BV.sym(64, 'w')
    o = I.run(ENTRY + '::new', [w], State())
    ok_new = len(o) == 1 and o[0].kind == 'ret' and same(inner(o[0].val), w)
    chk.ob('configurations', '[%s] gdt::Entry::new stores the word' % cfg, ok_new, 'paths %r' % (o,), fn_site(I, ENTRY + '::new'))
    st = State()
    ref = arg_obj(st, 'self', Struct(ENTRY, [w]))
    o = I.run(ENTRY + '::raw', [ref], st)
    chk.ob('configurations', '[%s] gdt::Entry::raw returns the stored word' % cfg, len(o) == 1 and o[0].kind == 'ret' and same(o[0].val, w), 'paths %r' % (o,), fn_site(I, ENTRY + '::raw'))
    for MAX in (1, 8):
        o = I.run(GEMPTY, [], State(), None, {'MAX': MAX})
        ok = len(o) == 1 and o[0].kind == 'ret'
        if ok:
            a, b = o[0].val.fields
            t, ln = (a, b) if isinstance(a, Array) else (b, a)
            ok = isinstance(t, Array) and t.length == MAX and not t.elems and t.default is not None and eval_value(inner(t.default), {}) == 0 and eval_value(ln, {}) == 1
        chk.ob('configurations', '[%s] GlobalDescriptorTable::<%d>::empty: MAX null entries, one slot used' % (cfg, MAX), ok, 'paths %r' % (o,), fn_site(I, GEMPTY))


HANDLED = {
    ENTRY + '::new': gdt_entry_plain,
    ENTRY + '::raw': gdt_entry_plain,
    GEMPTY: gdt_entry_plain,
}


def _file(f):
    return (f.get('loc') or f.get('span') or '').split(':')[0]


def run_configs(chk, pid):
    def go():
        touched = set(Interp.TOUCHED)
        base = get_facts('default')
        bf = {f['name']: f for f in base['fns']}
        files = {_file(bf[n]) for n in touched if n in bf}
        files.discard('')
        for cfg in EXTRA:
            differ, only, lay, cons, n, facts = compare(cfg)
            chk.floor('functions of feature set %s compared with the default one' % cfg, n, 500)
            bad = 0
            done = set()
            for name in sorted(differ):
                if name not in touched:
                    continue
                h = HANDLED.get(name)
                if h is not None:
                    if h not in done:
                        done.add(h)
                        h(chk, cfg, facts)
                    continue
                bad += 1
                chk.ob('configurations', '%s is the same function under feature set `%s` as under the default features' % (name, ' '.join(CONFIGS[cfg][0]) or 'default'), False,
                       'this property analysed its default-feature body; the body compiled for that feature set differs, so the verdict does not carry over', _file(differ[name]) or None)
            for name in sorted(only):
                f = only[name]
                if (f.get('impl') or {}).get('derived') or _file(f) not in files or f.get('kind') in ('AssocConst', 'Const'):
                    continue
                bad += 1
                chk.ob('configurations', '%s exists only under feature set `%s`: it is among the functions this check analysed' % (name, ' '.join(CONFIGS[cfg][0])), False,
                       'a function of the files this property is decided on that the default build does not compile; not analysed', _file(f) or None)
            text = None
            for t in lay:
                if text is None:
                    text = json.dumps([bf[x] for x in touched if x in bf], default=str)
                if '"%s"' % t in text:
                    bad += 1
                    chk.ob('configurations', 'layout of %s agrees between feature set `%s` and the default one' % (t, ' '.join(CONFIGS[cfg][0])), False, 'size, alignment, field offsets or discriminants differ', None)
            for c in cons:
                if any(c.startswith(h + '::') for h in HANDLED):
                    continue        # a constant local to a function that is decided again on that feature set
                if text is None:
                    text = json.dumps([bf[x] for x in touched if x in bf], default=str)
                if '"%s"' % c in text:
                    bad += 1
                    chk.ob('configurations', 'constant %s has the same value under feature set `%s`' % (c, ' '.join(CONFIGS[cfg][0])), False, 'values differ', None)
            k = len([x for x in touched if x in bf and any(g['name'] == x for g in facts['fns'])]) if False else sum(1 for g in facts['fns'] if g['name'] in touched)
            chk.ob('configurations', 'feature set `%s`: the functions this property analysed are the functions compiled there' % (' '.join(CONFIGS[cfg][0])), bad == 0,
                   '%d of the %d analysed functions exist there; %d differ and are decided separately; %d undecided' % (k, len(touched), len([x for x in differ if x in touched and x in HANDLED]), bad), None)
    chk.guard('configurations', 'feature sets', go)
