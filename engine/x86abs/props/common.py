"""Helpers shared by the property modules."""
import os
import sys

from ..bits import BV, TOP, atom_key, fmt_bits, lit, subst_bit
from ..facts import VERIF, get_facts
from ..interp import Interp, Outcome, State, Unsupported, ty_width
from ..values import UNIT, Array, Closure, Enum, Opaque, Ptr, Ref, Struct, fmt_loc, fmt_path

sys.path.insert(0, VERIF)


def sl(sym, lo, hi):
    """bits lo..hi of symbol sym as a list of literals"""
    return [lit(sym, i) for i in range(lo, hi)]


def bv(w, *chunks, signed=False):
    """BV from chunks: lists of bits, or (value, width) constants"""
    bits = []
    for c in chunks:
        if isinstance(c, tuple):
            v, n = c
            bits += [(v >> i) & 1 for i in range(n)]
        else:
            bits += list(c)
    assert len(bits) == w, (len(bits), w)
    return BV(w, bits, signed)


def adt(name, *args):
    return {'k': 'adt', 'name': name, 'args': list(args)}


U8 = {'k': 'uint', 'bits': 8, 'size': False}
U16 = {'k': 'uint', 'bits': 16, 'size': False}
U32 = {'k': 'uint', 'bits': 32, 'size': False}
U64 = {'k': 'uint', 'bits': 64, 'size': False}
USIZE = {'k': 'uint', 'bits': 64, 'size': True}
SIZES = {'Size4KiB': 12, 'Size2MiB': 21, 'Size1GiB': 30}


def size_ty(s):
    return adt('structures::paging::page::' + s)


def same(a, b):
    """structural equality of two abstract values (no TOP allowed unless affine forms agree)"""
    if a is b:
        return True   # one abstract object denotes one concrete value on a path
    if isinstance(a, BV) and isinstance(b, BV):
        return a.w == b.w and a.same(b)
    if isinstance(a, Struct) and isinstance(b, Struct):
        fa = [x for x in a.fields if not _unit(x)]
        fb = [x for x in b.fields if not _unit(x)]
        return len(fa) == len(fb) and all(same(x, y) for x, y in zip(fa, fb))
    if isinstance(a, Enum) and isinstance(b, Enum):
        if a.vi is None or b.vi is None:
            return a.vi is None and b.vi is None and same(a.disc, b.disc)
        return a.vname == b.vname and len(a.fields) == len(b.fields) and all(same(x, y) for x, y in zip(a.fields, b.fields))
    if isinstance(a, Ref) and isinstance(b, Ref):
        return a.loc == b.loc and len(a.path) == len(b.path) and all(
            (same(p[1], q[1]) if isinstance(p, tuple) and isinstance(q, tuple) else p == q) for p, q in zip(a.path, b.path))
    if isinstance(a, Ptr) and isinstance(b, Ptr):
        return a.key() == b.key() and ((a.off is None and b.off is None) or (a.off is not None and b.off is not None and same(a.off, b.off)))
    if isinstance(a, Opaque) and isinstance(b, Opaque):
        return a.tag == b.tag
    if isinstance(a, Array) and isinstance(b, Array):
        if a.length != b.length or set(a.elems) != set(b.elems):
            return False
        if (a.default is None) != (b.default is None) or (a.default is not None and not same(a.default, b.default)):
            return False
        return all(same(a.elems[k][1], b.elems[k][1]) for k in a.elems)
    return False


def _unit(x):
    return isinstance(x, Struct) and not x.fields


def newtype(I, name, val):
    """see Interp.newtype; I may be None (the facts of the current run are used)"""
    from ..interp import Interp
    if I is None:
        I = Interp.CURRENT
    return I.newtype(name, val)


def inner(v):
    """the scalar inside nested single-field newtypes (no state needed)"""
    while isinstance(v, Struct):
        nz = [x for x in v.fields if not _unit(x)]
        if len(nz) != 1:
            raise Unsupported('inner of %r' % (v,))
        v = nz[0]
    if isinstance(v, Enum) and v.disc is not None:
        return v.disc
    return v


# ---------------------------------------------------------------------- concrete evaluation of abstract results
def _env_of(assign):
    env = {}
    for s, (v, w) in assign.items():
        for i in range(w):
            env[(s, i)] = (v >> i) & 1
    return env


def eval_bits(bits, env):
    out = 0
    for i, b in enumerate(bits):
        if b in (0, 1):
            c = b
        elif b == TOP:
            return None
        else:
            c = subst_bit(b, env, None)
            if c not in (0, 1):
                return None
        out |= c << i
    return out


def eval_bv(v, env, I=None, st=None):
    """concrete value of a BV under a full assignment of the input symbols; symbols introduced for arithmetic results
    are evaluated through their affine definitions"""
    r = eval_bits(v.bits, env)
    if r is not None:
        return r
    aff = I.aff_of(st, v) if I is not None and st is not None else v.aff
    if aff is None:
        return None
    tot = aff.const
    for (s, lo, hi), c in aff.terms.items():
        x = 0
        for i in range(lo, hi):
            b = env.get((s, i))
            if b not in (0, 1):
                return None
            x |= b << (i - lo)
        tot += c * x
    return tot % (1 << v.w)


def eval_value(v, env):
    """concrete python form of an abstract value under a full assignment of its symbols (None if not determined)"""
    if isinstance(v, BV):
        return eval_bv(v, env)
    if isinstance(v, Struct):
        if not v.fields:
            return ()
        return tuple(eval_value(x, env) for x in v.fields if not _unit(x))
    if isinstance(v, Enum):
        if v.vi is None:
            return ('?', eval_bits(v.disc.bits, env))
        return (v.vname,) + tuple(eval_value(x, env) for x in v.fields)
    return repr(v)


def admits(I, st, assign, env=None):
    """may the path that ended in state `st` be taken by the concrete input `assign` {sym: (value, width)}?
    Constraints that cannot be evaluated are ignored (over-approximation: sound for 'all admitted paths agree')."""
    env = env if env is not None else _env_of(assign)
    for (s, i), bit in st.env.items():
        if s in assign:
            c = bit if bit in (0, 1) else subst_bit(bit, env, None)
            if c in (0, 1) and c != (assign[s][0] >> i) & 1:
                return False
    for s, (v, w) in assign.items():
        r = st.rng.get(s)
        if r is not None and not any(a <= v <= b for a, b in r):
            return False
    for k, tv in st.facts.items():
        if isinstance(k, tuple) and k and k[0] == 'p':
            c = subst_bit((k[0], k[1], k[2], False), env, None)
            if c in (0, 1) and c != tv:
                return False
        elif isinstance(k, tuple) and k and k[0] in ('and', 'or'):
            c = subst_bit(k, env, None)
            if c in (0, 1) and c != tv:
                return False
        elif isinstance(k, tuple) and k and k[0] in ('sw', 'swnot'):
            dk = k[1]
            if dk[0] == 'b':
                val = eval_bits(dk[1], env)
                if val is not None:
                    if k[0] == 'sw' and val != tv:
                        return False
                    if k[0] == 'swnot' and val in tv:
                        return False
    for strict, a, b in st.rel:
        x, y = eval_bits(a.bits, env), eval_bits(b.bits, env)
        if x is not None and y is not None:
            if strict and not x < y:
                return False
            if not strict and not x <= y:
                return False
    return True


def outcome_key(o, env):
    if o.kind == 'panic':
        return ('panic',)
    if o.kind == 'diverge':
        return ('diverge',)
    return ('ret', eval_value(o.val, env))


def exhaustive(chk, rule, inst, outs, syms, expected, domain=None, extra=None, site=None):
    """Exhaustive check of a small input domain against the path partition computed by the interpreter.
    syms: {name: width}; expected: f(assign values dict) -> expected outcome key, or None for 'don't care'.
    extra: optional f(outcome, env) -> comparable, appended to the outcome key (e.g. final value of *self)."""
    names = sorted(syms)
    total = 1
    for n in names:
        total *= (1 << syms[n]) if domain is None or n not in domain else len(domain[n])
    if total > (1 << 18):
        chk.unproven(rule, inst, 'input domain too large for exhaustive partition check (%d)' % total, site)
        return False
    import itertools
    spaces = [(domain[n] if domain and n in domain else range(1 << syms[n])) for n in names]
    bad = None
    n_eval = 0
    for combo in itertools.product(*spaces):
        assign = {n: (v, syms[n]) for n, v in zip(names, combo)}
        env = _env_of(assign)
        want = expected({n: v for n, v in zip(names, combo)})
        if want is None:
            continue
        got = set()
        for o in outs:
            if admits(chk.I, o.st, assign, env):
                k = outcome_key(o, env)
                if extra is not None:
                    k = k + (extra(o, env),)
                got.add(k)
        n_eval += 1
        if got != {want}:
            bad = (dict(zip(names, combo)), want, got)
            break
    chk.count('exhaustive-inputs', n_eval)
    if bad is not None:
        inp, want, got = bad
        return chk.ob(rule, inst, False, 'input %s: expected %s, paths give %s' % (
            {k: hex(v) for k, v in inp.items()}, want, sorted(got, key=repr) if got else 'no path'), site)
    return chk.ob(rule, inst, True, '%d inputs x %d paths' % (n_eval, len(outs)), site,
                  sample={'inputs': n_eval, 'paths': len(outs)})


def rets(outs):
    return [o for o in outs if o.kind == 'ret']


def panics(outs):
    return [o for o in outs if o.kind == 'panic']


def events(o, kind):
    return [e for e in o.st.events if e[0] == kind]


def fn_site(I, name):
    f = I.fn.get(name)
    return f['loc'] if f else None


def enum_val(I, name, vname):
    vs = I.enum_variants({'k': 'adt', 'name': name, 'args': []})
    for i, (vn, d, nf) in enumerate(vs):
        if vn == vname:
            return Enum(name, i, vn)
    raise KeyError(vname)


def arg_obj(st, name, value):
    """place an argument object in memory and return a reference to it (for &self / &mut self parameters)"""
    loc = ('arg', name)
    st.mem[loc] = value
    return Ref(loc)


def fmt_val(v):
    return repr(v)


def declare(st, value, ranges=None):
    """register the constant bits of symbolic input values as facts about their symbols (so that the value *is* the
    symbol for the interval component), and optional ranges {sym: [(lo, hi)]}"""
    def walk(v):
        if isinstance(v, BV):
            names = {b[1] for b in v.bits if isinstance(b, tuple) and b[0] == 'v'}
            if len(names) == 1:
                n = next(iter(names))
                if all((not isinstance(b, tuple)) or (b[0] == 'v' and b[2] == i and not b[3]) for i, b in enumerate(v.bits)):
                    for i, b in enumerate(v.bits):
                        if b in (0, 1):
                            st.env[(n, i)] = b
        elif isinstance(v, (Struct, Enum)):
            for x in v.fields:
                walk(x)
    walk(value)
    for k, r in (ranges or {}).items():
        st.rng[k] = list(r)


# instructions with an explicit memory operand: does the instruction read / write that memory? (Intel SDM vol. 2; lea and invlpg
# only use the operand's address)
ASM_MEM = {'lgdt': 'r', 'lidt': 'r', 'ldmxcsr': 'r', 'invpcid': 'r', 'sgdt': 'w', 'sidt': 'w', 'stmxcsr': 'w', 'lea': '', 'invlpg': '',
           'fxsave': 'w', 'fxrstor': 'r', 'xsave': 'w', 'xrstor': 'r'}


def asm_not_pure(chk, I, rule, files, floor):
    """option rules for every inline-asm block in the given source files:
    * none may be `pure`: each reads or changes machine / device state that other instructions change (rustc may merge repeated
      `pure` blocks or drop one whose result is unused);
    * a block whose instruction reads memory through an operand (`lgdt [{0}]`, `invpcid {0}, [{1}]`, ...) may not be `nomem` (the
      stores that build the operand could be dropped or reordered past it), and one that writes memory may be neither `nomem` nor
      `readonly`."""
    import re
    from ..interp import Interp
    n = 0
    for f in I.facts['fns']:
        loc = f.get('loc') or ''
        listed = any(loc.startswith(x) or ('/' + x) in loc for x in files)
        for b in f['blocks']:
            t = b['t']
            # wherever the code lives: every block the property's own interpretations executed (`files` only documents where they are today)
            if t and t['k'] == 'asm' and (f['name'], t['loc']) in Interp.ASM_TOUCHED:
                n += 1
                chk.ob(rule, '%s: asm block is not `pure`' % f['name'], 'PURE' not in t['opts'], 'options %s' % t['opts'], t['loc'], nontrivial=False)
                tpl = ''.join((p.get('s') if p.get('s') is not None else '{%s}' % p.get('op')) for p in t['tpl'])
                # a block that pushes or pops uses the stack: `nostack` would let the compiler keep live data in the red zone below rsp
                stack_mn = [ln.strip().split()[0].lower() for ln in re.split(r'[;\n]', tpl) if ln.strip() and
                            ln.strip().split()[0].lower() in ('push', 'pop', 'pushf', 'pushfq', 'popf', 'popfq', 'call', 'enter', 'leave')]
                if stack_mn:
                    chk.ob(rule, '%s: `%s` uses the stack: the block is not `nostack`' % (f['name'], stack_mn[0]), 'NOSTACK' not in t['opts'], 'options %s' % t['opts'], t['loc'])
                for line in re.split(r'[;\n]', tpl):
                    line = line.strip()
                    if not re.search(r'\[\s*\{\d+\}', line):
                        continue
                    mn = line.split()[0].lower() if line.split() else ''
                    acc = ASM_MEM.get(mn, 'rw')
                    if not acc:
                        continue
                    bad = [o for o in (['NOMEM'] + (['READONLY'] if 'w' in acc else [])) if o in t['opts']]
                    chk.ob(rule, '%s: `%s` accesses memory through its operand (%s): options allow it' % (f['name'], mn, {'r': 'read', 'w': 'write', 'rw': 'read/write'}[acc]),
                           not bad, 'options %s forbid the access the instruction makes' % t['opts'], t['loc'])
    chk.floor('%s: asm blocks scanned for `pure`' % rule, n, floor)
    return n


def refutes_canonical(I, o, v):
    """does the path condition of outcome `o` contradict "the 64-bit value v is a canonical address" (bits 48..63 equal bit 47)?
    Either assuming canonicity kills the state (the path tested `sign_extend(v) != v`), or the path is the `otherwise` arm of a switch
    on `v >> 47` whose arms took 0 and 0x1ffff."""
    from ..bits import eq_bit
    v = I.norm(o.st, v)
    s = o.st.clone()
    if not I.assume(s, eq_bit(tuple(v.bits[48:64]), (v.bits[47],) * 16), 1) or s.dead:
        return True
    d = BV(64, list(v.bits[47:64]) + [0] * 47)
    for k, taken in o.st.facts.items():
        if isinstance(k, tuple) and len(k) == 2 and k[0] == 'swnot' and k[1] == d.key() and {0, 0x1ffff} <= set(taken):
            return True
    return False


# ---------------------------------------------------------------------- coverage censuses: who touches what the property is about
def _base_name(n):
    """function a closure / promoted body / nested item belongs to"""
    import re
    return re.split(r'::\{closure|::promoted\[', n)[0]


def writers_touched(chk, rule, types, what, also_borrows=True, allow=()):
    """every function of the crate that assigns to a field of one of `types` (or hands out a `&mut` to one) must be a function this
    property's interpretations entered: state the property is about is then only changed by code the rules above have judged, and a
    new setter / `&mut` accessor / constructor added next to the analysed ones is reported instead of being trusted"""
    from ..interp import Interp
    from ..mirwalk import is_user_fn, place_base_types, statements
    n = 0
    for f in chk.facts['fns']:
        if not is_user_fn(f) or (f.get('impl') or {}).get('derived'):
            continue
        hits = set()
        for bi, s in statements(f):
            if s['k'] != 'assign':
                continue
            pro, _ = place_base_types(f, s['pl'])
            # a write *to a field* (no deref after the field projection: `self.len = ..`, not `*self.table_ref = ..`)
            for i, (t, e) in enumerate(pro):
                if e['k'] == 'field' and t.get('k') == 'adt' and t.get('name') in types and not any(x['k'] == 'deref' for _, x in pro[i + 1:]):
                    hits.add('writes a field of %s' % t['name'].split('::')[-1])
            rv = s['rv']
            if rv['k'] == 'agg' and rv.get('ak') == 'adt' and rv.get('adt') in types:
                hits.add('builds a %s' % rv['adt'].split('::')[-1])
            if also_borrows and rv['k'] in ('ref', 'rawref') and (also_borrows == 'any' or 'Mut' in str(rv.get('bk', '')) + str(rv.get('mut', ''))):
                pro2, _ = place_base_types(f, rv['pl'])
                for i, (t, e) in enumerate(pro2):
                    if e['k'] == 'field' and t.get('k') == 'adt' and t.get('name') in types and not any(x['k'] == 'deref' for _, x in pro2[i + 1:]):
                        hits.add('borrows a field of %s%s' % (t['name'].split('::')[-1], '' if also_borrows == 'any' else ' mutably'))
        from ..mirwalk import ctor_refs
        for nm in ctor_refs(f, set(types)):
            hits.add('builds a %s' % nm.split('::')[-1])
        if not hits:
            continue
        n += 1
        ok = f['name'] in Interp.TOUCHED or _base_name(f['name']) in Interp.TOUCHED or f['name'] in allow
        chk.ob(rule, '%s %s: it is among the functions this check analysed' % (f['name'], ' and '.join(sorted(hits))), ok,
               'not entered by any interpretation of this property (%s)' % what, f['loc'], nontrivial=False)
    return n


def callers_touched(chk, rule, targets, what, pred=None):
    """every in-crate caller of one of the `targets` (functions that change what the property is about) must itself have been analysed"""
    from ..interp import Interp
    from ..mirwalk import callees, is_user_fn
    n = 0
    seen = set()
    for f in chk.facts['fns']:
        if not is_user_fn(f) or (f.get('impl') or {}).get('derived'):
            continue
        for bi, c, target, loc in callees(f):
            t = target or c.get('name')
            if t is None or not (t in targets or c.get('name') in targets or (pred is not None and pred(t))):
                continue
            if (f['name'], t) in seen:
                continue
            seen.add((f['name'], t))
            n += 1
            ok = f['name'] in Interp.TOUCHED or _base_name(f['name']) in Interp.TOUCHED
            chk.ob(rule, '%s calls %s: it is among the functions this check analysed' % (f['name'], t.split('::')[-1]), ok,
                   'not entered by any interpretation of this property (%s)' % what, loc, nontrivial=False)
    return n


def entry_pred_is_all_zero(I, pred):
    """does the predicate handed to Iterator::all (a fn item or a closure over &PageTableEntry) hold exactly for an
    all-zero entry?"""
    from ..bits import eq0_bit
    from ..values import FnItem
    PTE = 'structures::paging::page_table::PageTableEntry'
    st = State()
    eref = arg_obj(st, 'e', Struct(PTE, [BV.sym(64, 'e')]))
    if isinstance(pred, FnItem):
        f = I.fn.get(pred.c['name']) or I.fn.get((pred.c.get('res') or {}).get('name'))
        if f is None:
            return False
        outs = I.run_fn(f, [eref], st, {})
    elif isinstance(pred, Closure):
        loc = ('obj', 'clo-env')
        st.mem[loc] = pred
        cf = I.fn[pred.name]
        envarg = Ref(loc) if cf['locals'][1].get('k') == 'ref' else pred
        outs = I.run_fn(cf, [envarg, eref], st, {})
    else:
        return False
    want = BV(1, [eq0_bit(tuple(sl('e', 0, 64)))])
    return len(outs) == 1 and outs[0].kind == 'ret' and isinstance(outs[0].val, BV) and same(outs[0].val, want)


def is_call_of(chk, I, rule, fn_, target, label=None, sub=None):
    """`fn_` (no arguments) is exactly one call of `target` whose result it returns (Default::default = new, new = empty, ...)"""
    if fn_ not in I.fn or target not in I.fn:
        chk.unproven(rule, label or fn_, 'function not found (anchor lost)')
        return
    saved = set(I.opaque_fns)
    I.opaque_fns |= {target}
    try:
        o = I.run(fn_, [], State(), sub)
    finally:
        I.opaque_fns = saved
    chk.count('function-instances')
    calls = [ev for ev in o[0].st.events if ev[0] == 'call'] if len(o) == 1 else []
    ok = len(o) == 1 and o[0].kind == 'ret' and len(calls) == 1 and calls[0][1] == target and ('%s#%d' % (target.split('::')[-1], calls[0][5])) in repr(o[0].val) and \
        not [ev for ev in o[0].st.events if ev[0] in ('write', 'asm', 'rawderef')]
    chk.ob(rule, label or ('%s is %s()' % (fn_, target.split('::')[-1])), ok, 'paths %r calls %r' % (o, [c[1] for c in calls]), fn_site(I, fn_))


def dtp_layout(chk, rule='layout'):
    """the operand of lgdt/lidt is a 10-byte pseudo-descriptor: 16-bit limit at byte 0, 64-bit base at byte 2 (Intel SDM 3A 2.4.1)"""
    from spec import descriptors as D
    lays = [l for l in chk.facts['layouts'] if l['tys'] == 'structures::DescriptorTablePointer']
    if not lays:
        chk.unproven(rule, 'DescriptorTablePointer', 'layout not found (anchor lost)')
        return
    lay = lays[0]
    got = {f['name']: (f['off'], f['size']) for f in lay['fields']}
    chk.ob(rule, 'DescriptorTablePointer = {limit: u16 @0, base: u64 @2}, 10 bytes', lay['size'] == D.DTP_SIZE and all(got.get(nm) == v for nm, v in D.DTP_LAYOUT.items()),
           'found %s size %d' % (got, lay['size']))
    chk.count('layouts')
