"""C19 - named constants and small codecs match the architecture manuals."""
from spec import arch_constants as AC

from ..bits import BV, TOP, lit
from ..interp import State, Unsupported
from ..values import Enum, Ref, Struct
from .common import (adt, arg_obj, bv, enum_val, eval_value, exhaustive, fn_site, inner, panics, rets, same, sl)

LEVEL = 'proof'

DBG = 'registers::debug::'
DARN = DBG + 'DebugAddressRegisterNumber'


def run(chk):
    I = chk.I
    chk.trusted += ['spec/arch_constants.py (oracle typed in from Intel SDM / AMD APM)', 'rustc const evaluation and layout computation',
                    'x86abs models of bit_field and bitflags-generated methods']
    chk.assumptions += ['architectural values in spec/arch_constants.py are transcribed correctly from the manuals']
    constants(chk)
    chk.guard('flag-table', 'bitflags tables', lambda: flag_tables(chk))
    enums(chk)
    codecs(chk)


def flag_tables(chk):
    """what `all()`, `from_bits`, `from_bits_truncate`, `!` and the typed register reads/writes of a bitflags type call
    "known bits" is its flag table `<T as bitflags::Flags>::FLAGS`, not its named constants: the table must consist of exactly the
    named constants (an unnamed `const _ = ..` entry would make further bits "known" without any constant changing)"""
    I = chk.I
    n = 0
    for c in chk.facts['consts']:
        nm = c['name']
        if not (nm.endswith(' as bitflags::Flags>::FLAGS') and nm.startswith('<')):
            continue
        ty = nm[1:].split(' as bitflags::Flags')[0]
        if 'InternalBitFlags' in ty:
            continue
        n += 1
        tbl = c.get('flags')
        short = ty.split('::')[-1]
        if tbl is None:
            chk.unproven('flag-table', short, 'flag table not extracted (anchor lost)')
            continue
        unnamed = [e['value'] for e in tbl if not e['named']]
        tor = 0
        for e in tbl:
            tor |= int(e['value'], 16)
        named = I.flags_named_or(ty)
        chk.ob('flag-table', '%s: the flag table is exactly the named constants (no unnamed entries; same union of bits)' % short, not unnamed and tor == named,
               'unnamed entries %s; table covers %#x, named constants cover %#x' % (unnamed, tor, named), c['loc'])
    chk.floor('bitflags types with a flag table', n, 14)


def scalar(c):
    v = c['val']
    if v.startswith('Scalar('):
        return int(v[7:-1], 16)
    return None


def constants(chk):
    facts = chk.facts
    seen = set()
    covered = 0
    for c in facts['consts']:
        n = c['name']
        if '__bitflags_flag_names' in n or 'InternalBitFlags' in n or n.endswith('::_') or '>::FLAGS' in n or n.endswith('::DEBUG_STR'):
            continue
        if c['exp'] and not c.get('impl'):
            continue
        chk.count('constants')
        if n in AC.CRATE_NAMES:
            an = AC.CRATE_NAMES[n]
            got = scalar(c)
            seen.add(n)
            covered += 1
            chk.ob('constant', n, got == AC.ARCH[an], 'crate value %s, %s = %#x' % (hex(got) if got is not None else c['val'][:30], an, AC.ARCH[an]),
                   c['loc'], sample={'arch': an, 'value': hex(AC.ARCH[an])})
            continue
        if n in AC.COMPOSITES:
            chk.count('composite-constants(decoded in C15)')
            continue
        if n.endswith('as registers::debug::DebugAddressRegister>::NUM'):
            reg = n.split(' as ')[0].split('::')[-1]
            got = c['val']
            want = AC.DR_NUM[reg]
            # the constant is a DebugAddressRegisterNumber enum value: its discriminant must name the same register
            chk.ob('constant', n, scalar(c) == want, 'crate value %s, expected discriminant %d' % (got, want), c['loc'])
            covered += 1
            continue
        if n == 'registers::model_specific::Pat::DEFAULT':
            bs = bytes.fromhex(c['bytes']) if c.get('bytes') else b''
            chk.ob('constant', n, list(bs) == AC.PAT_DEFAULT, 'crate bytes %s, reset value %s' % (list(bs), AC.PAT_DEFAULT), c['loc'])
            covered += 1
            continue
        if c['vis'] != 'Public':
            chk.count('private helper constants (not architectural)')
            continue
        chk.unproven('constant-coverage', n, 'public constant of the crate has no oracle entry (uncovered, not an architectural mismatch)', c['loc'])
    for n in AC.CRATE_NAMES:
        if n not in seen and n not in AC.PRIVATE_NAMES:
            chk.unproven('constant-anchor', n, 'oracle names a constant that the crate no longer defines (anchor lost)')
    chk.floor('constants compared with the oracle', covered, 194)


def enums(chk):
    I = chk.I
    for name, want in AC.ENUMS.items():
        vs = I.enum_variants({'k': 'adt', 'name': name, 'args': []})
        if vs is None:
            chk.unproven('enum-discriminants', name, 'enum not found in layouts (anchor lost)')
            continue
        got = {vn: d & 0xff for vn, d, nf in vs}
        chk.ob('enum-discriminants', name, got == want, 'crate %s, architecture %s' % (got, want), sample=got)
        chk.count('enums')
    # DebugAddressRegisterNumber / DescriptorTable have no explicit discriminants; their codecs are checked below


def run1(chk, name, args, st=None, sub=None):
    I = chk.I
    chk.count('function-instances')
    return I.run(name, args, st if st is not None else State(), sub)


def codecs(chk):
    I = chk.I
    G = chk.guard

    # ---- PrivilegeLevel::from_u16
    def c_pl():
        outs = run1(chk, 'PrivilegeLevel::from_u16', [BV.sym(16, 'v')])
        exhaustive(chk, 'codec', 'PrivilegeLevel::from_u16', outs, {'v': 16},
                   lambda a: ('ret', ('Ring%d' % a['v'],)) if a['v'] < 4 else ('panic',), site=fn_site(I, 'PrivilegeLevel::from_u16'))
    G('codec', 'PrivilegeLevel::from_u16', c_pl)

    # ---- PatMemoryType
    PMT = 'registers::model_specific::PatMemoryType'
    inv = {v: k for k, v in AC.ENUMS[PMT].items()}

    def c_pat():
        outs = run1(chk, PMT + '::from_bits', [BV.sym(8, 'v')])
        exhaustive(chk, 'codec', 'PatMemoryType::from_bits', outs, {'v': 8},
                   lambda a: ('ret', ('Some', (inv[a['v']],))) if a['v'] in inv else ('ret', ('None',)), site=fn_site(I, PMT + '::from_bits'))
        for vn, d in AC.ENUMS[PMT].items():
            o = run1(chk, PMT + '::bits', [enum_val(I, PMT, vn)])
            chk.ob('codec', 'PatMemoryType::bits<%s>' % vn, len(o) == 1 and o[0].kind == 'ret' and eval_value(o[0].val, {}) == d,
                   'returns %r, expected %d' % (o[0].val if o else None, d))
    G('codec', 'PatMemoryType', c_pat)

    # ---- DebugAddressRegisterNumber
    def c_darn():
        outs = run1(chk, DARN + '::new', [BV.sym(8, 'v')])
        exhaustive(chk, 'codec', 'DebugAddressRegisterNumber::new', outs, {'v': 8},
                   lambda a: ('ret', ('Some', ('Dr%d' % a['v'],))) if a['v'] < 4 else ('ret', ('None',)))
        for n in range(4):
            o = run1(chk, DARN + '::get', [enum_val(I, DARN, 'Dr%d' % n)])
            chk.ob('codec', 'DebugAddressRegisterNumber::get<Dr%d>' % n, len(o) == 1 and eval_value(o[0].val, {}) == n, 'returns %r' % (o,))
    G('codec', 'DebugAddressRegisterNumber', c_darn)

    # ---- flag selectors by register number
    def c_flagsel():
        for fn_, pre in ((DBG + 'Dr6Flags::trap', 'DR6.B'), (DBG + 'Dr7Flags::local_breakpoint_enable', 'DR7.L'),
                         (DBG + 'Dr7Flags::global_breakpoint_enable', 'DR7.G')):
            for n in range(4):
                o = run1(chk, fn_, [enum_val(I, DARN, 'Dr%d' % n)])
                want = AC.ARCH['%s%d' % (pre, n)]
                got = eval_value(inner(o[0].val), {}) if len(o) == 1 and o[0].kind == 'ret' else None
                chk.ob('codec', '%s<Dr%d>' % (fn_.split('::', 2)[2], n), got == want, 'returns %r, expected %#x' % (got, want), fn_site(I, fn_))
    G('codec', 'Dr6Flags/Dr7Flags selectors', c_flagsel)

    # ---- BreakpointCondition / BreakpointSize: from_bits over all u64 by cube cover
    def cube_cover(fn_, w, valid, label):
        """valid: {value: variant}. Inputs are covered by the cubes {v} for valid v, {bit j = 1} for every bit j above the
        field, and - for invalid encodings inside the field - their singletons."""
        fieldw = max(valid).bit_length()
        for v in range(1 << fieldw):
            o = run1(chk, fn_, [BV.const(w, v)])
            want = ('ret', ('Some', (valid[v],))) if v in valid else ('ret', ('None',))
            got = [(x.kind, eval_value(x.val, {})) if x.kind == 'ret' else (x.kind,) for x in o]
            chk.ob('codec', '%s(%d)' % (label, v), got == [want], 'paths %s, expected %s' % (got, want), fn_site(I, fn_))
        for j in range(fieldw, w):
            bits = [lit('v', i) for i in range(w)]
            bits[j] = 1
            o = run1(chk, fn_, [BV(w, bits)])
            got = [(x.kind, eval_value(x.val, {})) if x.kind == 'ret' else (x.kind,) for x in o]
            chk.ob('codec', '%s(bit %d set)' % (label, j), all(g == ('ret', ('None',)) for g in got) and got,
                   'paths %s, expected None on every path' % (got,), fn_site(I, fn_), nontrivial=(j == fieldw))

    def c_bp():
        BC = DBG + 'BreakpointCondition'
        BS = DBG + 'BreakpointSize'
        cube_cover(BC + '::from_bits', 64, {v: k for k, v in AC.ENUMS[BC].items()}, 'BreakpointCondition::from_bits')
        cube_cover(BS + '::from_bits', 64, {v: k for k, v in AC.ENUMS[BS].items()}, 'BreakpointSize::from_bits')
        # BreakpointSize::new(size in bytes): LEN encoding table
        by_bytes = {}
        for vn, enc in AC.ENUMS[BS].items():
            by_bytes[AC.BREAKPOINT_LEN_BYTES[enc]] = vn
        cube_cover(BS + '::new', 64, by_bytes, 'BreakpointSize::new')
    G('codec', 'BreakpointCondition/BreakpointSize', c_bp)

    # ---- ExceptionVector::try_from
    EV = 'structures::idt::ExceptionVector'
    evinv = {v: k for k, v in AC.ENUMS[EV].items()}

    def c_ev():
        fn_ = '<%s as core::convert::TryFrom<u8>>::try_from' % EV
        outs = run1(chk, fn_, [BV.sym(8, 'v')])
        exhaustive(chk, 'codec', 'ExceptionVector::try_from', outs, {'v': 8},
                   lambda a: ('ret', ('Ok', (evinv[a['v']],))) if a['v'] in evinv else ('ret', ('Err', (a['v'],))), site=fn_site(I, fn_))
    G('codec', 'ExceptionVector::try_from', c_ev)

    # ---- SelectorErrorCode
    SEC = 'structures::idt::SelectorErrorCode'

    def c_sec():
        # new: Some(value) exactly for value <= 0xffff  (cube cover: low 16 bits free / some high bit set)
        o = run1(chk, SEC + '::new', [bv(64, sl('v', 0, 16), (0, 48))])
        ok = len(o) == 1 and o[0].kind == 'ret' and o[0].val.vname == 'Some' and same(inner(o[0].val.fields[0]), bv(64, sl('v', 0, 16), (0, 48)))
        chk.ob('codec', 'SelectorErrorCode::new(value < 2^16)', ok, 'paths %r' % (o,), fn_site(I, SEC + '::new'))
        for j in range(16, 64):
            bits = sl('v', 0, 64)
            bits[j] = 1
            o = run1(chk, SEC + '::new', [BV(64, bits)])
            chk.ob('codec', 'SelectorErrorCode::new(bit %d set)' % j, bool(o) and all(x.kind == 'ret' and x.val.vname == 'None' for x in o),
                   'paths %r' % (o,), nontrivial=(j == 16))
        o = run1(chk, SEC + '::new_truncate', [BV.sym(64, 'v')])
        chk.ob('codec', 'SelectorErrorCode::new_truncate', len(o) == 1 and same(inner(o[0].val), bv(64, sl('v', 0, 16), (0, 48))), 'returns %r' % (o,))
        val = Struct(SEC, [bv(64, sl('f', 0, 16), (0, 48))])

        def with_self(fn_):
            st = State()
            r = arg_obj(st, 'self', val)
            return run1(chk, fn_, [r], st)
        o = with_self(SEC + '::external')
        chk.ob('codec', 'SelectorErrorCode::external', len(o) == 1 and same(o[0].val, BV(1, [lit('f', 0)])), 'returns %r (expected bit 0)' % (o,))
        o = with_self(SEC + '::index')
        chk.ob('codec', 'SelectorErrorCode::index', len(o) == 1 and same(o[0].val, bv(64, sl('f', 3, 16), (0, 51))), 'returns %r (expected bits 3..15)' % (o,))
        o = with_self(SEC + '::descriptor_table')
        # SDM 3A 6.13: bit 1 = IDT, bit 2 = TI (0 GDT, 1 LDT) when IDT is clear
        exhaustive(chk, 'codec', 'SelectorErrorCode::descriptor_table', o, {'f': 16},
                   lambda a: ('ret', ('Idt',)) if (a['f'] >> 1) & 1 else (('ret', ('Ldt',)) if (a['f'] >> 2) & 1 else ('ret', ('Gdt',))))
        o = with_self(SEC + '::is_null')
        exhaustive(chk, 'codec', 'SelectorErrorCode::is_null', o, {'f': 16}, lambda a: ('ret', int(a['f'] == 0)))
    G('codec', 'SelectorErrorCode', c_sec)

    # ---- SegmentSelector
    SS = 'registers::segmentation::SegmentSelector'

    def c_sel():
        for r in range(4):
            o = run1(chk, SS + '::new', [BV.sym(16, 'idx'), enum_val(I, 'PrivilegeLevel', 'Ring%d' % r)])
            want = bv(16, (r, 2), (0, 1), sl('idx', 0, 13))
            chk.ob('codec', 'SegmentSelector::new<Ring%d>' % r, len(o) == 1 and same(inner(o[0].val), want),
                   'returns %r, expected RPL=%d TI=0 index<<3' % (o, r), fn_site(I, SS + '::new'))
        sel = Struct(SS, [BV.sym(16, 's')])
        o = run1(chk, SS + '::index', [sel])
        chk.ob('codec', 'SegmentSelector::index', len(o) == 1 and same(o[0].val, bv(16, sl('s', 3, 16), (0, 3))), 'returns %r' % (o,))
        o = run1(chk, SS + '::rpl', [sel])
        exhaustive(chk, 'codec', 'SegmentSelector::rpl', o, {'s': 16}, lambda a: ('ret', ('Ring%d' % (a['s'] & 3),)))
        for r in range(4):
            st = State()
            ref = arg_obj(st, 'self', sel)
            o = run1(chk, SS + '::set_rpl', [ref, enum_val(I, 'PrivilegeLevel', 'Ring%d' % r)], st)
            fin = inner(o[0].st.mem[('arg', 'self')]) if len(o) == 1 and o[0].kind == 'ret' else None
            chk.ob('codec', 'SegmentSelector::set_rpl<Ring%d>' % r, fin is not None and same(fin, bv(16, (r, 2), sl('s', 2, 16))),
                   'final selector %r, expected only bits 0..1 := %d' % (fin, r))
    G('codec', 'SegmentSelector', c_sel)

    # ---- Pcid::new
    G('codec', 'Pcid::new', lambda: pcid_codec(chk, I))

    # ---- MxCsr::default
    def c_mxcsr():
        o = run1(chk, '<registers::mxcsr::MxCsr as core::default::Default>::default', [])
        got = eval_value(inner(o[0].val), {}) if len(o) == 1 else None
        chk.ob('codec', 'MxCsr::default', got == AC.ARCH['MXCSR.RESET'], 'returns %r, reset value %#x' % (got, AC.ARCH['MXCSR.RESET']))
    G('codec', 'MxCsr::default', c_mxcsr)

    # ---- Dr7Value
    G('codec', 'Dr7Value', lambda: dr7value(chk))


def dr7value(chk, rule='codec'):
    I = chk.I
    D7 = DBG + 'Dr7Value'
    flags_all = sum(v for k, v in AC.ARCH.items() if k.startswith('DR7.'))
    valid = 0xffff0000 | flags_all
    if (D7 + '::valid_bits') in I.fn:
        # a private helper today; what it must achieve is decided through from_bits / from_bits_truncate below
        o = run1(chk, D7 + '::valid_bits', [])
        got = eval_value(o[0].val, {}) if len(o) == 1 else None
        chk.ob(rule, 'Dr7Value::valid_bits', got == valid, 'returns %r, expected %#x (R/W+LEN fields | architectural DR7 flags)' % (got, valid))
    vbits = [lit('v', i) if (valid >> i) & 1 else 0 for i in range(64)]
    # from_bits: Some(bits) exactly when no invalid bit is set
    o = run1(chk, D7 + '::from_bits', [BV(64, vbits)])
    chk.ob(rule, 'Dr7Value::from_bits(valid)', len(o) == 1 and o[0].kind == 'ret' and o[0].val.vname == 'Some' and same(inner(o[0].val.fields[0]), BV(64, vbits)),
           'paths %r' % (o,))
    first = True
    for j in range(64):
        if (valid >> j) & 1:
            continue
        bits = sl('v', 0, 64)
        bits[j] = 1
        o = run1(chk, D7 + '::from_bits', [BV(64, bits)])
        chk.ob(rule, 'Dr7Value::from_bits(invalid bit %d set)' % j, bool(o) and all(x.kind == 'ret' and x.val.vname == 'None' for x in o),
               'paths %r' % (o,), nontrivial=first)
        first = False
    o = run1(chk, D7 + '::from_bits_truncate', [BV.sym(64, 'v')])
    chk.ob(rule, 'Dr7Value::from_bits_truncate', len(o) == 1 and same(inner(o[0].val), BV(64, vbits)), 'returns %r' % (o,))
    # every other way to a Dr7Value keeps it inside the valid bits - for all inputs, including a flags argument that carries bits no
    # named flag covers (bitflags values can: from_bits_retain): the conversion from Dr7Flags, and any function that assembles one
    from ..mirwalk import ctor_refs, is_user_fn, statements
    audited = {D7 + '::from_bits', D7 + '::from_bits_truncate'}
    n_build = 0
    for f in chk.facts['fns']:
        if not is_user_fn(f) or f['name'] in audited:
            continue
        builds = any(s_['k'] == 'assign' and s_['rv']['k'] == 'agg' and s_['rv'].get('adt') == D7 for bi, s_ in statements(f)) or ctor_refs(f, {D7})
        conv = f['name'] == '<%s as core::convert::From<%sDr7Flags>>::from' % (D7, DBG)
        if not (builds or conv):
            continue
        if f.get('unsafe') or f['name'].endswith('_unchecked'):
            continue        # the caller's obligation, stated in its safety contract
        n_build += 1
        st = State()
        args = [I.sym_value(f['locals'][i + 1], 'a%d' % i, st, None, False) for i in range(f['argc'])]
        o = run1(chk, f['name'], args, st)
        bad = []
        seen = [0]

        def visit(v, x):
            if isinstance(v, Struct) and v.name == D7:
                seen[0] += 1
                b = I.norm(x.st, inner(v))
                if any(b.bits[i] != 0 for i in range(64) if not (valid >> i) & 1):
                    bad.append(repr(b))
            if isinstance(v, (Struct, Enum)):
                for y in v.fields:
                    visit(y, x)
        for x in o:
            if x.kind == 'ret':
                visit(x.val, x)
        chk.ob(rule, '%s produces a Dr7Value: no bit outside the valid ones, for every argument' % f['name'].replace(DBG, ''), bool(o) and seen[0] > 0 and not bad,
               '; '.join(bad[:2]) or 'paths %r' % (o,), f['loc'])
    chk.floor('functions besides from_bits / from_bits_truncate that produce a Dr7Value', n_build, 1)
    val = Struct(D7, [BV(64, [lit('d', i) if (valid >> i) & 1 else 0 for i in range(64)])])
    dbits = inner(val).bits
    o = run1(chk, D7 + '::flags', [val])
    chk.ob(rule, 'Dr7Value::flags', len(o) == 1 and same(inner(o[0].val), BV(64, [dbits[i] if (flags_all >> i) & 1 else 0 for i in range(64)])),
           'returns %r' % (o,))
    FT = adt(DBG + 'Dr7Flags')
    fl = I.sym_value(FT, 'fl')
    fb = inner(fl).bits
    from ..bits import b_and, b_not, b_or, b_xor
    for meth, f in (('insert_flags', lambda x, y: b_or(x, y)), ('remove_flags', lambda x, y: b_and(x, b_not(y))), ('toggle_flags', lambda x, y: b_xor(x, y))):
        st = State()
        ref = arg_obj(st, 'self', val)
        o = run1(chk, D7 + '::' + meth, [ref, fl], st)
        fin = inner(o[0].st.mem[('arg', 'self')]) if len(o) == 1 else None
        want = BV(64, [f(x, y) for x, y in zip(dbits, fb)])
        chk.ob(rule, 'Dr7Value::' + meth, fin is not None and same(fin, want), 'final %r expected %r' % (fin, want))
    for value in (0, 1):
        st = State()
        ref = arg_obj(st, 'self', val)
        o = run1(chk, D7 + '::set_flags', [ref, fl, BV.const(1, value)], st)
        fin = inner(o[0].st.mem[('arg', 'self')]) if len(o) == 1 else None
        want = BV(64, [(b_or(x, y) if value else b_and(x, b_not(y))) for x, y in zip(dbits, fb)])
        chk.ob(rule, 'Dr7Value::set_flags(%d)' % value, fin is not None and same(fin, want), 'final %r expected %r' % (fin, want))
    BC = DBG + 'BreakpointCondition'
    BS = DBG + 'BreakpointSize'
    for n in range(4):
        nv = enum_val(I, DARN, 'Dr%d' % n)
        for (get, set_, EN, base) in (('condition', 'set_condition', BC, 16 + 4 * n), ('size', 'set_size', BS, 18 + 4 * n)):
            for vn, enc in AC.ENUMS[EN].items():
                # getter on a value whose field holds `enc`
                gb = list(dbits)
                gb[base] = enc & 1
                gb[base + 1] = (enc >> 1) & 1
                st = State()
                ref = arg_obj(st, 'self', Struct(D7, [BV(64, gb)]))
                o = run1(chk, D7 + '::' + get, [ref, nv], st)
                ok = len(o) == 1 and o[0].kind == 'ret' and isinstance(o[0].val, Enum) and o[0].val.vname == vn
                chk.ob(rule, 'Dr7Value::%s<Dr%d>(field=%d)' % (get, n, enc), ok, 'returns %r, expected %s' % (o, vn))
                # setter: only bits base, base+1 change
                st = State()
                ref = arg_obj(st, 'self', val)
                o = run1(chk, D7 + '::' + set_, [ref, nv, enum_val(I, EN, vn)], st)
                fin = inner(o[0].st.mem[('arg', 'self')]) if len(o) == 1 and o[0].kind == 'ret' else None
                wb = list(dbits)
                wb[base] = enc & 1
                wb[base + 1] = (enc >> 1) & 1
                chk.ob(rule, 'Dr7Value::%s<Dr%d>(%s)' % (set_, n, vn), fin is not None and same(fin, BV(64, wb)),
                       'final %r, expected bits %d..%d := %d and all others unchanged' % (fin, base, base + 1, enc))


def pcid_codec(chk, I, rule='codec'):
    """Pcid::new accepts exactly the 12-bit values (the representation invariant C16's PCID writes rely on)"""
    fn_ = 'instructions::tlb::Pcid::new'
    outs = run1(chk, fn_, [BV.sym(16, 'v')])
    exhaustive(chk, rule, 'Pcid::new', outs, {'v': 16},
               lambda a: ('ret', ('Ok', (a['v'],))) if a['v'] < 4096 else ('ret', ('Err', (a['v'],))), site=fn_site(I, fn_))
