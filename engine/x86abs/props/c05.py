"""C05 - stepping treats the canonical address space as one contiguous sequence."""
from spec import paging as SP

from ..bits import BV, Aff, lit
from ..interp import State, Unsupported
from ..values import UNIT, Enum, Ref, Struct
from .common import newtype, SIZES, U64, USIZE, adt, arg_obj, bv, declare, eval_value, fn_site, inner, same, size_ty, sl
from .c03 import canonical
from .c07 import half_va, wrap_sites

LEVEL = 'other'
VA = 'addr::VirtAddr'
PG = 'structures::paging::page::Page'
PTI = 'structures::paging::page_table::PageTableIndex'
M64 = (1 << 64) - 1
SPACE = 1 << 48
TOPFIX = 0xffff000000000000     # address - position for the upper half


def pos_aff(I, st, abits, half):
    """position of a canonical address in the contiguous sequence of 2^48 canonical addresses (oracle):
    lower half: the address itself; upper half: address - 0xffff_0000_0000_0000"""
    a = I.aff_of(st, abits)
    return a if half == 'lower' else a.add(Aff({}, -TOPFIX))


def result_pos(I, st, v):
    """position of a result value: its low 48 bits as an integer"""
    v = I.norm(st, v)
    return BV(64, list(v.bits[0:48]) + [0] * 16).get_aff()


def run(chk):
    I = chk.I
    chk.trusted += ['x86abs interval component, exact affine definitions, models of checked_add/checked_sub/checked_mul/try_from/bit_field',
                    'oracle: position of a canonical address = its low 48 bits (lower half: the address; upper half: address - 0xffff_0000_0000_0000)']
    chk.explanation = ('Decided per (half of start) case for all counts: (D1) no overflow-check site or wrapping op in the step code can wrap; (D2) every address produced is canonical; '
                       '(D3, exactness) forward/backward_checked_u64 return the address whose position is position(start) +/- count and return None exactly when that position is outside 0..2^48, '
                       'steps_between_u64 returns position(end) - position(start) for every ordered pair of halves and None exactly when end < start; (D4) Page steps pass count*SIZE (checked) to the '
                       'address step and rebuild the page from its result, steps_between divides by SIZE, the Step impls delegate; (D5) PageTableIndex steps stay below 512 and are exact. '
                       'Not decided: mutual inverse of forward/backward/steps_between as a composed statement (it follows from the three exactness results by arithmetic on positions, argued not computed).')
    G = chk.guard
    G('address-step', 'forward/backward', lambda: addr_steps(chk))
    G('address-step', 'steps_between', lambda: steps_between(chk))
    G('index-step', 'table indices', lambda: index_steps(chk))
    G('step-overrides', 'provided Step methods', lambda: step_overrides(chk))
    chk.floor('obligations', len(chk.obs), 100)


def run_case(chk, fn_, args, st, sub=None):
    chk.count('function-instances')
    outs = chk.I.run(fn_, args, st, sub)
    chk.count('paths', len(outs))
    return outs


def step_cases():
    """(label, Step impl type name, generic substitution, log2 of the step size, constructor of the start value)"""
    yield 'VirtAddr', VA, None, 0
    for sname, sb in SIZES.items():
        yield 'Page<%s>' % sname, PG + '<S>', {'S': size_ty(sname)}, sb


def mk_start(tyname, bits):
    return Struct(VA, [bits]) if tyname == VA else newtype(None, PG, Struct(VA, [bits]))


def addr_steps(chk, rules=None, rule_name=None):
    """forward_checked / backward_checked of the public `Step` impls of VirtAddr and Page<S>, end to end (the crate-private helpers they
    go through are inlined by the interpreter, so their names, signatures and number are free to change)"""
    I = chk.I
    for label, T, sub, sb in step_cases():
        scale = 1 << sb
        for meth, sign in (('forward_checked', +1), ('backward_checked', -1)):
            fn_ = '<%s as core::iter::Step>::%s' % (T, meth)
            for half in ('lower', 'upper'):
                st = State()
                b, r = half_va('start', half, sb) if sb else half_va('start', half)
                v = mk_start(T if T == VA else PG, b)
                declare(st, v, {'start': r, 'count': [(0, M64)]})
                outs = run_case(chk, fn_, [v, BV.sym(64, 'count')], st, sub)
                tagc = 'Step::%s for %s from the %s half' % (meth, label, half)
                sites = set()
                for o in outs:
                    sites |= set(wrap_sites(o))
                if rules is None:
                    chk.ob('no-silent-wrap', tagc, not sites and all(o.kind == 'ret' for o in outs),     'unproved overflow sites %r; paths %r' % (sorted(sites, key=repr), [o.kind for o in outs]), fn_site(I, fn_))
                somes = [o for o in outs if o.kind == 'ret' and o.val.vname == 'Some']
                nones = [o for o in outs if o.kind == 'ret' and o.val.vname == 'None']
                okc = bool(somes)
                oke = bool(somes)
                bad = None
                for o in somes:
                    res = I.norm(o.st, inner(o.val.fields[0]))
                    if not canonical(res.bits):
                        rr = I.rng_of(o.st, res)
                        if not rr or not all(bb < (1 << 47) or aa >= (1 << 64) - (1 << 47) for aa, bb in rr):
                            okc = False
                    if sb and not all(x == 0 for x in res.bits[:sb]):
                        okc = False
                    want = pos_aff(I, o.st, I.resub(o.st, b), half).add(Aff({('count', 0, 64): scale}, 0), sign)
                    got = result_pos(I, o.st, res)
                    if not I.aff_equal(o.st, got, want):
                        oke = False
                        bad = (res, got, want)
                chk.ob(rule_name or 'canonical', '%s: every Some(..) is canonical%s' % (tagc, ' and size-aligned' if sb else ''), okc and all(o.kind == 'ret' for o in outs), 'paths %r' % (somes,), fn_site(I, fn_))
                if rules is not None:
                    continue
                chk.ob('exact-step', '%s: Some(a) with position(a) = position(start) %s count%s' % (tagc, '+' if sign > 0 else '-', (' * %#x' % scale) if sb else ''), oke, 'mismatch %r' % (bad,),
                       fn_site(I, fn_), sample=[repr(inner(o.val.fields[0])) for o in somes][:3])
                # None exactly when the position does not exist
                okn = bool(nones)
                why = []
                for o in nones:
                    cr = o.st.rng.get('count')
                    reason = None
                    if any(n[0] == 'checked_mul overflows' and n[1] == 1 for n in o.st.notes):
                        reason = 'count * SIZE >= 2^64'
                    elif cr and min(a for a, _ in cr) * scale > SPACE:
                        reason = 'count * step > 2^48'
                    else:
                        # the sum / difference left the 48-bit position space on this path
                        for nm, rg in o.st.rng.items():
                            d = o.st.defs.get(nm)
                            if d is None or not rg:
                                continue
                            if sign > 0 and nm.startswith('add#'):
                                base = 0 if half == 'lower' else TOPFIX
                                if min(a for a, _ in rg) - base >= SPACE:
                                    reason = 'position(start) + count >= 2^48 (sum in %#x..)' % min(a for a, _ in rg)
                            if sign < 0 and nm.startswith('sub#'):
                                base = 0 if half == 'lower' else TOPFIX
                                if max(bb for _, bb in rg) < base:
                                    reason = 'position(start) - count < 0 (difference below %#x)' % base
                            if nm.startswith('mul#') and min(a for a, _ in rg) > SPACE:
                                reason = 'count * SIZE > 2^48'
                        if reason is None:
                            for n in o.st.notes:
                                if n[0] == 'checked_add overflows' and n[1] == 1 and sign > 0 and half == 'upper':
                                    reason = 'start + count >= 2^64, i.e. position(start) + count >= 2^48'
                                if n[0] == 'checked_sub overflows' and n[1] == 1 and sign < 0 and half == 'lower':
                                    reason = 'count > start = position(start)'
                    if reason is None:
                        # however the code found out: on this path the target position start ± count*step is provably outside [0, 2^48)
                        try:
                            tgt = pos_aff(I, o.st, I.resub(o.st, b), half).add(Aff({('count', 0, 64): scale}, 0), sign)
                            # a checked add / sub of exactly that quantity overflowed: it is >= 2^64 / below zero
                            ovf_add = any(n[0] == 'checked_add overflows' and n[1] == 1 for n in o.st.notes)
                            ovf_sub = any(n[0] == 'checked_sub overflows' and n[1] == 1 for n in o.st.notes)
                            for nm, d in o.st.defs.items():
                                if not d[2] and ((sign > 0 and ovf_add and nm.startswith('add#')) or (sign < 0 and ovf_sub and nm.startswith('sub#'))) and \
                                        I.aff_equal(o.st, d[0], tgt):
                                    reason = 'the checked %s of position(start) and count*step overflowed' % ('sum' if sign > 0 else 'difference')
                                rg = o.st.rng.get(nm)
                                if reason is None and d[2] and rg and I.aff_equal(o.st, d[0], tgt) and min(a for a, _ in rg) >= SPACE:
                                    reason = 'the target position itself (%s) is at least 2^48 on this path' % nm
                            tlo, thi = I.aff_range(o.st, tgt)
                            if reason is not None:
                                pass
                            elif tlo >= SPACE:
                                reason = 'position(start) + count*step >= 2^48 on this path (at least %#x)' % tlo
                            elif thi < 0:
                                reason = 'position(start) - count*step < 0 on this path'
                        except Exception:
                            pass
                    if reason is None:
                        okn = False
                    why.append(reason)
                chk.ob('exact-step', '%s: None only when the target position lies outside the 2^48 canonical addresses' % tagc, okn, 'None paths: %r' % (why,), fn_site(I, fn_), sample=why)


def steps_between(chk):
    """Step::steps_between of VirtAddr and Page<S>, end to end: (n, Some(n)) with n = (position(end) - position(start)) / step for ordered
    pairs, (0, None) exactly when end < start"""
    I = chk.I
    for label, T, sub, sb in step_cases():
        scale = 1 << sb
        fn_ = '<%s as core::iter::Step>::steps_between' % T
        for hs in ('lower', 'upper'):
            for he in ('lower', 'upper'):
                st = State()
                sbits, rs = half_va('s', hs, sb) if sb else half_va('s', hs)
                ebits, re_ = half_va('e', he, sb) if sb else half_va('e', he)
                sv, ev = mk_start(T if T == VA else PG, sbits), mk_start(T if T == VA else PG, ebits)
                declare(st, sv, {'s': rs})
                declare(st, ev, {'e': re_})
                a = arg_obj(st, 'start', sv)
                b = arg_obj(st, 'end', ev)
                outs = run_case(chk, fn_, [a, b], st, sub)
                tagc = 'Step::steps_between for %s (start in %s half, end in %s half)' % (label, hs, he)
                ok = bool(outs) and all(o.kind == 'ret' and isinstance(o.val, Struct) and len(o.val.fields) == 2 for o in outs)
                somes = [o for o in outs if ok and o.val.fields[1].vname == 'Some']
                nones = [o for o in outs if ok and o.val.fields[1].vname == 'None']
                okshape = ok and all(same(o.val.fields[0], o.val.fields[1].fields[0]) for o in somes) and all(eval_value(o.val.fields[0], {}) == 0 for o in nones)
                chk.ob('exact-distance', tagc + ': returns (n, Some(n)) or (0, None)', okshape, 'paths %r' % (outs,), fn_site(I, fn_), nontrivial=False)
                if hs == 'upper' and he == 'lower':
                    # end is always before start
                    chk.ob('exact-distance', tagc + ': always None (end before start)', ok and not somes and len(nones) == 1, 'paths %r' % (outs,), fn_site(I, fn_))
                    continue
                oke = bool(somes)
                for o in somes:
                    want = pos_aff(I, o.st, I.resub(o.st, ebits), he).add(pos_aff(I, o.st, I.resub(o.st, sbits), hs), -1)
                    res = I.norm(o.st, o.val.fields[1].fields[0])
                    if sb:
                        # n = d >> log2(step) for one distance value d (both ends are step-aligned, so the division is exact): decide d
                        names = {x[1] for x in res.bits if isinstance(x, tuple) and x[0] == 'v'}
                        k = sum(1 for x in res.bits if isinstance(x, tuple))
                        shifted = len(names) == 1 and all(isinstance(x, tuple) and x[0] == 'v' and not x[3] and x[2] == i + sb for i, x in enumerate(res.bits[:k])) and \
                            all(x == 0 for x in res.bits[k:]) and k + sb >= 47
                        if not shifted:
                            oke = False
                            continue
                        nm = next(iter(names))
                        res = BV(64, [lit(nm, i) for i in range(k + sb)] + [0] * (64 - k - sb))
                    got = I.exact_aff(o.st, I.norm(o.st, res))
                    oke = oke and got is not None and I.aff_equal(o.st, got, want)
                chk.ob('exact-distance', tagc + ': Some((position(end) - position(start))%s)' % ((' / %#x' % scale) if sb else ''), ok and oke, 'paths %r' % (outs,), fn_site(I, fn_),
                       sample=[repr(o.val) for o in somes][:2])
                if hs == he:
                    # the None path is the one on which end < start was found (checked_sub overflowing, or an explicit comparison)
                    okn = len(nones) == 1 and (any(n[0] == 'checked_sub overflows' and n[1] == 1 for n in nones[0].st.notes) or path_says_less(I, nones[0], ebits, sbits))
                    chk.ob('exact-distance', tagc + ': None exactly when end < start', okn and len(somes) == 1, 'paths %r' % (outs,), fn_site(I, fn_))
                else:
                    chk.ob('exact-distance', tagc + ': never None (end is after start)', not nones, 'paths %r' % (outs,), fn_site(I, fn_))


def index_steps(chk):
    I = chk.I
    idx = I.sym_value(adt(PTI), 'i')
    for fn_, sign in (('<%s as core::iter::Step>::forward_checked' % PTI, +1), ('<%s as core::iter::Step>::backward_checked' % PTI, -1)):
        st = State()
        declare(st, idx, {'i': [(0, 511)], 'count': [(0, M64)]})
        outs = run_case(chk, fn_, [idx, BV.sym(64, 'count')], st)
        somes = [o for o in outs if o.kind == 'ret' and o.val.vname == 'Some']
        nones = [o for o in outs if o.kind == 'ret' and o.val.vname == 'None']
        ok = bool(somes) and bool(nones) and len(somes) + len(nones) == len(outs)
        sites = set()
        for o in outs:
            sites |= set(wrap_sites(o))
        for o in somes:
            r = I.norm(o.st, inner(o.val.fields[0]))
            rr = I.rng_of(o.st, r)
            ok = ok and r.w == 16 and rr and max(b for _, b in rr) < 512
            ok = ok and I.aff_equal(o.st, I.exact_aff(o.st, r), Aff({('i', 0, 64): 1, ('count', 0, 64): sign}, 0))
        chk.ob('index-step', 'PageTableIndex::%s: Some(index %s count) below 512, None otherwise, never panics' % (fn_.split('::')[-1], '+' if sign > 0 else '-'), ok and not sites,
               'paths %r sites %r' % (outs, sites), fn_site(I, fn_))
    # steps_between delegates to u16's
    fn_ = '<%s as core::iter::Step>::steps_between' % PTI
    st = State()
    a = arg_obj(st, 'a', I.sym_value(adt(PTI), 'x'))
    b = arg_obj(st, 'b', I.sym_value(adt(PTI), 'y'))
    outs = run_case(chk, fn_, [a, b], st)
    ok = bool(outs) and all(o.kind == 'ret' for o in outs)
    for o in outs:
        calls = [e for e in o.st.events if e[0] == 'call']
        ok = ok and len(calls) == 1 and calls[0][1] == '<u16 as core::iter::Step>::steps_between' and calls[0][2][0].loc == ('arg', 'a') and calls[0][2][1].loc == ('arg', 'b')
        ok = ok and ('steps_between#%d' % calls[0][5]) in repr(o.val)
    chk.ob('index-step', 'PageTableIndex::steps_between = u16::steps_between of the two indices', ok, 'paths %r' % (outs,), fn_site(I, fn_))


def step_overrides(chk):
    """`Step::forward/backward(_unchecked)` are provided methods defined by core through the checked forms (which the rules above decide).
    An impl that overrides one of them must still be the checked form unwrapped: Some(x) -> x, None -> panic."""
    I = chk.I
    impls = [im for im in chk.facts['impls'] if im['trait'] == 'core::iter::Step']
    chk.floor('Step impls', len(impls), 3)
    for im in impls:
        items = {it['name']: it['path'] for it in im['items']}
        short = im['selfs'].split('::')[-1]
        extra = sorted(n for n in items if n not in ('steps_between', 'forward_checked', 'backward_checked'))
        chk.ob('step-overrides', 'Step for %s: steps_between, forward_checked and backward_checked are defined' % short,
               all(n in items for n in ('steps_between', 'forward_checked', 'backward_checked')), 'items %s' % sorted(items), nontrivial=False)
        for n in extra:
            base = {'forward': 'forward_checked', 'backward': 'backward_checked', 'forward_unchecked': 'forward_checked', 'backward_unchecked': 'backward_checked'}.get(n)
            fn_ = items[n]
            if base is None or base not in items or fn_ not in I.fn:
                chk.unproven('step-overrides', 'Step for %s overrides %s' % (short, n), 'cannot relate this override to a checked form', fn_site(I, fn_))
                continue
            target = items[base]
            f = I.fn[fn_]
            st = State()
            sub = {g: size_ty('Size4KiB') for g in f['generics']}
            args = [I.sym_value(I.subst_ty(f['locals'][i + 1], sub), 'arg%d' % i, st) for i in range(f['argc'])]
            saved = set(I.opaque_fns)
            I.opaque_fns |= {target}
            try:
                outs = run_case(chk, fn_, args, st, sub)
            finally:
                I.opaque_fns = saved
            ok = bool(outs)
            why = ''
            for o in outs:
                calls = [e for e in o.st.events if e[0] == 'call' and e[1] == target]
                if len(calls) != 1 or not all(same(x, y) for x, y in zip(calls[0][2], args)):
                    ok, why = False, 'a path does not go through %s(start, count) exactly once' % base
                    continue
                res = [e for e in o.st.events if e[0] == 'opaque-result' and e[1].startswith(target.split('::')[-1] + '#')]
                variant = res[-1][2] if res else None
                if o.kind == 'ret':
                    tagp = '%s#%d' % (target.split('::')[-1], calls[0][5])
                    if variant != 'Some' or tagp not in repr(o.val):
                        ok, why = False, 'returns %r, which is not the payload of %s\'s Some' % (o.val, base)
                elif o.kind == 'panic':
                    if variant != 'None':
                        ok, why = False, 'panics although %s returned Some' % base
                else:
                    ok, why = False, 'path ends with %s' % o.kind
            chk.ob('step-overrides', 'Step for %s: the overridden `%s` is %s(..) unwrapped (Some(x) -> x, None -> panic)' % (short, n, base), ok, why or 'paths %r' % (outs,), fn_site(I, fn_))


def path_says_less(I, o, abits, bbits):
    """did this path branch on a < b (unsigned) being true - in any of the ways the comparison can be written?"""
    from .c07 import canon_rel
    ta, tb = tuple(I.resub(o.st, abits).bits) if hasattr(abits, 'bits') else tuple(abits), tuple(I.resub(o.st, bbits).bits) if hasattr(bbits, 'bits') else tuple(bbits)
    ra, rb = (tuple(abits.bits), tuple(bbits.bits)) if hasattr(abits, 'bits') else (tuple(abits), tuple(bbits))
    for e in o.st.events:
        if e[0] != 'branch':
            continue
        r = canon_rel(e[1])
        if r is None:
            continue
        op, l, rr = r
        truth = e[2]
        for (x, y) in ((ra, rb), (ta, tb)):
            if (op == '<' and l == x and rr == y and truth == 1) or (op == '<=' and l == y and rr == x and truth == 0):
                return True
    return False
