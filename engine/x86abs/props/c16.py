"""C16 - system-register wrappers hit the right register and never lose bits."""
from spec import arch_constants as AC
from spec import instructions as SI
from spec import registers as SR

from ..bits import BV, TOP, Aff, b_or, lit
from ..interp import State, Unsupported
from ..values import UNIT, Array, Enum, Opaque, Ptr, Ref, Struct
from .common import refutes_canonical, asm_not_pure, U16, U64, adt, arg_obj, bv, enum_val, eval_value, fn_site, inner, same, sl

LEVEL = 'proof'
CR = 'registers::control::'
MS = 'registers::model_specific::'
DB = 'registers::debug::'
XC = 'registers::xcontrol::'
SEG = 'registers::segmentation::'
PA = (12, 52)


class Access:
    def __init__(self, kind, reg, value, ev):
        self.kind, self.reg, self.value, self.ev = kind, reg, value, ev

    def __repr__(self):
        return '%s %s = %r' % (self.kind, self.reg, self.value)


def fam(r):
    return r.split('(')[-1].strip(')')


def decode(o):
    """ordered abstract register accesses and opaque calls of one path"""
    out = []
    for e in o.st.events:
        if e[0] == 'call':
            out.append(Access('call', e[1], e, e))
            continue
        if e[0] != 'asm':
            continue
        ins = tuple(SI.insns(e[1]))
        spec = SR.ACCESS.get(ins)
        ops = e[2]
        if spec is None:
            out.append(Access('unknown-asm', e[1], None, e))
            continue
        kind, reg, schema = spec
        val = None
        okshape = True
        if schema is None:
            okshape = not ops
        elif schema[0] in ('out', 'in'):
            i = schema[1]
            # extra operands are only allowed as discarded late outputs (scratch registers)
            extra = [x for j, x in enumerate(ops) if j != i and not (x['k'] == 'out' and x['v'] is None)]
            if i >= len(ops) or ops[i]['k'] != schema[0] or extra:
                okshape = False
            else:
                val = ops[i]['v']
        elif schema[0] == 'edx:eax':
            byf = {}
            for x in ops:
                byf.setdefault(fam(x['reg']), []).append(x)
            want = 'out' if kind == 'read' else 'in'
            try:
                cx = byf['cx'][0]
                ax = byf['ax'][0]
                dx = byf['dx'][0]
                okshape = cx['k'] == 'in' and ax['k'] == want and dx['k'] == want and len(ops) == 3 and \
                    isinstance(ax['v'], BV) and ax['v'].w == 32 and isinstance(dx['v'], BV) and dx['v'].w == 32 and isinstance(cx['v'], BV) and cx['v'].w == 32
                if okshape:
                    val = BV(64, ax['v'].bits + dx['v'].bits)
                    idx = cx['v']
                    reg = (reg, idx.value() if idx.is_const() else repr(idx))
            except (KeyError, IndexError):
                okshape = False
        elif schema[0] == 'mem':
            i = schema[1]
            if i >= len(ops) or ops[i]['k'] != 'in' or len(ops) != 1:
                okshape = False
            else:
                val = ops[i].get('memout') if kind == 'read' else ops[i].get('pointee')
        if not okshape:
            out.append(Access('bad-operands', e[1], ops, e))
        else:
            out.append(Access(kind, reg, val, e))
    return out


def shape(acc):
    return [(a.kind, a.reg) for a in acc]


def merged(allbits, new, old, w=64):
    """bits of `new` where the type models them, bits of `old` elsewhere"""
    return BV(w, [new.bits[i] if (allbits >> i) & 1 else old.bits[i] for i in range(w)])


def canon(v):
    """a 64-bit register value seen as a canonical address (bits 48..63 = bit 47)"""
    return BV(64, list(v.bits[0:48]) + [v.bits[47]] * 16)


def field(v, lo, hi, w, at=0):
    """bits lo..hi of v placed at bit `at` of a w-bit value, zero elsewhere"""
    return BV(w, [0] * at + list(v.bits[lo:hi]) + [0] * (w - at - (hi - lo)))


def masked(v, mask):
    return BV(v.w, [v.bits[i] if (mask >> i) & 1 else 0 for i in range(v.w)])


class W:
    """helper bound to the check: runs wrappers and records obligations"""

    def __init__(self, chk):
        self.chk = chk
        self.I = chk.I
        self.covered_asm_fns = set()

    def run(self, fn_, args, st=None, sub=None):
        self.chk.count('function-instances')
        outs = self.I.run(fn_, args, st if st is not None else State(), sub)
        self.chk.count('paths', len(outs))
        return outs

    def ob(self, inst, ok, detail='', fn_=None, sample=None):
        return self.chk.ob('wrapper', inst, ok, detail, fn_site(self.I, fn_) if fn_ else None, sample=sample)

    def single(self, fn_, outs, label, expect_shape):
        """exactly one path, which returns, with the expected access shape; returns (outcome, accesses) or None"""
        ok = len(outs) == 1 and outs[0].kind == 'ret'
        if not ok:
            self.ob(label + ': one returning path', False, 'paths %r' % (outs,), fn_)
            return None
        acc = decode(outs[0])
        ok = shape(acc) == expect_shape
        self.ob(label + ': accesses exactly %s' % (expect_shape,), ok, 'found %r' % (acc,), fn_, sample=[repr(a) for a in acc])
        return (outs[0], acc) if ok else None

    def flags_all(self, ft):
        crate = self.I.flags_all(ft)
        if ft in SR.FLAG_PREFIX:
            want = SR.modelled_bits(ft)
            self.chk.ob('modelled-bits', ft, crate == want, 'crate models %#x, architecture names %#x' % (crate, want), nontrivial=False)
        return crate

    # ---- generic kinds
    def raw_read(self, fn_, reg, label, w=64, wrap=None):
        r = self.single(fn_, self.run(fn_, []), label, [('read', reg)])
        if r:
            o, acc = r
            v = acc[0].value
            got = inner(o.val) if wrap else o.val
            self.ob(label + ': returns the %d-bit register value unchanged' % w, isinstance(v, BV) and v.w == w and same(got, v), 'returned %r, register %r' % (o.val, v), fn_)

    def raw_write(self, fn_, reg, label, arg, argbits, w=64):
        r = self.single(fn_, self.run(fn_, [arg]), label, [('write', reg)])
        if r:
            o, acc = r
            v = acc[0].value
            self.ob(label + ': writes the given value unchanged', isinstance(v, BV) and v.w == w and same(v, argbits), 'wrote %r, given %r' % (v, argbits), fn_)

    def flags_read(self, fn_, reg, ft, label):
        allb = self.flags_all(ft)
        r = self.single(fn_, self.run(fn_, []), label, [('read', reg)])
        if r:
            o, acc = r
            v = acc[0].value
            self.ob(label + ': returns exactly the modelled bits of the register', same(inner(o.val), masked(v, allb)), 'returned %r of %r' % (o.val, v), fn_)

    def flags_write(self, fn_, reg, ft, label, allb=None, arg=None):
        allb = allb if allb is not None else self.flags_all(ft)
        fl = arg if arg is not None else self.I.sym_value(adt(ft), 'fl')
        r = self.single(fn_, self.run(fn_, [fl]), label, [('read', reg), ('write', reg)])
        if r:
            o, acc = r
            old, new = acc[0].value, acc[1].value
            want = merged(allb, inner(fl), old)
            self.ob(label + ': writes the given fields and preserves every unmodelled bit of the old value', same(new, want),
                    'wrote %r\n      expected %r' % (new, want), fn_, sample=repr(new))

    def flags_update(self, fn_, reg, ft, label, allb=None):
        """read; closure(&mut value) exactly once; write of the closure's value merged into a fresh read"""
        allb = allb if allb is not None else self.flags_all(ft)
        outs = self.run(fn_, [Opaque('the-closure')])
        r = self.single(fn_, outs, label, [('read', reg), ('call', 'core::ops::FnOnce::call_once'), ('read', reg), ('write', reg)])
        if r:
            o, acc = r
            first = acc[0].value
            call = acc[1].ev
            snap = call[6]
            seen = snap[1][0] if isinstance(snap[1], tuple) and snap[1] else None
            self.ob(label + ': the closure sees the typed read', seen is not None and same(inner(seen), masked(first, allb)), 'closure argument %r' % (seen,), fn_)
            old, new = acc[2].value, acc[3].value
            okw = True
            hname = None
            for i in range(64):
                if (allb >> i) & 1:
                    b = new.bits[i]
                    if not (isinstance(b, tuple) and b[0] == 'v' and b[2] == i and not b[3] and b[1].startswith('havoc#')):
                        okw = False
                    elif hname is None:
                        hname = b[1]
                    elif hname != b[1]:
                        okw = False
                elif new.bits[i] != old.bits[i]:
                    okw = False
            self.ob(label + ': writes what the closure left, merged into the current register value', okw, 'wrote %r (old %r)' % (new, old), fn_)


def run(chk):
    chk.trusted += ['spec/registers.py, spec/instructions.py, spec/arch_constants.py (typed in from the manuals)',
                    'hardware semantics of the decoded instructions; values the CPU returns for address registers are canonical',
                    'x86abs models of bit_field, bitflags-generated methods, Option/Result, array::map, to/from_ne_bytes (little endian)']
    w = W(chk)
    G = chk.guard
    G('wrapper', 'control registers', lambda: control(w))
    G('wrapper', 'cr3', lambda: cr3(w))
    G('wrapper', 'debug registers', lambda: debug(w))
    G('wrapper', 'msr', lambda: msr(w))
    G('wrapper', 'msr wrappers', lambda: msr_wrappers(w))
    G('wrapper', 'star', lambda: star(w))
    G('wrapper', 'cet', lambda: cet(w))
    G('wrapper', 'pat', lambda: pat(w))
    G('wrapper', 'apic base', lambda: apic(w))
    G('wrapper', 'xcr0', lambda: xcr0(w))
    G('wrapper', 'segments', lambda: segments(w))
    G('wrapper', 'rflags', lambda: rflags(w))
    G('wrapper', 'mxcsr', lambda: mxcsr(w))
    G('census', 'asm blocks', lambda: census(w))
    chk.guard('asm-options', 'register wrappers', lambda: asm_not_pure(chk, chk.I, 'asm-options', ['src/registers/', 'src/instructions/segmentation.rs', 'src/instructions/tables.rs'], 44))
    chk.floor('wrapper obligations', chk.rules.get('wrapper', 0), 215)


# ------------------------------------------------------------------------------------------------ CR0 / CR2 / CR4
def control(w):
    for reg, T, FT in (('cr0', 'Cr0', 'registers::control::Cr0Flags'), ('cr4', 'Cr4', 'registers::control::Cr4Flags')):
        w.raw_read(CR + T + '::read_raw', reg, T + '::read_raw')
        w.raw_write(CR + T + '::write_raw', reg, T + '::write_raw', BV.sym(64, 'v'), BV.sym(64, 'v'))
        w.flags_read(CR + T + '::read', reg, FT, T + '::read')
        w.flags_write(CR + T + '::write', reg, FT, T + '::write')
        w.flags_update(CR + T + '::update', reg, FT, T + '::update')
    w.raw_read(CR + 'Cr2::read_raw', 'cr2', 'Cr2::read_raw')
    # Cr2::read = VirtAddr::try_new(raw)
    fn_ = CR + 'Cr2::read'
    outs = w.run(fn_, [])
    oks = [o for o in outs if o.kind == 'ret' and isinstance(o.val, Enum) and o.val.vname == 'Ok']
    ers = [o for o in outs if o.kind == 'ret' and isinstance(o.val, Enum) and o.val.vname == 'Err']
    ok = len(outs) == 2 and len(oks) == 1 and len(ers) == 1 and all(shape(decode(o)) == [('read', 'cr2')] for o in outs)
    w.ob('Cr2::read: reads CR2 once; Ok / Err paths only', ok, 'paths %r' % (outs,), fn_)
    if ok:
        v = decode(oks[0])[0].value
        w.ob('Cr2::read: Ok(address) carries the register value (canonical on that path)', same(inner(oks[0].val.fields[0]), canon(v)), 'returned %r' % (oks[0].val,), fn_)
        w.ob('Cr2::read: Err carries the raw value', same(inner(ers[0].val.fields[0]), decode(ers[0])[0].value), 'returned %r' % (ers[0].val,), fn_)


# ------------------------------------------------------------------------------------------------ CR3
def frame_val(I, name='fr'):
    return I.sym_value(adt('structures::paging::frame::PhysFrame', adt('structures::paging::page::Size4KiB')), name)


def cr3(w):
    I = w.I
    P = CR + 'Cr3::'
    lo, hi = SR.CR3_FRAME
    r = w.single(P + 'read_raw', w.run(P + 'read_raw', []), 'Cr3::read_raw', [('read', 'cr3')])
    if r:
        o, acc = r
        v = acc[0].value
        fr, low = o.val.fields
        w.ob('Cr3::read_raw: frame = register bits 12..51', same(inner(fr), field(v, lo, hi, 64, lo)), 'frame %r' % (fr,), P + 'read_raw')
        w.ob('Cr3::read_raw: value = register bits 0..11', same(low, field(v, 0, 12, 16)), 'value %r' % (low,), P + 'read_raw')
    r = w.single(P + 'read', w.run(P + 'read', []), 'Cr3::read', [('read', 'cr3')])
    if r:
        o, acc = r
        v = acc[0].value
        allb = w.flags_all('registers::control::Cr3Flags')
        fr, fl = o.val.fields
        w.ob('Cr3::read: frame = register bits 12..51, flags = modelled bits', same(inner(fr), field(v, lo, hi, 64, lo)) and same(inner(fl), masked(v, allb)),
             'returned %r' % (o.val,), P + 'read')
    r = w.single(P + 'read_pcid', w.run(P + 'read_pcid', []), 'Cr3::read_pcid', [('read', 'cr3')])
    if r:
        o, acc = r
        v = acc[0].value
        fr, pc = o.val.fields
        w.ob('Cr3::read_pcid: frame = bits 12..51, PCID = bits 0..11', same(inner(fr), field(v, lo, hi, 64, lo)) and same(inner(pc), field(v, 0, 12, 16)),
             'returned %r' % (o.val,), P + 'read_pcid')
    fr = frame_val(I)
    fb = inner(fr).bits
    FT = adt('registers::control::Cr3Flags')
    fl = I.sym_value(FT, 'fl')
    allb = I.flags_all('registers::control::Cr3Flags')
    r = w.single(P + 'write', w.run(P + 'write', [fr, fl]), 'Cr3::write', [('write', 'cr3')])
    if r:
        v = r[1][0].value
        want = BV(64, [inner(fl).bits[i] if (allb >> i) & 1 else fb[i] for i in range(64)])
        w.ob('Cr3::write: frame address | flags, bit 63 clear', same(v, want), 'wrote %r expected %r' % (v, want), P + 'write')
    pc = I.sym_value(adt('instructions::tlb::Pcid'), 'pcid')
    # the PCID writes below assume a Pcid is below 4096 (else it would spill into the frame address): its only constructor says so
    from .c19 import pcid_codec
    w.chk.guard('wrapper', 'Pcid::new', lambda: pcid_codec(w.chk, I, 'wrapper'))
    for fn_, top in (('write_pcid', 0), ('write_pcid_no_flush', 1)):
        r = w.single(P + fn_, w.run(P + fn_, [fr, pc]), 'Cr3::' + fn_, [('write', 'cr3')])
        if r:
            v = r[1][0].value
            want = BV(64, list(inner(pc).bits[0:12]) + list(fb[12:63]) + [top])
            w.ob('Cr3::%s: frame address | PCID, bit 63 = %d' % (fn_, top), same(v, want), 'wrote %r expected %r' % (v, want), P + fn_)
    val = bv(16, sl('val', 0, 12), (0, 4))
    r = w.single(P + 'write_raw', w.run(P + 'write_raw', [fr, val]), 'Cr3::write_raw', [('write', 'cr3')])
    if r:
        v = r[1][0].value
        want = BV(64, list(val.bits[0:12]) + list(fb[12:64]))
        w.ob('Cr3::write_raw: frame address | 12-bit value', same(v, want), 'wrote %r expected %r' % (v, want), P + 'write_raw')
    # update variants: read; closure(&mut frame, &mut x) once; write of what the closure left
    for fn_, rd, top in (('update', 'flags', 0), ('update_pcid', 'pcid', 0), ('update_pcid_no_flush', 'pcid', 1)):
        outs = w.run(P + fn_, [Opaque('the-closure')])
        r = w.single(P + fn_, outs, 'Cr3::' + fn_, [('read', 'cr3'), ('call', 'core::ops::FnOnce::call_once'), ('write', 'cr3')])
        if r:
            o, acc = r
            v0 = acc[0].value
            snap = acc[1].ev[6][1]
            okc = isinstance(snap, tuple) and len(snap) == 2 and same(inner(snap[0]), field(v0, lo, hi, 64, lo))
            if rd == 'flags':
                okc = okc and same(inner(snap[1]), masked(v0, allb))
            else:
                okc = okc and same(inner(snap[1]), field(v0, 0, 12, 16))
            w.ob('Cr3::%s: the closure sees the typed read (frame, %s)' % (fn_, rd), okc, 'closure arguments %r' % (snap,), P + fn_)
            v = acc[2].value
            # written value: frame bits from one havoc symbol, low bits from another
            okw = all(isinstance(v.bits[i], tuple) and v.bits[i][0] == 'v' and v.bits[i][1].startswith('havoc#') and v.bits[i][2] == i for i in range(12, 52))
            lowset = [i for i in range(12) if (rd == 'pcid' or (allb >> i) & 1)]
            okw = okw and all(isinstance(v.bits[i], tuple) and v.bits[i][1].startswith('havoc#') and v.bits[i][2] == i for i in lowset)
            okw = okw and all(v.bits[i] == 0 for i in range(12) if i not in lowset) and v.bits[63] == top and all(v.bits[i] == 0 for i in range(52, 63))
            w.ob('Cr3::%s: writes the frame and %s the closure left, bit 63 = %d' % (fn_, rd, top), okw, 'wrote %r' % (v,), P + fn_)


# ------------------------------------------------------------------------------------------------ debug registers
def debug(w):
    for n in range(4):
        T = '<registers::debug::Dr%d as registers::debug::DebugAddressRegister>::' % n
        w.raw_read(T + 'read', 'dr%d' % n, 'Dr%d::read' % n)
        w.raw_write(T + 'write', 'dr%d' % n, 'Dr%d::write' % n, BV.sym(64, 'a'), BV.sym(64, 'a'))
    w.raw_read(DB + 'Dr6::read_raw', 'dr6', 'Dr6::read_raw')
    w.flags_read(DB + 'Dr6::read', 'dr6', 'registers::debug::Dr6Flags', 'Dr6::read')
    w.raw_read(DB + 'Dr7::read_raw', 'dr7', 'Dr7::read_raw')
    w.raw_write(DB + 'Dr7::write_raw', 'dr7', 'Dr7::write_raw', BV.sym(64, 'v'), BV.sym(64, 'v'))
    valid = SR.DR7_FIELDS | SR.modelled_bits('registers::debug::Dr7Flags')
    w.flags_all('registers::debug::Dr7Flags')
    fn_ = DB + 'Dr7::read'
    r = w.single(fn_, w.run(fn_, []), 'Dr7::read', [('read', 'dr7')])
    if r:
        o, acc = r
        w.ob('Dr7::read: returns exactly the flag and field bits', same(inner(o.val), masked(acc[0].value, valid)), 'returned %r' % (o.val,), fn_)
    val = Struct('registers::debug::Dr7Value', [BV(64, [lit('d', i) if (valid >> i) & 1 else 0 for i in range(64)])])
    w.flags_write(DB + 'Dr7::write', 'dr7', None, 'Dr7::write', allb=valid, arg=val)
    w.flags_update(DB + 'Dr7::update', 'dr7', None, 'Dr7::update', allb=valid)
    # the typed view of DR7 is only as good as its field accessors: each condition / size getter decodes the field its setter encodes
    # (per breakpoint, independent of the other bits) - C19's DR7 codec rules, run here under this property's name
    from .c19 import dr7value
    w.chk.guard('wrapper', 'Dr7Value fields', lambda: dr7value(w.chk, 'dr7-fields'))


# ------------------------------------------------------------------------------------------------ MSRs
def msr(w):
    I = w.I
    M_ = MS + 'Msr::'
    st = State()
    ref = arg_obj(st, 'self', Struct('registers::model_specific::Msr', [BV.sym(32, 'idx')]))
    outs = w.run(M_ + 'read', [ref], st)
    ok = len(outs) == 1 and outs[0].kind == 'ret'
    acc = decode(outs[0]) if ok else []
    ok = ok and len(acc) == 1 and acc[0].kind == 'read' and acc[0].reg[0] == 'msr'
    w.ob('Msr::read: one rdmsr with the index in ecx, value in edx:eax', ok and same(acc[0].ev[2][0]['v'] if fam(acc[0].ev[2][0]['reg']) == 'cx' else
                                                                               [x for x in acc[0].ev[2] if fam(x['reg']) == 'cx'][0]['v'], BV.sym(32, 'idx')),
         'accesses %r' % (acc,), M_ + 'read')
    if ok:
        w.ob('Msr::read: returns edx:eax', same(outs[0].val, acc[0].value), 'returned %r of %r' % (outs[0].val, acc[0].value), M_ + 'read')
    st = State()
    ref = arg_obj(st, 'self', Struct('registers::model_specific::Msr', [BV.sym(32, 'idx')]))
    outs = w.run(M_ + 'write', [ref, BV.sym(64, 'v')], st)
    ok = len(outs) == 1 and outs[0].kind == 'ret'
    acc = decode(outs[0]) if ok else []
    ok = ok and len(acc) == 1 and acc[0].kind == 'write' and acc[0].reg[0] == 'msr'
    w.ob('Msr::write: one wrmsr with the index in ecx', ok and same([x for x in acc[0].ev[2] if fam(x['reg']) == 'cx'][0]['v'], BV.sym(32, 'idx')), 'accesses %r' % (acc,), M_ + 'write')
    if ok:
        w.ob('Msr::write: edx:eax = the given 64-bit value', same(acc[0].value, BV.sym(64, 'v')), 'wrote %r' % (acc[0].value,), M_ + 'write')


def mreg(name):
    return ('msr', AC.ARCH[SR.MSR_OF[name]])


def msr_wrappers(w):
    I = w.I
    # EFER
    w.raw_read(MS + 'Efer::read_raw', mreg('Efer'), 'Efer::read_raw')
    w.raw_write(MS + 'Efer::write_raw', mreg('Efer'), 'Efer::write_raw', BV.sym(64, 'v'), BV.sym(64, 'v'))
    FT = 'registers::model_specific::EferFlags'
    w.flags_read(MS + 'Efer::read', mreg('Efer'), FT, 'Efer::read')
    w.flags_write(MS + 'Efer::write', mreg('Efer'), FT, 'Efer::write')
    w.flags_update(MS + 'Efer::update', mreg('Efer'), FT, 'Efer::update')
    # address-valued MSRs
    for T in ('FsBase', 'GsBase', 'KernelGsBase', 'LStar'):
        fn_ = MS + T + '::read'
        outs = w.run(fn_, [])
        rets = [o for o in outs if o.kind == 'ret']
        pans = [o for o in outs if o.kind != 'ret']
        ok = len(rets) == 1 and shape(decode(rets[0])) == [('read', mreg(T))]
        if ok:
            v = decode(rets[0])[0].value
            ok = same(inner(rets[0].val), canon(v))
        w.ob('%s::read: reads its MSR once and returns the address' % T, ok, 'paths %r' % (outs,), fn_)
        w.ob('%s::read: panics only for a non-canonical register value' % T, all(shape(decode(o)) == [('read', mreg(T))] and
             refutes_canonical(I, o, decode(o)[0].value) for o in pans), 'panic paths %r' % ([o.st.notes for o in pans],), fn_)
        va = I.sym_value(adt('addr::VirtAddr'), 'a')
        w.raw_write(MS + T + '::write', mreg(T), T + '::write', va, inner(va))
    # SFMASK
    RF = 'registers::rflags::RFlags'
    allb = w.flags_all(RF)
    fn_ = MS + 'SFMask::read'
    outs = w.run(fn_, [])
    rets = [o for o in outs if o.kind == 'ret']
    ok = len(rets) == 1 and shape(decode(rets[0])) == [('read', mreg('SFMask'))]
    if ok:
        v = decode(rets[0])[0].value
        ok = same(inner(rets[0].val), masked(v, allb))
    w.ob('SFMask::read: the register value as RFlags (rejects unmodelled bits by panicking)', ok and all(o.kind == 'panic' for o in outs if o not in rets), 'paths %r' % (outs,), fn_)
    fl = I.sym_value(adt(RF), 'fl')
    w.raw_write(MS + 'SFMask::write', mreg('SFMask'), 'SFMask::write', fl, inner(fl))
    fn_ = MS + 'SFMask::update'
    outs = w.run(fn_, [Opaque('the-closure')])
    rets = [o for o in outs if o.kind == 'ret']
    ok = len(rets) == 1 and shape(decode(rets[0])) == [('read', mreg('SFMask')), ('call', 'core::ops::FnOnce::call_once'), ('write', mreg('SFMask'))]
    if ok:
        acc = decode(rets[0])
        v = acc[2].value
        ok = all((isinstance(v.bits[i], tuple) and v.bits[i][1].startswith('havoc#') and v.bits[i][2] == i) if (allb >> i) & 1 else v.bits[i] == 0 for i in range(64))
    w.ob('SFMask::update: read, closure once, write of what the closure left', ok, 'paths %r' % (outs,), fn_)


# ------------------------------------------------------------------------------------------------ STAR
def star(w):
    I = w.I
    S = MS + 'Star::'
    reg = mreg('Star')
    r = w.single(S + 'read_raw', w.run(S + 'read_raw', []), 'Star::read_raw', [('read', reg)])
    if r:
        o, acc = r
        v = acc[0].value
        a, b = o.val.fields
        w.ob('Star::read_raw: (bits 48..63, bits 32..47)', same(a, BV(16, v.bits[SR.STAR_SYSRET[0]:SR.STAR_SYSRET[1]])) and same(b, BV(16, v.bits[SR.STAR_SYSCALL[0]:SR.STAR_SYSCALL[1]])),
             'returned %r' % (o.val,), S + 'read_raw')
    # read: (sysret+16, sysret+8, syscall, syscall+8) -- SYSRET: CS = base+16, SS = base+8; SYSCALL: CS = base, SS = base+8
    outs = w.run(S + 'read', [])
    rets = [o for o in outs if o.kind == 'ret']
    ok = len(rets) == 1 and shape(decode(rets[0])) == [('read', reg)]
    if ok:
        v = decode(rets[0])[0].value
        sra = BV(16, v.bits[SR.STAR_SYSRET[0]:SR.STAR_SYSRET[1]]).get_aff()
        sca = BV(16, v.bits[SR.STAR_SYSCALL[0]:SR.STAR_SYSCALL[1]]).get_aff()
        want = [sra.add(Aff({}, 16)), sra.add(Aff({}, 8)), sca, sca.add(Aff({}, 8))]
        got = [I.aff_of(rets[0].st, inner(x)) for x in rets[0].val.fields]
        ok = all(g is not None and g.norm(16) == wv.norm(16) for g, wv in zip(got, want))
        w.ob('Star::read: selectors (SYSRET base+16, base+8, SYSCALL base, base+8)', ok, 'returned %r' % (rets[0].val,), S + 'read', sample=[repr(g) for g in got])
    else:
        w.ob('Star::read: one returning path reading STAR once', False, 'paths %r' % (outs,), S + 'read')
    w.ob('Star::read: other paths are u16 overflow panics of the selector additions only',
         all(o.kind == 'panic' and 'Overflow(Add)' in str(o.val) for o in outs if o not in rets), 'paths %r' % ([o.val for o in outs if o not in rets],), S + 'read')
    r = w.single(S + 'write_raw', w.run(S + 'write_raw', [BV.sym(16, 'sr'), BV.sym(16, 'sc')]), 'Star::write_raw', [('write', reg)])
    if r:
        v = r[1][0].value
        want = bv(64, (0, 32), sl('sc', 0, 16), sl('sr', 0, 16))
        w.ob('Star::write_raw: bits 48..63 = sysret base, 32..47 = syscall base, rest 0', same(v, want), 'wrote %r' % (v,), S + 'write_raw')
    # write: validation, reject-without-writing, written value
    SSn = 'registers::segmentation::SegmentSelector'
    sels = [Struct(SSn, [BV.sym(16, nm)]) for nm in ('cs_sysret', 'ss_sysret', 'cs_syscall', 'ss_syscall')]
    outs = w.run(S + 'write', sels)
    oks = [o for o in outs if o.kind == 'ret' and o.val.vname == 'Ok']
    errs = [o for o in outs if o.kind == 'ret' and o.val.vname == 'Err']
    other = [o for o in outs if o.kind != 'ret']
    w.ob('Star::write: every rejecting path writes nothing', bool(errs) and all(not decode(o) for o in errs), 'err paths with accesses: %r' % ([decode(o) for o in errs if decode(o)],), S + 'write')
    w.ob('Star::write: no panicking path after a write', all(not [a for a in decode(o) if a.kind == 'write'] for o in other), 'paths %r' % (other,), S + 'write')
    # which error for which condition
    def has_fact(o, diff, truth):
        for k, tv in o.st.facts.items():
            if isinstance(k, tuple) and len(k) == 3 and k[1] == 'affeq':
                wd, key = k[2]
                a = Aff(dict(key[0]), key[1])
                if (a.norm(16) == diff.norm(16) or a.scale(-1).norm(16) == diff.norm(16)) and tv == truth:
                    return True
        return False
    d_sysret = Aff({('cs_sysret', 0, 16): 1, ('ss_sysret', 0, 16): -1}, -8)       # CS - SS = (base+16) - (base+8)
    d_syscall = Aff({('ss_syscall', 0, 16): 1, ('cs_syscall', 0, 16): -1}, -8)    # SS - CS = 8
    by = {}
    for o in errs:
        by.setdefault(o.val.fields[0].vname, []).append(o)
    w.ob('Star::write: Err(SysretOffset) exactly when CS_sysret - SS_sysret != 8', 'SysretOffset' in by and all(has_fact(o, d_sysret, 0) for o in by['SysretOffset']) and
         all(has_fact(o, d_sysret, 1) for o in outs if o not in by.get('SysretOffset', [])), 'facts %r' % ([list(o.st.facts.items())[:3] for o in by.get('SysretOffset', [])],), S + 'write')
    w.ob('Star::write: Err(SyscallOffset) exactly when SS_syscall - CS_syscall != 8', 'SyscallOffset' in by and all(has_fact(o, d_syscall, 0) for o in by['SyscallOffset']) and
         all(has_fact(o, d_syscall, 1) for o in outs if o not in by.get('SysretOffset', []) + by.get('SyscallOffset', [])), 'paths %d' % len(outs), S + 'write')

    def rpl_of(o, sym):
        a, b = o.st.env.get((sym, 0)), o.st.env.get((sym, 1))
        return (a | (b << 1)) if a in (0, 1) and b in (0, 1) else None
    w.ob('Star::write: Err(SysretPrivilegeLevel) exactly when SS_sysret.RPL != 3', 'SysretPrivilegeLevel' in by and all(rpl_of(o, 'ss_sysret') in (0, 1, 2) for o in by['SysretPrivilegeLevel']) and
         all(rpl_of(o, 'ss_sysret') == 3 for o in by.get('SyscallPrivilegeLevel', []) + oks), 'rpls %r' % ([rpl_of(o, 'ss_sysret') for o in outs],), S + 'write')
    w.ob('Star::write: Err(SyscallPrivilegeLevel) exactly when SS_syscall.RPL != 0', 'SyscallPrivilegeLevel' in by and all(rpl_of(o, 'ss_syscall') in (1, 2, 3) for o in by['SyscallPrivilegeLevel']) and
         all(rpl_of(o, 'ss_syscall') == 0 for o in oks), 'rpls %r' % ([rpl_of(o, 'ss_syscall') for o in outs],), S + 'write')
    okw = len(oks) == 1 and shape(decode(oks[0])) == [('write', reg)]
    if okw:
        # compositional: the accepting path calls write_raw(SS_sysret - 8, CS_syscall) (write_raw is decided above for all arguments)
        calls = [e for e in oks[0].st.events if e[0] == 'icall' and e[1] == S + 'write_raw']
        okc = len(calls) == 1
        if okc:
            a0, a1 = calls[0][2]
            ss = BV(16, [1, 1] + sl('ss_sysret', 2, 16))     # RPL = 3 on this path
            want0 = ss.get_aff().add(Aff({}, -8))
            g0 = I.aff_of(oks[0].st, a0)
            okc = g0 is not None and g0.norm(16) == want0.norm(16) and same(a1, BV.sym(16, 'cs_syscall'))
        w.ob('Star::write: accepting path programs SYSRET base = SS_sysret - 8 and SYSCALL base = CS_syscall, once', okc,
             'write_raw calls %r' % ([c[2] for c in calls],), S + 'write')
        v = decode(oks[0])[0].value
        w.ob('Star::write: written value has bits 32..47 = CS_syscall and a zero low half', all(b == 0 for b in v.bits[0:32]) and same(BV(16, v.bits[32:48]), BV.sym(16, 'cs_syscall')),
             'wrote %r' % (v,), S + 'write')
    else:
        w.ob('Star::write: exactly one accepting path, writing STAR once', False, 'ok paths %r' % (oks,), S + 'write')


# ------------------------------------------------------------------------------------------------ CET
def cet(w):
    I = w.I
    FT = 'registers::model_specific::CetFlags'
    allb = w.flags_all(FT)
    PG = adt('structures::paging::page::Page', adt('structures::paging::page::Size4KiB'))
    for T in ('UCet', 'SCet'):
        reg = mreg(T)
        P = MS + T + '::'
        # read_raw / write_raw are private here: checked when present, the public read / write / update rules below are end to end
        if P + 'read_raw' in I.fn:
            w.raw_read(P + 'read_raw', reg, T + '::read_raw')
        if P + 'write_raw' in I.fn:
            w.raw_write(P + 'write_raw', reg, T + '::write_raw', BV.sym(64, 'v'), BV.sym(64, 'v'))
        outs = w.run(P + 'read', [])
        rets = [o for o in outs if o.kind == 'ret']
        ok = len(rets) == 1 and shape(decode(rets[0])) == [('read', reg)]
        if ok:
            v = decode(rets[0])[0].value
            fl, pg = rets[0].val.fields
            ok = same(inner(fl), masked(v, allb)) and same(inner(pg), BV(64, [0] * 12 + list(v.bits[12:48]) + [v.bits[47]] * 16))
        w.ob('%s::read: (modelled flag bits, bitmap page = bits 12..63)' % T, ok, 'paths %r' % (outs,), P + 'read')
        w.ob('%s::read: other paths panic (non-canonical bitmap address only)' % T, all(o.kind == 'panic' for o in outs if o not in rets) and len(outs) - len(rets) <= 1, 'paths %r' % (outs,), P + 'read')
        fl = I.sym_value(adt(FT), 'fl')
        pg = I.sym_value(PG, 'pg')
        r = w.single(P + 'write', w.run(P + 'write', [fl, pg]), T + '::write', [('write', reg)])
        if r:
            v = r[1][0].value
            want = BV(64, [b_or(inner(fl).bits[i], inner(pg).bits[i]) for i in range(64)])
            w.ob('%s::write: flags | bitmap page address (disjoint fields)' % T, same(v, want) and all(inner(fl).bits[i] == 0 for i in range(12, 64)) and all(inner(pg).bits[i] == 0 for i in range(12)),
                 'wrote %r' % (v,), P + 'write')
        outs = w.run(P + 'update', [Opaque('the-closure')])
        rets = [o for o in outs if o.kind == 'ret']
        ok = len(rets) == 1 and shape(decode(rets[0])) == [('read', reg), ('call', 'core::ops::FnOnce::call_once'), ('write', reg)]
        if ok:
            v = decode(rets[0])[2].value
            ok = all(isinstance(v.bits[i], tuple) and v.bits[i][0] == 'v' and v.bits[i][1].startswith('havoc#') for i in range(12, 48)) and \
                all((isinstance(v.bits[i], tuple) and v.bits[i][1].startswith('havoc#')) if (allb >> i) & 1 else v.bits[i] == 0 for i in range(12))
        w.ob('%s::update: read, closure once, write of what the closure left' % T, ok, 'paths %r' % (outs,), P + 'update')


# ------------------------------------------------------------------------------------------------ PAT
def pat(w):
    I = w.I
    P = MS + 'Pat::'
    reg = mreg('Pat')
    PMT = 'registers::model_specific::PatMemoryType'
    r = w.single(P + 'read', w.run(P + 'read', []), 'Pat::read', [('read', reg)])
    if r:
        o, acc = r
        v = acc[0].value
        arr = o.val
        ok = isinstance(arr, Array) and arr.length == 8
        clos = set()
        if ok:
            for i in range(8):
                e, _ = arr.get(BV.const(64, i))
                ok = ok and isinstance(e, Struct) and e.name == 'mapped' and same(e.fields[1], BV(8, v.bits[8 * i:8 * i + 8]))
                if ok:
                    clos.add(getattr(e.fields[0], 'name', repr(e.fields[0])))
        w.ob('Pat::read: entry i = f(byte i of the register) for one conversion f', ok and len(clos) == 1, 'returned %r' % (arr,), P + 'read')
        if ok and len(clos) == 1:
            cn = list(clos)[0]
            from .common import exhaustive
            inv = {d: k for k, d in AC.ENUMS[PMT].items()}
            st = State()
            outs = I.run(cn, [Opaque('env'), BV.sym(8, 'v')], st) if I.fn[cn]['argc'] == 2 else I.run(cn, [BV.sym(8, 'v')], st)
            exhaustive(w.chk, 'wrapper', 'Pat::read conversion: byte -> memory type with that encoding, panic for reserved encodings', outs, {'v': 8},
                       lambda a: ('ret', (inv[a['v']],)) if a['v'] in inv else ('panic',), site=fn_site(I, cn))
    # write: byte i = encoding of entry i
    tbl = Array('table', {BV.const(64, i).key(): (BV.const(64, i), Enum(PMT, None, None, (), BV.sym(8, 't%d' % i))) for i in range(8)}, length=8)
    r = w.single(P + 'write', w.run(P + 'write', [tbl]), 'Pat::write', [('write', reg)])
    if r:
        v = r[1][0].value
        want = BV(64, sum([sl('t%d' % i, 0, 8) for i in range(8)], []))
        w.ob('Pat::write: byte i of the register = encoding of entry i', same(v, want), 'wrote %r' % (v,), P + 'write')


# ------------------------------------------------------------------------------------------------ APIC base
def apic(w):
    I = w.I
    P = MS + 'ApicBase::'
    reg = mreg('ApicBase')
    FT = 'registers::model_specific::ApicBaseFlags'
    allb = w.flags_all(FT)
    lo, hi = SR.APIC_BASE_ADDR
    r = w.single(P + 'read_raw', w.run(P + 'read_raw', []), 'ApicBase::read_raw', [('read', reg)])
    if r:
        o, acc = r
        v = acc[0].value
        fr, raw = o.val.fields
        w.ob('ApicBase::read_raw: (frame = bits 12..51, raw value)', same(inner(fr), field(v, lo, hi, 64, lo)) and same(raw, v), 'returned %r' % (o.val,), P + 'read_raw')
    r = w.single(P + 'read', w.run(P + 'read', []), 'ApicBase::read', [('read', reg)])
    if r:
        o, acc = r
        v = acc[0].value
        fr, fl = o.val.fields
        w.ob('ApicBase::read: (frame = bits 12..51, modelled flag bits)', same(inner(fr), field(v, lo, hi, 64, lo)) and same(inner(fl), masked(v, allb)),
             'returned %r' % (o.val,), P + 'read')
    fr = frame_val(I)
    fb = inner(fr).bits
    r = w.single(P + 'write_raw', w.run(P + 'write_raw', [fr, BV.sym(64, 'v')]), 'ApicBase::write_raw', [('write', reg)])
    if r:
        v = r[1][0].value
        want = BV(64, [b_or(lit('v', i), fb[i]) for i in range(64)])
        w.ob('ApicBase::write_raw: raw flags | frame address', same(v, want), 'wrote %r' % (v,), P + 'write_raw')
    fl = I.sym_value(adt(FT), 'fl')
    r = w.single(P + 'write', w.run(P + 'write', [fr, fl]), 'ApicBase::write', [('read', reg), ('write', reg)])
    if r:
        old, new = r[1][0].value, r[1][1].value
        want = BV(64, [inner(fl).bits[i] if (allb >> i) & 1 else (fb[i] if lo <= i < hi else old.bits[i]) for i in range(64)])
        w.ob('ApicBase::write: stores the given frame and flags, preserves every other bit', same(new, want), 'wrote %r\n      expected %r' % (new, want), P + 'write')


# ------------------------------------------------------------------------------------------------ XCR0
def xcr0_valid(v):
    A = AC.ARCH
    if not v & A['XCR0.X87']:
        return False
    if v & A['XCR0.AVX'] and not v & A['XCR0.SSE']:
        return False
    mpx = A['XCR0.BNDREG'] | A['XCR0.BNDCSR']
    if v & mpx and (v & mpx) != mpx:
        return False
    a512 = A['XCR0.OPMASK'] | A['XCR0.ZMM_HI256'] | A['XCR0.HI16_ZMM']
    if v & a512 and ((v & a512) != a512 or not v & A['XCR0.AVX']):
        return False
    return True


def xcr0(w):
    I = w.I
    P = XC + 'XCr0::'
    reg = ('xcr', SR.XCR0_INDEX)
    FT = 'registers::xcontrol::XCr0Flags'
    allb = w.flags_all(FT)
    w.raw_read(P + 'read_raw', reg, 'XCr0::read_raw')
    w.raw_write(P + 'write_raw', reg, 'XCr0::write_raw', BV.sym(64, 'v'), BV.sym(64, 'v'))
    w.flags_read(P + 'read', reg, FT, 'XCr0::read')
    bitpos = [i for i in range(64) if (allb >> i) & 1]
    bad = None
    n = 0
    for m in range(1 << len(bitpos)):
        val = 0
        for j, p in enumerate(bitpos):
            if (m >> j) & 1:
                val |= 1 << p
        fl = I.wrap_scalar(adt(FT), BV.const(64, val))
        outs = I.run(P + 'write', [fl])
        n += 1
        if xcr0_valid(val):
            ok = len(outs) == 1 and outs[0].kind == 'ret' and shape(decode(outs[0])) == [('read', reg), ('write', reg)]
            if ok:
                acc = decode(outs[0])
                ok = same(acc[1].value, merged(allb, BV.const(64, val), acc[0].value))
        else:
            ok = bool(outs) and all(o.kind == 'panic' and not [a for a in decode(o) if a.kind == 'write'] for o in outs)
        if not ok:
            bad = (val, outs)
            break
    w.chk.count('function-instances', n)
    w.ob('XCr0::write: for each of the %d flag sets: architecturally valid -> merged write; invalid -> panic without writing' % (1 << len(bitpos)), bad is None,
         ('flags %#x: paths %r' % bad) if bad else '%d flag sets' % n, P + 'write', sample={'flag sets': n})
    w.flags_update(P + 'update', reg, FT, 'XCr0::update') if False else None
    # update: read; closure; then write() which may reject
    outs = w.run(P + 'update', [Opaque('the-closure')])
    okp = bool(outs)
    for o in outs:
        sh = shape(decode(o))
        if o.kind == 'ret':
            okp = okp and sh == [('read', reg), ('call', 'core::ops::FnOnce::call_once'), ('read', reg), ('write', reg)]
        else:
            okp = okp and sh == [('read', reg), ('call', 'core::ops::FnOnce::call_once'), ('read', reg)]
    w.ob('XCr0::update: read, closure once, then write (or reject without writing)', okp, 'paths %r' % ([shape(decode(o)) for o in outs],), P + 'update')


# ------------------------------------------------------------------------------------------------ segments
def segments(w):
    I = w.I
    SSn = 'registers::segmentation::SegmentSelector'
    for s in ('CS', 'SS', 'DS', 'ES', 'FS', 'GS'):
        P = '<registers::segmentation::%s as registers::segmentation::Segment>::' % s
        r = w.single(P + 'get_reg', w.run(P + 'get_reg', []), '%s::get_reg' % s, [('read', s.lower())])
        if r:
            o, acc = r
            v = acc[0].value
            w.ob('%s::get_reg: returns the 16-bit selector' % s, isinstance(v, BV) and v.w == 16 and same(inner(o.val), v), 'returned %r' % (o.val,), P + 'get_reg')
        sel = Struct(SSn, [BV.sym(16, 'sel')])
        r = w.single(P + 'set_reg', w.run(P + 'set_reg', [sel]), '%s::set_reg' % s, [('write', s.lower())])
        if r:
            v = r[1][0].value
            if s == 'CS':
                ok = isinstance(v, BV) and v.w == 64 and same(v, bv(64, sl('sel', 0, 16), (0, 48)))
            else:
                ok = isinstance(v, BV) and v.w == 16 and same(v, BV.sym(16, 'sel'))
            w.ob('%s::set_reg: loads the given selector' % s, ok, 'operand %r' % (v,), P + 'set_reg')
    for s in ('FS', 'GS'):
        P = '<registers::segmentation::%s as registers::segmentation::Segment64>::' % s
        r = w.single(P + 'read_base', w.run(P + 'read_base', []), '%s::read_base' % s, [('read', s.lower() + 'base')])
        if r:
            o, acc = r
            w.ob('%s::read_base: returns the base register' % s, same(inner(o.val), acc[0].value), 'returned %r' % (o.val,), P + 'read_base')
        va = I.sym_value(adt('addr::VirtAddr'), 'a')
        r = w.single(P + 'write_base', w.run(P + 'write_base', [va]), '%s::write_base' % s, [('write', s.lower() + 'base')])
        if r:
            w.ob('%s::write_base: writes the given address' % s, same(r[1][0].value, inner(va)), 'operand %r' % (r[1][0].value,), P + 'write_base')
    fn_ = SEG + 'GS::swap'
    w.single(fn_, w.run(fn_, []), 'GS::swap', [('swap', 'gsbase<->kernelgsbase')])
    fn_ = 'instructions::tables::load_tss'
    r = w.single(fn_, w.run(fn_, [Struct(SSn, [BV.sym(16, 'sel')])]), 'load_tss', [('write', 'tr')])
    if r:
        w.ob('load_tss: loads the given selector', same(r[1][0].value, BV.sym(16, 'sel')), 'operand %r' % (r[1][0].value,), fn_)


# ------------------------------------------------------------------------------------------------ RFLAGS / MXCSR
def rflags(w):
    P = 'registers::rflags::'
    FT = 'registers::rflags::RFlags'
    w.raw_read(P + 'read_raw', 'rflags', 'rflags::read_raw')
    w.raw_write(P + 'write_raw', 'rflags', 'rflags::write_raw', BV.sym(64, 'v'), BV.sym(64, 'v'))
    w.flags_read(P + 'read', 'rflags', FT, 'rflags::read')
    w.flags_write(P + 'write', 'rflags', FT, 'rflags::write')
    w.flags_update(P + 'update', 'rflags', FT, 'rflags::update')


def mxcsr(w):
    I = w.I
    P = 'registers::mxcsr::'
    FT = 'registers::mxcsr::MxCsr'
    allb = I.flags_all(FT)
    w.chk.ob('modelled-bits', FT, allb == SR.MXCSR_MODELLED, 'crate models %#x, architecture defines %#x' % (allb, SR.MXCSR_MODELLED), nontrivial=False)
    r = w.single(P + 'read', w.run(P + 'read', []), 'mxcsr::read', [('read', 'mxcsr')])
    if r:
        o, acc = r
        v = acc[0].value
        w.ob('mxcsr::read: stmxcsr into a local, returns its modelled bits', isinstance(v, BV) and v.w == 32 and same(inner(o.val), masked(v, allb)), 'returned %r of %r' % (o.val, v), P + 'read')
    fl = I.sym_value(adt(FT), 'fl')
    r = w.single(P + 'write', w.run(P + 'write', [fl]), 'mxcsr::write', [('write', 'mxcsr')])
    if r:
        v = r[1][0].value
        w.ob('mxcsr::write: ldmxcsr from a location holding the given value', v is not None and same(inner(v), inner(fl)), 'operand memory %r' % (v,), P + 'write')
    outs = w.run(P + 'update', [Opaque('the-closure')])
    r = w.single(P + 'update', outs, 'mxcsr::update', [('read', 'mxcsr'), ('call', 'core::ops::FnOnce::call_once'), ('write', 'mxcsr')])
    if r:
        o, acc = r
        snap = acc[1].ev[6][1]
        seen = snap[0] if isinstance(snap, tuple) and snap else None
        v = acc[2].value
        okw = v is not None and all((isinstance(inner(v).bits[i], tuple) and inner(v).bits[i][1].startswith('havoc#')) if (allb >> i) & 1 else inner(v).bits[i] == 0 for i in range(32))
        w.ob('mxcsr::update: closure sees the typed read; what it leaves is loaded', seen is not None and same(inner(seen), masked(acc[0].value, allb)) and okw, 'closure saw %r, loaded %r' % (seen, v), P + 'update')


# ------------------------------------------------------------------------------------------------ census
def census(w):
    """every asm block the register / segment wrappers execute decodes to an architectural access known to the oracle"""
    from ..interp import Interp
    n = 0
    unknown = []
    for f in w.chk.facts['fns']:
        nm = f['name']
        for b in f['blocks']:
            t = b['t']
            # wherever the wrappers live: the blocks this property's interpretations executed
            if t and t['k'] == 'asm' and (nm, t['loc']) in Interp.ASM_TOUCHED:
                n += 1
                tpl = ''.join(p['s'] if 's' in p else '{%d%s}' % (p['op'], (':' + p['mod']) if p['mod'] else '') for p in t['tpl'])
                if tuple(SI.insns(tpl)) not in SR.ACCESS:
                    unknown.append((nm, tpl))
    w.chk.floor('asm blocks in register/segment wrappers', n, 44)
    w.chk.ob('census', 'every asm block of the register and segment wrappers is a known architectural access', not unknown, 'unknown: %r' % (unknown,))
