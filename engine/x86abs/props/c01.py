"""C01 - page tables built by any mapper mean what an MMU would read from them (necessary conditions per operation)."""
from spec import mapper as SM
from spec import paging as SP

from ..bits import BV, TOP, lit
from ..interp import State, Unsupported
from ..values import UNIT, Enum, Opaque, Ptr, Ref, Struct
from .common import SIZES, adt, bv, fn_site, inner, same, size_ty, sl
from .mapper import (DOM, FL, FR, MAPPED, MP, OFFSET, PG, REC, MapperLab, compatible, flag_args, impl_fn, map_args, norm_result)

LEVEL = 'other'
IMPLS = ('mapped', 'recursive')
SIZES3 = ('Size4KiB', 'Size2MiB', 'Size1GiB')
OPS = (('map_to_with_table_flags', map_args), ('unmap', None), ('update_flags', flag_args), ('translate_page', None),
       ('set_flags_p4_entry', flag_args), ('set_flags_p3_entry', flag_args), ('set_flags_p2_entry', flag_args))


def run(chk):
    chk.trusted += ['spec/paging.py, spec/mapper.py', 'page-table entries are all-zero or PRESENT; leaf and parent flags as quantified by the property',
                    'PageTable::zero (C08), index accessors (C04), recursive addresses (C20) - re-derived here by inlining']
    chk.explanation = ('Decided per operation (not over call histories): (D1) every slot a mapper operation tests or writes lies in a table whose level is known from how its pointer was obtained '
                       '(level 4 = the root; one level down per frame_to_pointer of a tested entry / per recursive address form) and is indexed by that level\'s index of the operation\'s own page; '
                       '(D2) a successful map_to writes exactly one leaf slot, previously unused, with frame | flags (| HUGE_PAGE for huge sizes); update_flags keeps the address; '
                       '(D3) unmap returns the frame read from the slot it then clears; (D4) translate returns, per walk state, the size/frame/offset/flags an MMU walk would, translate_addr = frame + offset, '
                       'translate_page the leaf address; (D5) map_to derives parent flags as flags & (PRESENT|WRITABLE|USER), identity_map maps the frame\'s own address; (D6) OffsetPageTable forwards '
                       'every call unchanged and PhysOffset::frame_to_pointer adds the offset; (D7) MappedPageTable and RecursivePageTable produce the same outcome in every walk state. '
                       'Not decided: that the composition of operations over a call history yields the translation the history dictates.')
    lab = MapperLab(chk)
    runs = {}
    for impl in IMPLS:
        for size in SIZES3:
            for op, extra in OPS:
                def one(impl=impl, size=size, op=op, extra=extra):
                    runs[(impl, size, op)] = lab.run(impl, size, op, extra)
                chk.guard('run', '%s %s %s' % (impl, size, op), one)
        chk.guard('run', '%s translate' % impl, lambda impl=impl: runs.__setitem__((impl, None, 'translate'), lab.run(impl, None, 'translate')))
    chk.floor('operation instances analysed', len(runs), 44)
    for key, (fn_, pss) in sorted(runs.items(), key=lambda kv: repr(kv[0])):
        site = lab.I.fn[fn_]['loc']
        chk.guard('level-index', repr(key), lambda: typestate(chk, lab, key, pss, site))
    for impl in IMPLS:
        for size in SIZES3:
            chk.guard('leaf-write', '%s %s' % (impl, size), lambda impl=impl, size=size: leaf_rules(chk, lab, impl, size, runs))
        chk.guard('translate', impl, lambda impl=impl: translate_rules(chk, lab, impl, runs))
    chk.guard('siblings', 'agreement', lambda: siblings(chk, runs))
    chk.guard('defaults', 'map_to / identity_map', lambda: defaults(chk, lab))
    chk.guard('delegation', 'OffsetPageTable', lambda: delegation(chk, lab))
    chk.guard('constructors', 'mapper constructors and accessors', lambda: constructors(chk, lab))
    # clean-up calls are part of the histories: the structural rules of C10 (only empty tables are unlinked and freed, emptiness is
    # judged over the whole table, nothing else is written) are what keeps every translation unchanged
    from . import c10

    def cleanup_rules():
        for impl in ('mapped', 'recursive'):
            c10.helper(chk, impl)
            c10.entry_points(chk, impl)
    chk.guard('clean-up', 'clean_up / clean_up_addr_range', cleanup_rules)


def lbl(key):
    impl, size, op = key
    return '%s::%s%s' % ({'mapped': 'MappedPageTable', 'recursive': 'RecursivePageTable', 'offset': 'OffsetPageTable'}[impl], op, '<%s>' % size if size else '')


# ------------------------------------------------------------------------------------------------ D1
def typestate(chk, lab, key, pss, site):
    impl, size, op = key
    bad = set()
    n = 0
    for ps in pss:
        for p in ps.problems:
            bad.add(p)
        for s in ps.steps:
            if s.k in ('test', 'write'):
                n += 1
                if s.level is None:
                    bad.add('slot of a table of unknown level: %s' % (s.table[:60],))
                elif not lab.index_ok(s.level, s.idx, 'page', size):
                    bad.add('level-%d table indexed by %r, not by the page\'s level-%d index' % (s.level, s.idx, s.level))
            elif s.k == 'deref':
                n += 1
                if s.level is None:
                    bad.add('dereference of a table of unknown level (%s)' % (s.table[:60],))
            elif s.k == 'write-other':
                bad.add('write outside page-table slots: %r' % (s.ref,))
    chk.count('slot accesses checked', n)
    chk.ob('level-index', lbl(key), not bad and n > 0 or (not bad and op.startswith('set_flags') and n == 0), '; '.join(sorted(bad)) or '%d slot accesses' % n, site)


# ------------------------------------------------------------------------------------------------ D2 / D3
def leaf_rules(chk, lab, impl, size, runs):
    I = lab.I
    leaf = SM.LEAF_LEVEL[size]
    sb = SIZES[size]
    huge = leaf > 1
    # map_to
    fn_, pss = runs[(impl, size, 'map_to_with_table_flags')]
    site = I.fn[fn_]['loc']
    oks = [ps for ps in pss if ps.result()[0] == 'Ok']
    good = bool(oks)
    detail = ''
    want = BV(64, [1] + [lit('fl', i) for i in range(1, 7)] + [1 if huge else lit('fl', 7)] + [lit('fl', i) for i in range(8, 12)] + [0] * (sb - 12) +
              [lit('frame', i) for i in range(sb, 52)] + [lit('fl', i) for i in range(52, 64)])
    for ps in oks:
        lw = [s for s in ps.steps if s.k == 'write' and s.level == leaf]
        if len(lw) != 1:
            good = False
            detail = '%d writes to the level-%d slot' % (len(lw), leaf)
            continue
        w = lw[0]
        if not (isinstance(w.old, BV) and w.old.is_const() and w.old.value() == 0):
            good = False
            detail = 'leaf slot not known unused when written: %r' % (w.old,)
        if not same(w.new, want):
            good = False
            detail = 'leaf value %r, expected %r' % (w.new, want)
        if ps.steps[-1] is not w and any(s.k == 'write' for s in ps.steps[ps.steps.index(w) + 1:]):
            good = False
            detail = 'writes after the leaf write'
    chk.ob('leaf-write', '%s: Ok paths write exactly one, previously unused, level-%d slot with frame | flags%s' % (lbl((impl, size, 'map_to')), leaf, ' | HUGE_PAGE' if huge else ''), good, detail, site,
           sample=repr(want))
    # parent entries on the successful paths: a fresh link carries exactly the requested parent flags; an existing entry keeps
    # every bit it had (address and the rights earlier maps asked for) and gains the requested ones
    goodp = bool(oks)
    detailp = ''
    np_ = 0
    for ps in oks:
        for s in ps.steps:
            if s.k != 'write' or s.level is None or s.level <= leaf:
                continue
            np_ += 1
            old, new = s.old, s.new
            if not (isinstance(old, BV) and isinstance(new, BV)):
                goodp, detailp = False, 'level-%d entry written with %r' % (s.level, new)
                continue
            pf = {1: lit('pf', 1), 2: lit('pf', 2)}
            pfk = {i: ps.st.env.get(('pf', i)) for i in pf}     # value of the requested bit when this path has fixed it
            if old.is_const() and old.value() == 0:
                # (the recursive mapper links new tables WRITABLE regardless: the rights must *include* the requested ones)
                okw = new.bits[0] == 1 and all(new.bits[i] == 1 or new.bits[i] == (pfk[i] if pfk[i] is not None else pf[i]) for i in (1, 2)) and \
                    all(new.bits[i] == 0 for i in list(range(3, 12)) + list(range(52, 64)))
            else:
                okw = True
                for i, (ob, nb) in enumerate(zip(old.bits, new.bits)):
                    if i == 0:
                        okw = okw and nb in (1, ob)
                    elif i in pf:
                        sym_or = isinstance(nb, tuple) and nb[0] == 'or' and ob in nb[1] and pf[i] in nb[1]
                        okw = okw and (sym_or or (pfk[i] == 0 and nb == ob) or (pfk[i] == 1 and nb == 1) or (ob == 1 and nb == 1) or (ob == 0 and pfk[i] is None and nb == pf[i]))
                    else:
                        okw = okw and nb == ob
            if not okw:
                goodp = False
                detailp = 'level-%d entry: %r -> %r' % (s.level, old, new)
    chk.ob('parent-write', '%s: Ok paths leave in every parent entry the bits it had plus PRESENT and the requested WRITABLE/USER_ACCESSIBLE' % lbl((impl, size, 'map_to')),
           goodp, detailp or '%d parent writes' % np_, site)
    # update_flags: keeps the address bits, replaces the flags
    fn_, pss = runs[(impl, size, 'update_flags')]
    site = I.fn[fn_]['loc']
    oks = [ps for ps in pss if ps.result()[0] == 'Ok']
    good = bool(oks)
    detail = ''
    for ps in oks:
        lw = [s for s in ps.steps if s.k == 'write']
        if len(lw) != 1 or lw[0].level != leaf:
            good = False
            detail = 'writes %r' % (lw,)
            continue
        w = lw[0]
        nb, ob = w.new.bits, w.old.bits
        okv = all(nb[i] == ob[i] for i in range(12, 52)) and all(nb[i] == lit('fl', i) for i in list(range(1, 7)) + list(range(8, 12)) + list(range(52, 64))) and nb[0] == 1 and \
            nb[7] == (1 if huge else lit('fl', 7))
        if not okv:
            good = False
            detail = 'slot %r -> %r' % (w.old, w.new)
    chk.ob('leaf-write', '%s: Ok paths replace the flags of the level-%d slot and keep its address' % (lbl((impl, size, 'update_flags')), leaf), good, detail, site)
    # set_flags_pK_entry: writes the level-K slot, keeps the address
    for K in (4, 3, 2):
        fn_, pss = runs[(impl, size, 'set_flags_p%d_entry' % K)]
        site = I.fn[fn_]['loc']
        oks = [ps for ps in pss if ps.result()[0] == 'Ok']
        if K <= leaf:
            chk.ob('leaf-write', '%s: never succeeds (no such parent entry for this page size)' % lbl((impl, size, 'set_flags_p%d_entry' % K)), not oks and bool(pss) and
                   all(not [s for s in ps.steps if s.k == 'write'] for ps in pss), 'paths %r' % ([ps.result() for ps in pss],), site)
            continue
        good = bool(oks)
        detail = ''
        for ps in oks:
            lw = [s for s in ps.steps if s.k == 'write']
            okv = len(lw) == 1 and lw[0].level == K and all(lw[0].new.bits[i] == lw[0].old.bits[i] for i in range(12, 52)) and \
                all(lw[0].new.bits[i] == (lit('fl', i) if i else 1) for i in range(64) if (DOM >> i) & 1)
            if not okv:
                good = False
                detail = 'writes %r' % (lw,)
        chk.ob('leaf-write', '%s: Ok paths replace the flags of the level-%d slot and keep its address' % (lbl((impl, size, 'set_flags_p%d_entry' % K)), K), good, detail, site)
    # unmap: returns the frame read from the slot it clears
    fn_, pss = runs[(impl, size, 'unmap')]
    site = I.fn[fn_]['loc']
    oks = [ps for ps in pss if ps.result()[0] == 'Ok']
    good = bool(oks)
    detail = ''
    for ps in oks:
        lw = [s for s in ps.steps if s.k == 'write']
        if len(lw) != 1 or lw[0].level != leaf or not (lw[0].new.is_const() and lw[0].new.value() == 0):
            good = False
            detail = 'writes %r' % (lw,)
            continue
        frame, flush = ps.result()[1].fields
        fb = inner(frame).bits
        ob = lw[0].old.bits
        # the returned frame is the address field of the old slot value (size-aligned on this path)
        okf = all(fb[i] == ob[i] for i in range(sb, 52)) and all(fb[i] == 0 for i in list(range(0, sb)) + list(range(52, 64)))
        okp = same(inner(flush), inner(lab.I.sym_value(adt(PG, size_ty(size)), 'page')))
        if not (okf and okp):
            good = False
            detail = 'returned %r from slot %r' % (ps.result()[1], lw[0].old)
    chk.ob('leaf-write', '%s: Ok paths clear the level-%d slot and return the frame it held and the page' % (lbl((impl, size, 'unmap')), leaf), good, detail, site)
    # translate_page: returns the slot's address
    fn_, pss = runs[(impl, size, 'translate_page')]
    site = I.fn[fn_]['loc']
    oks = [ps for ps in pss if ps.result()[0] == 'Ok']
    good = bool(oks)
    detail = ''
    for ps in oks:
        fb = inner(ps.result()[1]).bits
        names = {b[1] for b in fb if isinstance(b, tuple) and b[0] == 'v'}
        lv = None
        if len(names) == 1 and next(iter(names)) in ps.names:
            tk, iv = ps.names[next(iter(names))]
            lv = ps.levels.get(tk)
            nm = next(iter(names))
            okv = lv == leaf and lab.index_ok(leaf, iv, 'page', size) and all(fb[i] == lit(nm, i) for i in range(sb, 52)) and all(fb[i] == 0 for i in list(range(sb)) + list(range(52, 64)))
        else:
            okv = False
        if not okv or [s for s in ps.steps if s.k == 'write']:
            good = False
            detail = 'returned %r (level %s)' % (ps.result()[1], lv)
    chk.ob('leaf-write', '%s: Ok paths return the address stored in the page\'s level-%d slot and write nothing' % (lbl((impl, size, 'translate_page')), leaf), good, detail, site)


# ------------------------------------------------------------------------------------------------ D4
def translate_rules(chk, lab, impl, runs):
    I = lab.I
    fn_, pss = runs[(impl, None, 'translate')]
    site = I.fn[fn_]['loc']
    allb = I.flags_all(FL)
    for state in SM.states_for('Size4KiB'):
        want = SM.expect_translate(state)
        comp = [ps for ps in pss if compatible(ps, state)]
        got = set()
        okv = True
        detail = ''
        for ps in comp:
            r = ps.result()
            if ps.kind != 'ret':
                got.add((ps.kind,))
                continue
            v = ps.val
            if v.vname != 'Mapped':
                got.add((v.vname, None))
                continue
            mf, offset, flags = v.fields
            size = mf.vname
            got.add(('Mapped', size))
            sb = SIZES[size]
            lvl = SM.LEAF_LEVEL[size]
            fb = inner(mf.fields[0]).bits
            names = {b[1] for b in fb if isinstance(b, tuple) and b[0] == 'v'}
            if len(names) != 1 or next(iter(names)) not in ps.names:
                okv = False
                detail = 'frame %r is not read from one slot' % (mf,)
                continue
            nm = next(iter(names))
            tk, iv = ps.names[nm]
            okf = ps.levels.get(tk) == lvl and lab.index_ok(lvl, iv, 'page', None) and all(fb[i] == lit(nm, i) for i in range(sb, 52)) and all(fb[i] == 0 for i in list(range(sb)) + list(range(52, 64)))
            oko = same(offset, bv(64, sl('page', 0, sb), (0, 64 - sb)))
            flb = inner(flags).bits
            okl = all(flb[i] == ((lit(nm, i) if i else 1) if (allb >> i) & 1 else 0) or (i == 7 and flb[i] in (1, lit(nm, 7))) or (i == 12 and sb > 12 and flb[i] in (0, lit(nm, 12))) for i in range(64))
            if not (okf and oko and okl):
                okv = False
                detail = 'Mapped{%r, offset %r, flags %r} from level-%s slot' % (mf, offset, flags, ps.levels.get(tk))
            if [s for s in ps.steps if s.k == 'write']:
                okv = False
                detail = 'translate writes a slot'
        chk.ob('translate', '%s in state %s: %s' % (lbl((impl, None, 'translate')), '/'.join(state), want), got == {want} and okv, 'paths give %s %s' % (sorted(got, key=repr), detail), site)
    # translate_addr = frame.start_address() + offset on the Mapped paths, None otherwise
    tfn = MP + 'Translate::translate_addr'
    selfty = adt(MAPPED if impl == 'mapped' else REC)
    st = lab.setup(impl)
    saved = lab.I.lookup_impl
    lab.I.lookup_impl = lambda trait, method, targs: (fn_ if method == 'translate' else saved(trait, method, targs))
    try:
        outs = lab.I.run(tfn, [Ref(('arg', 'self')), lab.I.sym_value(adt('addr::VirtAddr'), 'page')], st, {'Self': selfty, 'P': {'k': 'param', 'name': 'P'}})
    finally:
        lab.I.lookup_impl = saved
    chk.count('function-instances')
    good = bool(outs)
    n_some = 0
    detail = ''
    for o in outs:
        if o.kind != 'ret':
            if o.kind == 'panic' and 'level 4' not in str(o.val):
                pass
            continue
        if o.val.vname == 'Some':
            n_some += 1
            pb = inner(o.val.fields[0]).bits
            # low bits = address offset, upper bits = one slot's address field
            names = {b[1] for b in pb if isinstance(b, tuple) and b[0] == 'v' and b[1] != 'page'}
            k = 0
            while k < 52 and pb[k] == lit('page', k):
                k += 1
            okv = k in (12, 21, 30) and len(names) == 1 and all(pb[i] == lit(next(iter(names)), i) for i in range(k, 52)) and all(pb[i] == 0 for i in range(52, 64))
            if not okv:
                good = False
                detail = 'returned %r' % (o.val,)
    chk.ob('translate', '%s::translate_addr = Some(frame start + offset) on mapped paths' % {'mapped': 'MappedPageTable', 'recursive': 'RecursivePageTable'}[impl], good and n_some == 3,
           detail or '%d Some paths' % n_some, fn_site(lab.I, tfn))


# ------------------------------------------------------------------------------------------------ D7
def siblings(chk, runs):
    for size in SIZES3:
        for op, _ in OPS:
            a = runs.get(('mapped', size, op))
            b = runs.get(('recursive', size, op))
            if a is None or b is None:
                chk.unproven('sibling-agreement', '%s<%s>' % (op, size), 'one implementation could not be analysed')
                continue
            if op.startswith('set_flags_p'):
                states = [(s, ()) for s in SM.states_for(size, entry_level=max(int(op[11]), SM.LEAF_LEVEL[size]))]
            elif op == 'map_to_with_table_flags':
                states = []
                for s in SM.states_for(size):
                    n = SM.allocs_needed(size, s)
                    for al in [tuple([True] * n)] + [tuple([True] * j + [False]) for j in range(n)]:
                        states.append((s, al))
            else:
                states = [(s, ()) for s in SM.states_for(size)]
            diff = []
            for s, al in states:
                ga = {norm_result(ps) for ps in a[1] if compatible(ps, s, al)}
                gb = {norm_result(ps) for ps in b[1] if compatible(ps, s, al)}
                if ga != gb:
                    diff.append(('/'.join(s), sorted(ga), sorted(gb)))
            chk.ob('sibling-agreement', '%s<%s>: MappedPageTable and RecursivePageTable agree in all %d walk states' % (op, size, len(states)), not diff, 'differences %r' % (diff[:3],))
    a = runs.get(('mapped', None, 'translate'))
    b = runs.get(('recursive', None, 'translate'))
    diff = []
    for s in SM.states_for('Size4KiB'):
        def res(ps):
            if ps.kind != 'ret':
                return (ps.kind,)
            return (ps.val.vname, ps.val.fields[0].vname if ps.val.vname == 'Mapped' else None)
        ga = {res(ps) for ps in a[1] if compatible(ps, s)}
        gb = {res(ps) for ps in b[1] if compatible(ps, s)}
        if ga != gb:
            diff.append(('/'.join(s), sorted(ga, key=repr), sorted(gb, key=repr)))
    chk.ob('sibling-agreement', 'translate: MappedPageTable and RecursivePageTable agree in all walk states', not diff, 'differences %r' % (diff[:3],))


# ------------------------------------------------------------------------------------------------ D5
def defaults(chk, lab):
    I = lab.I
    for impl in IMPLS:
        for size in SIZES3:
            target = impl_fn(impl, size, 'map_to_with_table_flags')
            selfty = adt(MAPPED if impl == 'mapped' else REC)
            S = size_ty(size)
            st = lab.setup(impl)
            saved = set(I.opaque_fns)
            savedl = I.lookup_impl
            I.opaque_fns |= {target}
            I.lookup_impl = lambda trait, method, targs, target=target: (target if method == 'map_to_with_table_flags' else savedl(trait, method, targs))
            try:
                pg = I.sym_value(adt(PG, S), 'page')
                fr = I.sym_value(adt(FR, S), 'frame')
                fl = lab.flags('fl')
                outs = I.run(MP + 'Mapper::map_to', [Ref(('arg', 'self')), pg, fr, fl, Opaque('allocator')], st, {'Self': selfty, 'S': S, 'A': {'k': 'param', 'name': 'A'}})
            finally:
                I.opaque_fns = saved
                I.lookup_impl = savedl
            chk.count('function-instances')
            ok = bool(outs) and all(o.kind == 'ret' for o in outs)
            for o in outs:
                calls = [e for e in o.st.events if e[0] == 'call' and e[1] == target]
                ok = ok and len(calls) == 1
                if ok:
                    a = calls[0][2]
                    fb = inner(fl).bits
                    want_pf = BV(64, [fb[0], fb[1], fb[2]] + [0] * 61)
                    ok = same(a[0], Ref(('arg', 'self'))) and same(a[1], pg) and same(a[2], fr) and same(a[3], fl) and same(inner(a[4]), want_pf) and same_arg(a[5], Opaque('allocator'))
            chk.ob('defaults', '%s::map_to<%s> passes parent flags = flags & (PRESENT | WRITABLE | USER_ACCESSIBLE)' % ({'mapped': 'MappedPageTable', 'recursive': 'RecursivePageTable'}[impl], size),
                   ok, 'paths %r' % (outs,), fn_site(I, MP + 'Mapper::map_to'))
    # identity_map: maps the page at the frame's own address to the frame
    for size in SIZES3:
        S = size_ty(size)
        sb = SIZES[size]
        st = lab.setup('mapped')
        saved = set(I.opaque_fns)
        I.opaque_fns |= {MP + 'Mapper::map_to'}
        try:
            fr = I.sym_value(adt(FR, S), 'frame')
            fl = lab.flags('fl')
            outs = I.run(MP + 'Mapper::identity_map', [Ref(('arg', 'self')), fr, fl, Opaque('allocator')], st, {'Self': adt(MAPPED), 'S': S, 'A': {'k': 'param', 'name': 'A'}})
        finally:
            I.opaque_fns = saved
        chk.count('function-instances')
        rets = [o for o in outs if o.kind == 'ret']
        ok = bool(rets)
        for o in rets:
            calls = [e for e in o.st.events if e[0] == 'call' and e[1] == MP + 'Mapper::map_to']
            ok = ok and len(calls) == 1
            if ok:
                a = calls[0][2]
                pgb = inner(a[1]).bits
                fb = inner(fr).bits
                # canonical on this path: the frame address has bits 47..51 equal (all zero for an identity-mappable frame)
                ok = all(pgb[i] == I.resub(o.st, inner(fr)).bits[i] for i in range(0, 47)) and same(a[2], I.resub(o.st, fr)) and same(a[3], fl)
        chk.ob('defaults', 'identity_map<%s> maps the page at the frame\'s own address to that frame (panics if that address is not canonical)' % size, ok and all(o.kind == 'panic' for o in outs if o not in rets),
               'paths %r' % (outs,), fn_site(I, MP + 'Mapper::identity_map'))


# ------------------------------------------------------------------------------------------------ D6
def delegation(chk, lab):
    I = lab.I
    n = 0
    for size in SIZES3:
        for op, extra in OPS:
            outer = impl_fn('offset', size, op)
            target = impl_fn('mapped', size, op)
            forward(chk, lab, outer, target, size, extra)
            n += 1
    forward(chk, lab, impl_fn('offset', None, 'translate'), impl_fn('mapped', None, 'translate'), None, None, translate=True)
    for meth in ('clean_up', 'clean_up_addr_range'):
        outer = "<%s<'_> as %sCleanUp>::%s" % (OFFSET, MP, meth)
        target = "<%s<'_, P> as %sCleanUp>::%s" % (MAPPED, MP, meth)
        forward(chk, lab, outer, target, None, None, cleanup=meth)
    chk.floor('OffsetPageTable trait methods', n + 3, 24)
    phys_offset_rule(chk, I)


def phys_offset_rule(chk, I, rule='delegation'):
    """PhysOffset::frame_to_pointer = offset + frame address (what makes an OffsetPageTable read the tables where they are)"""
    # PhysOffset::frame_to_pointer = offset + frame address
    # the frame mapping an OffsetPageTable uses is whatever its public constructor stores: the crate's own implementation of
    # PageTableFrameMapping (a private type - found through the trait, not by name), holding the offset given to `new`
    TRAIT = MP + 'PageTableFrameMapping'
    impls = [im for im in I.facts['impls'] if im['trait'] == TRAIT and (im['self'].get('name') or '').split('::')[0] in ('structures', 'addr', 'instructions', 'registers')]
    st = State()
    off = I.sym_value(adt('addr::VirtAddr'), 'off')
    st.mem[('obj', 'P4')] = Opaque('root-table')
    built = I.run(OFFSET + "::<'_>::new", [Ref(('obj', 'P4')), off], st)
    mapping = None
    if len(impls) == 1 and len(built) == 1 and built[0].kind == 'ret':
        want = impls[0]['self'].get('name')
        todo = [built[0].val]
        while todo:
            v = todo.pop()
            if isinstance(v, Struct):
                if v.name == want:
                    mapping = v
                    break
                todo.extend(v.fields)
    if mapping is None:
        chk.unproven(rule, 'frame mapping of OffsetPageTable', 'OffsetPageTable::new does not store one implementation of PageTableFrameMapping (found %d impls)' % len(impls))
        return
    fn_ = '<%s as %s>::frame_to_pointer' % (mapping.name, TRAIT)
    st = built[0].st
    st.events = []
    st.mem[('arg', 'self')] = mapping
    fr = I.sym_value(adt(FR, size_ty('Size4KiB')), 'frame')
    outs = I.run(fn_, [Ref(('arg', 'self')), fr], st)
    chk.count('function-instances')
    rets = [o for o in outs if o.kind == 'ret']
    ok = len(rets) == 1 and isinstance(rets[0].val, Ptr) and rets[0].val.addr is not None
    if ok:
        from ..bits import Aff
        a = I.exact_aff(rets[0].st, I.norm(rets[0].st, rets[0].val.addr))
        want = I.aff_of(rets[0].st, I.resub(rets[0].st, inner(off))).add(I.aff_of(rets[0].st, inner(fr)))
        ok = I.aff_equal(rets[0].st, a, want)
    chk.ob(rule, 'PhysOffset::frame_to_pointer = physical-memory offset + frame address', ok and all(o.kind == 'panic' for o in outs if o not in rets), 'paths %r' % (outs,), fn_site(I, fn_))


def same_arg(x, y):
    """argument equality; a reborrow of an opaque reference parameter is that parameter"""
    if isinstance(y, Opaque) and isinstance(x, Ref) and x.loc == ('obj', 'opaque:' + y.tag) and not x.path:
        return True
    if isinstance(y, Opaque) and isinstance(x, Opaque):
        return x.tag == y.tag
    return same(x, y)


def forward(chk, lab, outer, target, size, extra, translate=False, cleanup=None):
    I = lab.I
    st = lab.setup('offset')
    saved = set(I.opaque_fns)
    I.opaque_fns |= {target}
    try:
        if translate:
            args = [Ref(('arg', 'self')), I.sym_value(adt('addr::VirtAddr'), 'page')]
        elif cleanup == 'clean_up':
            args = [Ref(('arg', 'self')), Opaque('deallocator')]
        elif cleanup:
            args = [Ref(('arg', 'self')), Opaque('the-range'), Opaque('deallocator')]
        else:
            args = [Ref(('arg', 'self')), I.sym_value(adt(PG, size_ty(size)), 'page')] + (extra(lab, size) if extra else [])
        try:
            outs = I.run(outer, args, st, {'A': {'k': 'param', 'name': 'A'}, 'D': {'k': 'param', 'name': 'D'}})
        except Unsupported as e:
            # opaque results of data-carrying enums cannot be built: the call itself is what matters
            outs = None
            err = e
    finally:
        I.opaque_fns = saved
    chk.count('function-instances')
    short = outer.split(' as ')[1] if ' as ' in outer else outer
    if outs is None:
        # fall back to a purely structural check of the MIR: one call, to the target, with the arguments in order
        f = I.fn[outer]
        calls = [b['t'] for b in f['blocks'] if b['t'] and b['t']['k'] == 'call' and not b.get('cleanup')]
        ok = len(calls) == 1 and (calls[0]['f'].get('res') or {}).get('name') == target and len(calls[0]['args']) == len(args)
        chk.ob('delegation', 'OffsetPageTable: %s is one call of the inner method with the same arguments' % short.replace(MP, ''), ok, 'calls %r (%s)' % ([c['f'].get('name') for c in calls], err), fn_site(I, outer))
        return
    ok = bool(outs) and all(o.kind == 'ret' for o in outs)
    for o in outs:
        calls = [e for e in o.st.events if e[0] == 'call']
        ok = ok and len(calls) == 1 and calls[0][1] == target
        if ok:
            a = calls[0][2]
            ok = isinstance(a[0], Ref) and a[0].loc == ('arg', 'self') and a[0].path == (0,) and len(a) == len(args) and all(same_arg(x, y) for x, y in zip(a[1:], args[1:]))
            ok = ok and not [e for e in o.st.events if e[0] in ('write', 'rawderef', 'asm')]
            # the callee's result is what is returned: same variant as the opaque result on this path
            ors = [e for e in o.st.events if e[0] == 'opaque-result' and ('#%d' % calls[0][5]) in e[1]]
            if isinstance(o.val, Enum) and ors:
                ok = ok and o.val.vname == ors[0][2]
            else:
                ok = ok and (('#%d' % calls[0][5]) in repr(o.val) or (isinstance(o.val, Struct) and not o.val.fields))
    chk.ob('delegation', 'OffsetPageTable: %s is one call of the inner method with the same arguments, result returned' % short.replace(MP, ''), ok, 'paths %r' % (outs,), fn_site(I, outer))


def constructors(chk, lab):
    """the mapper objects are exactly what they were built from: `new` stores the given root table and frame mapping / offset / recursive
    index (which every operation above then reads), and the accessors hand the same root table back"""
    I = lab.I

    def leaves(v):
        if isinstance(v, Struct):
            yield v
            for x in v.fields:
                for y in leaves(x):
                    yield y
        else:
            yield v
    root = Ref(('obj', 'P4'))

    def run(fn_, args, st=None, sub=None):
        chk.count('function-instances')
        return I.run(fn_, args, st if st is not None else State(), sub or {'P': {'k': 'param', 'name': 'P'}})

    def one(outs):
        return len(outs) == 1 and outs[0].kind == 'ret'
    # MappedPageTable::new(table, mapping)
    fn_ = MAPPED + "::<'_, P>::new"
    o = run(fn_, [root, Opaque('the-mapping')])
    ok = one(o)
    if ok:
        v = o[0].val
        parts = list(leaves(v))
        ok = isinstance(v, Struct) and v.name == MAPPED and any(isinstance(x, Ref) and x.loc == ('obj', 'P4') and not x.path for x in parts) and \
            any(isinstance(y, Opaque) and y.tag == 'the-mapping' for y in parts)
    chk.ob('constructors', 'MappedPageTable::new stores the given root table and frame mapping', ok, 'paths %r' % (o,), fn_site(I, fn_))
    # OffsetPageTable::new(table, offset) = MappedPageTable over PhysOffset { offset }
    fn_ = OFFSET + "::<'_>::new"
    off = I.sym_value(adt('addr::VirtAddr'), 'off')
    o = run(fn_, [root, off])
    ok = one(o)
    if ok:
        v = o[0].val
        inner_ = v.fields[0] if isinstance(v, Struct) and v.name == OFFSET and v.fields else None
        ok = isinstance(inner_, Struct) and inner_.name == MAPPED and any(isinstance(x, Ref) and x.loc == ('obj', 'P4') and not x.path for x in inner_.fields)
        ok = ok and any(isinstance(y, Struct) and y.name == 'addr::VirtAddr' and same(y, off) for y in leaves(inner_))
    chk.ob('constructors', 'OffsetPageTable::new builds a MappedPageTable over the given root table whose frame mapping holds exactly the given offset', ok, 'paths %r' % (o,), fn_site(I, fn_))
    # RecursivePageTable::new_unchecked(table, index)
    fn_ = REC + "::<'_>::new_unchecked"
    idx = I.sym_value(adt('structures::paging::page_table::PageTableIndex'), 'r')
    o = run(fn_, [root, idx])
    ok = one(o)
    if ok:
        v = o[0].val
        ok = isinstance(v, Struct) and v.name == REC and any(isinstance(x, Ref) and x.loc == ('obj', 'P4') and not x.path for x in v.fields) and any(same(x, idx) for x in v.fields if isinstance(x, Struct))
    chk.ob('constructors', 'RecursivePageTable::new_unchecked stores the given root table and recursive index', ok, 'paths %r' % (o,), fn_site(I, fn_))
    # accessors: level_4_table / level_4_table_mut return the root the object was built with
    for impl, names in (('mapped', [MAPPED + "::<'_, P>::level_4_table", MAPPED + "::<'_, P>::level_4_table_mut"]),
                        ('offset', [OFFSET + "::<'_>::level_4_table", OFFSET + "::<'_>::level_4_table_mut"]),
                        ('recursive', [REC + "::<'_>::level_4_table", REC + "::<'_>::level_4_table_mut"])):
        for fn_ in names:
            if fn_ not in I.fn:
                chk.unproven('constructors', fn_.split('::')[-1] + ' of ' + impl, 'function not found (anchor lost)')
                continue
            st = lab.setup(impl)
            o = run(fn_, [Ref(('arg', 'self'))], st)
            ok = one(o) and isinstance(o[0].val, Ref) and o[0].val.loc == ('obj', 'P4') and not o[0].val.path and not [e for e in o[0].st.events if e[0] in ('write', 'rawderef', 'asm')]
            chk.ob('constructors', '%s::%s returns the root table' % ({'mapped': 'MappedPageTable', 'offset': 'OffsetPageTable', 'recursive': 'RecursivePageTable'}[impl], fn_.split('::')[-1]), ok,
                   'paths %r' % (o,), fn_site(I, fn_))
    # OffsetPageTable::phys_offset gives back the offset the object was built with
    fn_ = OFFSET + "::<'_>::phys_offset"
    built = run(OFFSET + "::<'_>::new", [root, off])
    if fn_ in I.fn and one(built):
        st = built[0].st
        st.mem[('arg', 'self')] = built[0].val
        o = run(fn_, [Ref(('arg', 'self'))], st)
        chk.ob('constructors', 'OffsetPageTable::phys_offset returns the offset given to new', one(o) and same(o[0].val, off), 'paths %r' % (o,), fn_site(I, fn_))
    else:
        chk.unproven('constructors', 'OffsetPageTable::phys_offset', 'function not found or constructor not analysable')
