"""C15 - segment/TSS descriptors and the TSS have the architectural encoding."""
from spec import descriptors as D

from ..bits import BV, lit
from ..interp import State
from ..values import Array, Enum, Ptr, Ref, Struct
from .common import is_call_of, adt, arg_obj, bv, eval_value, fn_site, inner, same, sl

LEVEL = 'proof'
GDT = 'structures::gdt::'


def expected_tss_low(sym):
    bits = [0] * 64
    lo, hi = D.SEG_DESC['limit_0_15']
    for i in range(lo, hi):
        bits[i] = (D.TSS_LIMIT >> (i - lo)) & 1
    lo, hi = D.SEG_DESC['base_0_23']
    for i in range(lo, hi):
        bits[i] = lit(sym, i - lo)
    lo, hi = D.SEG_DESC['type']
    for i in range(lo, hi):
        bits[i] = (D.SYS_TYPE_TSS_AVAILABLE >> (i - lo)) & 1
    bits[D.SEG_DESC['p'][0]] = 1
    lo, hi = D.SEG_DESC['base_24_31']
    for i in range(lo, hi):
        bits[i] = lit(sym, 24 + i - lo)
    return BV(64, bits)


def expected_tss_high(sym):
    return bv(64, sl(sym, 32, 64), (0, 32))


def layout_of(chk, name):
    for l in chk.facts['layouts']:
        if l['tys'] == name:
            return l
    return None


def run(chk):
    I = chk.I
    chk.trusted += ['spec/descriptors.py (formats typed in from Intel SDM 3A / AMD APM 2)', 'rustc layout computation and const evaluation',
                    'x86abs model of bit_field::BitField::{get_bits,set_bits}']
    chk.assumptions += ['descriptor formats in spec/descriptors.py are transcribed correctly']

    # ---- TSS descriptor
    def tss_desc():
        fn_ = GDT + 'Descriptor::tss_segment_unchecked'
        outs = I.run(fn_, [Ptr(addr=BV.sym(64, 'p'))])
        chk.count('function-instances')
        ok = len(outs) == 1 and outs[0].kind == 'ret' and isinstance(outs[0].val, Enum) and outs[0].val.vname == 'SystemSegment'
        chk.ob('tss-descriptor', 'tss_segment_unchecked: single non-panicking path returning SystemSegment', ok, 'paths %r' % (outs,), fn_site(I, fn_))
        if ok:
            low, high = outs[0].val.fields
            chk.ob('tss-descriptor', 'tss_segment_unchecked low quadword', same(low, expected_tss_low('p')),
                   'found %r\n      expected %r' % (low, expected_tss_low('p')), fn_site(I, fn_), sample=repr(low))
            chk.ob('tss-descriptor', 'tss_segment_unchecked high quadword', same(high, expected_tss_high('p')),
                   'found %r\n      expected %r' % (high, expected_tss_high('p')), fn_site(I, fn_), sample=repr(high))
        # safe wrapper: passes the address of the reference
        st = State()
        st.mem[('arg', 'tss')] = Struct('structures::tss::TaskStateSegment', [])
        fn2 = GDT + 'Descriptor::tss_segment'
        outs = I.run(fn2, [Ref(('arg', 'tss'))], st)
        chk.count('function-instances')
        sym = 'addr(arg:tss)'
        ok = len(outs) == 1 and outs[0].kind == 'ret' and isinstance(outs[0].val, Enum) and outs[0].val.vname == 'SystemSegment' and \
            same(outs[0].val.fields[0], expected_tss_low(sym)) and same(outs[0].val.fields[1], expected_tss_high(sym))
        chk.ob('tss-descriptor', 'tss_segment encodes the address of its argument', ok, 'paths %r' % (outs,), fn_site(I, fn2))
    chk.guard('tss-descriptor', 'tss_segment', tss_desc)

    # ---- presets
    def presets():
        consts = {c['name']: c for c in chk.facts['consts']}
        for nm, sem in D.PRESETS.items():
            c = consts.get(GDT + 'DescriptorFlags::' + nm)
            if c is None or not c['val'].startswith('Scalar('):
                chk.unproven('preset', nm, 'constant not found (anchor lost)')
                continue
            v = int(c['val'][7:-1], 16)
            got = D.decode_segment(v)
            want = dict(D.PRESET_COMMON)
            want.update(sem)
            chk.ob('preset', 'DescriptorFlags::' + nm, got == want, 'value %#x decodes to %s\n      expected %s' % (v, got, want), c['loc'],
                   sample={'value': hex(v), 'decoded': got})
            chk.count('constants')
        for ctor, nm in D.PRESET_CTORS.items():
            fn_ = GDT + 'Descriptor::' + ctor
            outs = I.run(fn_, [])
            chk.count('function-instances')
            c = consts.get(GDT + 'DescriptorFlags::' + nm)
            v = int(c['val'][7:-1], 16) if c else None
            ok = len(outs) == 1 and outs[0].kind == 'ret' and isinstance(outs[0].val, Enum) and outs[0].val.vname == 'UserSegment' and \
                eval_value(outs[0].val.fields[0], {}) == v
            chk.ob('preset', 'Descriptor::%s returns UserSegment(%s)' % (ctor, nm), ok, 'paths %r, constant %s' % (outs, hex(v) if v is not None else None), fn_site(I, fn_))
    chk.guard('preset', 'presets', presets)

    # ---- dpl()
    def dpl():
        fn_ = GDT + 'Descriptor::dpl'
        lo, hi = D.SEG_DESC['dpl']
        for variant, nf in (('UserSegment', 1), ('SystemSegment', 2)):
            for d in range(4):
                bits = sl('v', 0, 64)
                bits[lo] = d & 1
                bits[lo + 1] = (d >> 1) & 1
                fields = [BV(64, bits)] + ([BV.sym(64, 'h')] if nf == 2 else [])
                outs = I.run(fn_, [Enum(GDT + 'Descriptor', 0 if nf == 1 else 1, variant, fields)])
                chk.count('function-instances')
                ok = len(outs) == 1 and outs[0].kind == 'ret' and isinstance(outs[0].val, Enum) and outs[0].val.vname == 'Ring%d' % d
                chk.ob('dpl', 'Descriptor::dpl<%s>(DPL field = %d)' % (variant, d), ok, 'paths %r' % (outs,), fn_site(I, fn_))
    chk.guard('dpl', 'Descriptor::dpl', dpl)

    # ---- layouts
    def layouts():
        lay = layout_of(chk, 'structures::tss::TaskStateSegment')
        chk.ob('layout', 'TaskStateSegment size', lay is not None and lay['size'] == D.TSS_SIZE, 'layout %s' % (lay and lay['size'],))
        if lay:
            got = {f['name']: (f['off'], f['size']) for f in lay['fields']}
            for nm, (off, sz) in D.TSS_LAYOUT.items():
                chk.ob('layout', 'TaskStateSegment.%s' % nm, got.get(nm) == (off, sz), 'found %s expected (%#x, %d)' % (got.get(nm), off, sz))
            chk.count('layouts')
        lay = layout_of(chk, 'structures::DescriptorTablePointer')
        chk.ob('layout', 'DescriptorTablePointer size', lay is not None and lay['size'] == D.DTP_SIZE, 'layout %s' % (lay and lay['size'],))
        if lay:
            got = {f['name']: (f['off'], f['size']) for f in lay['fields']}
            for nm, (off, sz) in D.DTP_LAYOUT.items():
                chk.ob('layout', 'DescriptorTablePointer.%s' % nm, got.get(nm) == (off, sz), 'found %s expected (%d, %d)' % (got.get(nm), off, sz))
            chk.count('layouts')
        # TaskStateSegment::new
        fn_ = 'structures::tss::TaskStateSegment::new'
        outs = I.run(fn_, [])
        chk.count('function-instances')
        ok = len(outs) == 1 and outs[0].kind == 'ret' and isinstance(outs[0].val, Struct)
        chk.ob('tss-new', 'TaskStateSegment::new: one path', ok, 'paths %r' % (outs,), fn_site(I, fn_))
        if ok and lay is not None:
            tl = layout_of(chk, 'structures::tss::TaskStateSegment')
            for i, f in enumerate(tl['fields']):
                v = outs[0].val.fields[i]
                if f['name'] == 'iomap_base':
                    chk.ob('tss-new', 'iomap_base = size of the TSS', eval_value(v, {}) == D.TSS_SIZE, 'found %r' % (v,))
                elif isinstance(v, Array):
                    z = v.default is not None and eval_value(inner(v.default), {}) == 0 and not v.elems
                    chk.ob('tss-new', '%s zeroed' % f['name'], z and v.length * 8 == f['size'], 'found %r' % (v,))
                else:
                    chk.ob('tss-new', '%s zeroed' % f['name'], eval_value(v, {}) == 0, 'found %r' % (v,))
    chk.guard('layout', 'layouts', layouts)
    chk.guard('tss-new', 'Default', lambda: is_call_of(chk, chk.I, 'tss-new', '<structures::tss::TaskStateSegment as core::default::Default>::default', 'structures::tss::TaskStateSegment::new', 'TaskStateSegment::default() is new()'))
    chk.floor('obligations', len(chk.obs), 40)
