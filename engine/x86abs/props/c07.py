"""C07 - address arithmetic is exact-or-panic; ranges iterate exactly what they count."""
from spec import paging as SP

from ..bits import BV, Aff, lit
from ..interp import State, Unsupported
from ..values import UNIT, Enum, Ref, Struct
from .common import newtype, SIZES, U64, adt, arg_obj, bv, declare, fn_site, inner, same, size_ty, sl

LEVEL = 'other'
VA = 'addr::VirtAddr'
PA = 'addr::PhysAddr'
PGM = 'structures::paging::page::'
FRM = 'structures::paging::frame::'
M64 = (1 << 64) - 1


def half_va(name, half, low_zero=0):
    """a canonical address in one half, with its range"""
    fill = 0 if half == 'lower' else 1
    bits = [0] * low_zero + sl(name, low_zero, 47) + [fill] * 17
    if fill == 0:
        r = [(0, (1 << 47) - (1 << low_zero))]
    else:
        r = [((1 << 64) - (1 << 47), (1 << 64) - (1 << low_zero))]
    return BV(64, bits), r


def phys(name, low_zero=0):
    return BV(64, [0] * low_zero + sl(name, low_zero, 52) + [0] * 12), [(0, (1 << 52) - (1 << low_zero))]


def wrap_sites(o):
    """overflow-check sites on this path that the interval component could not prove: (op, function)"""
    out = []
    for e in o.st.events:
        if e[0] == 'ovf' and e[4] != 'no-wrap':
            out.append((e[1], e[6], e[4]))
        if e[0] == 'wrapping':
            out.append((e[1], e[5], 'wrapping_op'))
    return out


def run(chk):
    I = chk.I
    chk.trusted += ['x86abs interval component with retained comparisons; models of checked_sub/checked_add/unwrap and derived PartialOrd',
                    'an Assert(Overflow) site of the debug MIR is a bare wrapping operation in builds without overflow checks (rustc lowering; cross-checked against a release-profile extraction in the thorough tier)']
    chk.explanation = ('Decided: (D1) every overflow-check site reachable in the arithmetic operators and range methods is proved not to wrap under the stated preconditions, '
                       'otherwise it is reported as a place where non-checking builds return a wrapped value; (D2) on non-panicking paths the result is the exact sum/difference; '
                       '(D3) for the four range types is_empty/len/size/next agree (guards, operands, +1 for inclusive, next yields the old start and advances by exactly one page); '
                       '(D4) next() has no panicking path for ranges whose bounds lie in one half. Not decided: that iterating yields exactly len() items '
                       '(an induction over iterations, argued from D3).')
    G = chk.guard
    G('operators', 'address operators', lambda: addr_ops(chk))
    G('operators', 'page / frame operators', lambda: page_ops(chk))
    G('ranges', 'ranges', lambda: ranges(chk))
    G('ranges', 'range constructors', lambda: range_ctors(chk))
    report_wraps(chk)
    if chk.tier == 'thorough':
        G('release', 'release-profile cross-check', lambda: release_crosscheck(chk))
    chk.floor('obligations', len(chk.obs), 100)


def run_case(chk, fn_, args, st, sub=None):
    chk.count('function-instances')
    outs = chk.I.run(fn_, args, st, sub)
    chk.count('paths', len(outs))
    return outs


WRAPS = {}


def no_wrap(chk, label, outs, site):
    sites = set()
    for o in outs:
        for s in wrap_sites(o):
            sites.add(s)
    if not sites:
        chk.ob('no-silent-wrap', label, True, 'all overflow-check sites proved not to wrap', site)
    for op, fn_, status in sorted(sites, key=repr):
        WRAPS.setdefault((op, fn_), []).append(label)
    return not sites


def report_wraps(chk):
    for (op, fn_), labels in sorted(WRAPS.items()):
        chk.ob('no-silent-wrap', '%s in %s' % (op, fn_), False,
               'this %s may exceed 64 bits: builds without overflow checks continue with the wrapped value (reached from: %s)' % (op, '; '.join(sorted(set(labels))[:6])),
               fn_site(chk.I, fn_))
    WRAPS.clear()


def addr_ops(chk):
    I = chk.I
    for T, mk in ((VA, 'virt'), (PA, 'phys')):
        tn = T.split('::')[-1]
        cases = (('lower', 'upper') if mk == 'virt' else ('all',))
        for half in cases:
            def inp(st):
                if mk == 'virt':
                    b, r = half_va('a', half)
                else:
                    b, r = phys('a')
                v = Struct(T, [b])
                declare(st, v, {'a': r, 'rhs': [(0, M64)]})
                return v, b
            tagc = '%s (%s)' % (tn, half)
            # a + u64
            fn_ = '<%s as core::ops::Add<u64>>::add' % T
            st = State()
            v, b = inp(st)
            outs = run_case(chk, fn_, [v, BV.sym(64, 'rhs')], st)
            no_wrap(chk, '%s + u64' % tagc, outs, fn_site(I, fn_))
            exact(chk, '%s + u64' % tagc, outs, Aff({('a', 0, 64): 1, ('rhs', 0, 64): 1}, 0) if False else None, b, 'rhs', +1, fn_)
            # a - u64
            fn_ = '<%s as core::ops::Sub<u64>>::sub' % T
            st = State()
            v, b = inp(st)
            outs = run_case(chk, fn_, [v, BV.sym(64, 'rhs')], st)
            no_wrap(chk, '%s - u64' % tagc, outs, fn_site(I, fn_))
            exact(chk, '%s - u64' % tagc, outs, None, b, 'rhs', -1, fn_)
            # a - b
            fn_ = '<%s as core::ops::Sub>::sub' % T
            # the subtrahend from either half (an upper-half address minus a lower-half one is a 64-bit difference, not a 48-bit one)
            for half2 in (('lower', 'upper') if mk == 'virt' else (None,)):
                st = State()
                v, b = inp(st)
                if mk == 'virt':
                    b2, r2 = half_va('b', half2)
                else:
                    b2, r2 = phys('b')
                v2 = Struct(T, [b2])
                declare(st, v2, {'b': r2})
                outs = run_case(chk, fn_, [v, v2], st)
                tag2 = '%s - %s%s' % (tagc, tn, (' (%s)' % half2) if half2 else '')
                no_wrap(chk, tag2, outs, fn_site(I, fn_))
                rets = [o for o in outs if o.kind == 'ret']
                # lower - upper always underflows: every path panics
                impossible = mk == 'virt' and half == 'lower' and half2 == 'upper'
                ok = (len(rets) == 1 or (impossible and not rets)) and all(o.kind == 'panic' for o in outs if o not in rets) and bool(outs)
                if ok and rets:
                    af = I.exact_aff(rets[0].st, rets[0].val)
                    ok = I.aff_equal(rets[0].st, af, I.aff_of(rets[0].st, b).add(I.aff_of(rets[0].st, b2), -1))
                chk.ob('exact-result', '%s = exact difference, or panic' % tag2, ok, 'paths %r' % (outs,), fn_site(I, fn_))
        # assign forms delegate
        for tr, op in (('AddAssign', 'add'), ('SubAssign', 'sub')):
            fn_ = '<%s as core::ops::%s<u64>>::%s_assign' % (T, tr, op)
            st = State()
            b, r = (half_va('a', 'lower') if mk == 'virt' else phys('a'))
            v = Struct(T, [b])
            declare(st, v, {'a': r, 'rhs': [(0, M64)]})
            ref = arg_obj(st, 'self', v)
            saved = set(I.opaque_fns)
            target = '<%s as core::ops::%s<u64>>::%s' % (T, tr.replace('Assign', ''), op)
            I.opaque_fns |= {target}
            try:
                outs = run_case(chk, fn_, [ref, BV.sym(64, 'rhs')], st)
            finally:
                I.opaque_fns = saved
            ok = len(outs) == 1 and outs[0].kind == 'ret'
            if ok:
                calls = [e for e in outs[0].st.events if e[0] == 'call']
                ok = len(calls) == 1 and calls[0][1] == target and same(calls[0][2][0], v) and same(calls[0][2][1], BV.sym(64, 'rhs'))
                fin = outs[0].st.mem[('arg', 'self')]
                names = {b[1] for b in inner(fin).bits if isinstance(b, tuple) and b[0] == 'v'} if isinstance(inner(fin), BV) else set()
                ok = ok and len(names) == 1 and next(iter(names)).startswith('%s#%d' % (op, calls[0][5]))
            chk.ob('exact-result', '%s %s= u64 stores self %s rhs' % (tn, '+' if op == 'add' else '-', '+' if op == 'add' else '-'), ok, 'paths %r' % (outs,), fn_site(I, fn_))


def exact(chk, label, outs, _unused, abits, rhs, sign, fn_):
    """non-panicking paths return exactly a (+/-) rhs"""
    I = chk.I
    rets = [o for o in outs if o.kind == 'ret']
    ok = bool(rets) and all(o.kind == 'panic' for o in outs if o not in rets)
    bad = None
    for o in rets:
        af = I.exact_aff(o.st, inner(o.val))
        want = I.aff_of(o.st, abits).add(Aff({(rhs, 0, 64): 1}, 0), sign)
        if not I.aff_equal(o.st, af, want):
            ok = False
            bad = (inner(o.val), af)
    chk.ob('exact-result', '%s: a non-panicking path returns exactly the sum/difference' % label, ok, 'paths %r%s' % (outs, (' got %r' % (bad,)) if bad else ''), fn_site(I, fn_))


def page_ops(chk):
    I = chk.I
    for sname, sb in SIZES.items():
        S = size_ty(sname)
        for T, mk, AT in ((PGM + 'Page', 'virt', VA), (FRM + 'PhysFrame', 'phys', PA)):
            tn = T.split('::')[-1]
            for half in (('lower', 'upper') if mk == 'virt' else ('all',)):
                def inp(st, name='p'):
                    b, r = half_va(name, half, sb) if mk == 'virt' else phys(name, sb)
                    v = newtype(None, T, Struct(AT, [b]))
                    declare(st, v, {name: r})
                    return v, b
                tagc = '%s<%s> (%s)' % (tn, sname, half)
                for tr, op, sign in (('Add', 'add', +1), ('Sub', 'sub', -1)):
                    fn_ = '<%s<S> as core::ops::%s<u64>>::%s' % (T, tr, op)
                    st = State()
                    v, b = inp(st)
                    st.rng['n'] = [(0, M64)]
                    outs = run_case(chk, fn_, [v, BV.sym(64, 'n')], st, {'S': S})
                    no_wrap(chk, '%s %s u64' % (tagc, '+' if sign > 0 else '-'), outs, fn_site(I, fn_))
                    rets = [o for o in outs if o.kind == 'ret']
                    ok = bool(rets) and all(o.kind == 'panic' for o in outs if o not in rets)
                    for o in rets:
                        af = I.exact_aff(o.st, inner(o.val))
                        want = I.aff_of(o.st, b).add(Aff({('n', 0, 64): 1 << sb}, 0), sign)
                        ok = ok and I.aff_equal(o.st, af, want)
                        # ... over the integers, not modulo 2^64: a path that returns has established that n * SIZE fits in 64 bits
                        # (a shift or a wrapping multiplication would drop the high bits of n without any overflow check)
                        rn = I.rng_of(o.st, I.norm(o.st, BV.sym(64, 'n')))
                        ok = ok and bool(rn) and max(hi for _, hi in rn) <= (M64 >> sb)
                    chk.ob('exact-result', '%s %s n: a non-panicking path returns the page/frame exactly n pages away' % (tagc, '+' if sign > 0 else '-'), ok, 'paths %r' % (outs,), fn_site(I, fn_))
                # page - page = address difference / SIZE
                fn_ = '<%s<S> as core::ops::Sub>::sub' % T
                st = State()
                v, b = inp(st, 'p')
                v2, b2 = inp(st, 'q')
                outs = run_case(chk, fn_, [v, v2], st, {'S': S})
                no_wrap(chk, '%s - %s' % (tagc, tn), outs, fn_site(I, fn_))
                rets = [o for o in outs if o.kind == 'ret']
                ok = len(rets) == 1 and all(o.kind == 'panic' for o in outs if o not in rets)
                if ok:
                    # result * SIZE == p - q exactly: the quotient is the difference with its (zero) low bits dropped
                    o = rets[0]
                    d = None
                    for e in o.st.events:
                        if e[0] == 'iret' and e[1] == '<%s as core::ops::Sub>::sub' % AT:
                            d = e[2]
                    af = I.exact_aff(o.st, d) if d is not None else None
                    okd = d is not None and I.aff_equal(o.st, af, I.aff_of(o.st, b).add(I.aff_of(o.st, b2), -1))
                    r = o.val
                    okq = d is not None and isinstance(r, BV) and tuple(r.bits[:64 - sb]) == tuple(I.norm(o.st, d).bits[sb:]) and all(x == 0 for x in r.bits[64 - sb:]) and \
                        all(x == 0 for x in I.norm(o.st, d).bits[:sb])
                    ok = okd and okq
                chk.ob('exact-result', '%s - %s = (address difference) / SIZE with no remainder, or panic' % (tagc, tn), ok, 'paths %r' % (outs,), fn_site(I, fn_))


RANGES = [
    (PGM + 'PageRange', PGM + 'Page', VA, 'virt', False),
    (PGM + 'PageRangeInclusive', PGM + 'Page', VA, 'virt', True),
    (FRM + 'PhysFrameRange', FRM + 'PhysFrame', PA, 'phys', False),
    (FRM + 'PhysFrameRangeInclusive', FRM + 'PhysFrame', PA, 'phys', True),
]


def range_ctors(chk):
    """Page::range / range_inclusive (and the PhysFrame ones) build the range from (start, end) in that order"""
    I = chk.I
    for RT, ET, AT, mk, incl in RANGES:
        fn_ = '%s::<S>::%s' % (ET, 'range_inclusive' if incl else 'range')
        S = size_ty('Size4KiB')
        a = I.sym_value(adt(ET, S), 'a')
        b = I.sym_value(adt(ET, S), 'b')
        if fn_ not in I.fn:
            chk.unproven('range-agreement', fn_.split('::', 3)[-1], 'constructor not found (anchor lost)')
            continue
        outs = run_case(chk, fn_, [a, b], State(), {'S': S})
        ok = len(outs) == 1 and outs[0].kind == 'ret' and isinstance(outs[0].val, Struct) and outs[0].val.name == RT and same(outs[0].val.fields[0], a) and same(outs[0].val.fields[1], b)
        chk.ob('range-agreement', '%s::%s(start, end) = %s { start, end }' % (ET.split('::')[-1], fn_.split('::')[-1], RT.split('::')[-1]), ok, 'paths %r' % (outs,), fn_site(I, fn_))


def ranges(chk):
    I = chk.I
    for RT, ET, AT, mk, incl in RANGES:
        rn = RT.split('::')[-1]
        for sname, sb in SIZES.items():
            S = size_ty(sname)
            for half in (('lower', 'upper') if mk == 'virt' else ('all',)):
                def mkrange(st):
                    sb_, rs = half_va('s', half, sb) if mk == 'virt' else phys('s', sb)
                    eb_, re_ = half_va('e', half, sb) if mk == 'virt' else phys('e', sb)
                    start = newtype(None, ET, Struct(AT, [sb_]))
                    end = newtype(None, ET, Struct(AT, [eb_]))
                    rv = Struct(RT, [start, end])
                    declare(st, rv, {'s': rs, 'e': re_})
                    return rv, sb_, eb_
                tagc = '%s<%s> (%s)' % (rn, sname, half)
                # ---- is_empty
                st = State()
                rv, sbits, ebits = mkrange(st)
                ref = arg_obj(st, 'self', rv)
                outs = run_case(chk, RT + '::<S>::is_empty', [ref], st, {'S': S})
                ok = len(outs) == 1 and outs[0].kind == 'ret' and isinstance(outs[0].val, BV)
                if ok:
                    # exclusive: start >= end ; inclusive: start > end   (as a predicate over the two start addresses)
                    # exclusive: end <= start ; inclusive: end < start
                    ok = canon_rel(outs[0].val.bits[0]) == ('<' if incl else '<=', tuple(ebits.bits), tuple(sbits.bits))
                chk.ob('range-agreement', '%s::is_empty <=> start %s end' % (tagc, '>' if incl else '>='), ok, 'returns %r' % (outs,), fn_site(I, RT + '::<S>::is_empty'))
                # ---- len
                st = State()
                rv, sbits, ebits = mkrange(st)
                ref = arg_obj(st, 'self', rv)
                outs = run_case(chk, RT + '::<S>::len', [ref], st, {'S': S})
                no_wrap(chk, '%s::len' % tagc, outs, fn_site(I, RT + '::<S>::len'))
                # decided on the values, however the difference is taken (operator, raw subtraction, saturating / checked forms): a path that
                # returns the constant 0 must be one on which the range is empty, every other path returns r with r * SIZE = end - start
                # (minus one element for inclusive ranges)
                ok = bool(outs) and all(o.kind == 'ret' for o in outs)
                n_zero = n_diff = 0
                if ok:
                    for o in outs:
                        s2 = I.norm(o.st, I.resub(o.st, sbits))
                        e2 = I.norm(o.st, I.resub(o.st, ebits))
                        r = I.norm(o.st, o.val) if isinstance(o.val, BV) else None
                        if r is None:
                            ok = False
                            break
                        if r.is_const() and r.value() == 0:
                            # non-emptiness (start < end, or start <= end for inclusive ranges) must be impossible on this path
                            t = o.st.clone()
                            c = I.binop(t, 'Le' if incl else 'Lt', s2, e2)
                            feasible = (c.is_const() and c.value() == 1) or (not c.is_const() and I.assume(t, c.bits[0], 1) and not t.dead)
                            if feasible:
                                ok = False
                            n_zero += 1
                            continue
                        n_diff += 1
                        q = r
                        shifted = BV(64, [0] * sb + list(q.bits[:64 - sb]))
                        top_clear = all(b == 0 for b in q.bits[64 - sb:]) or (I.rng_of(o.st, q) and max(y for _, y in I.rng_of(o.st, q)) < (1 << (64 - sb)))
                        want = I.aff_of(o.st, e2).add(I.aff_of(o.st, s2), -1)
                        if incl:
                            want = want.add(Aff({}, 1 << sb))       # r = (end - start) / SIZE + 1  <=>  r * SIZE = end - start + SIZE
                        if not (top_clear and I.aff_equal(o.st, I.exact_aff(o.st, shifted), want)):
                            ok = False
                    ok = ok and n_zero >= 1 and n_diff >= 1
                chk.ob('range-agreement', '%s::len = (end - start) / SIZE%s when not empty, else 0' % (tagc, ' + 1' if incl else ''), ok, 'paths %r' % (outs,), fn_site(I, RT + '::<S>::len'))
                # ---- size = SIZE * len
                st = State()
                rv, sbits, ebits = mkrange(st)
                ref = arg_obj(st, 'self', rv)
                saved = set(I.opaque_fns)
                I.opaque_fns |= {RT + '::<S>::len'}
                try:
                    outs = run_case(chk, RT + '::<S>::size', [ref], st, {'S': S})
                finally:
                    I.opaque_fns = saved
                rets = [o for o in outs if o.kind == 'ret']
                ok = len(rets) == 1
                if ok:
                    calls = [e for e in rets[0].st.events if e[0] == 'call' and e[1] == RT + '::<S>::len']
                    ok = len(calls) == 1
                    if ok:
                        lname = [k for k in rets[0].st.rng if k.startswith('len#')] or [None]
                        af = I.aff_of(rets[0].st, rets[0].val)
                        ok = af is not None and len(af.terms) == 1 and list(af.terms.values())[0] == (1 << sb) and af.const == 0 and list(af.terms.keys())[0][0].startswith('len#')
                chk.ob('range-agreement', '%s::size = SIZE * len()' % tagc, ok, 'paths %r' % (outs,), fn_site(I, RT + '::<S>::size'))
                # ---- next
                fn_ = '<%s<S> as core::iter::Iterator>::next' % RT
                st = State()
                rv, sbits, ebits = mkrange(st)
                ref = arg_obj(st, 'self', rv)
                outs = run_case(chk, fn_, [ref], st, {'S': S})
                no_wrap(chk, '%s::next' % tagc, outs, fn_site(I, fn_))
                pans = [o for o in outs if o.kind == 'panic']
                for o in pans:
                    s_r = o.st.rng.get('s')
                    e_r = o.st.rng.get('e')
                    chk.ob('no-panic-in-next', '%s::next panics (start in %s, end in %s)' % (tagc, fmt_r(s_r), fmt_r(e_r)), False,
                           'a range whose bounds lie in one half makes next() panic before yielding: %s' % (o.val,), fn_site(I, fn_))
                if not pans:
                    chk.ob('no-panic-in-next', '%s::next never panics' % tagc, True, '%d paths' % len(outs), fn_site(I, fn_))
                # ---- provided Iterator methods that the impl overrides (nth, last, ...): core defines them through next(), which never
                # panics here and only yields elements of the range - an override must keep both
                for im in chk.facts['impls']:
                    if im['trait'] != 'core::iter::Iterator' or im['selfs'].split('<')[0] != RT:
                        continue
                    for it in im['items']:
                        if it['name'] in ('next', 'Item') or not it['kind'].startswith('Fn'):
                            continue
                        ofn = it['path']
                        f_ = I.fn.get(ofn)
                        if f_ is None:
                            chk.unproven('iterator-overrides', '%s overrides %s' % (tagc, it['name']), 'body not found')
                            continue
                        st = State()
                        rv, sbits, ebits = mkrange(st)
                        ref = arg_obj(st, 'self', rv)
                        by_ref = f_['locals'][1].get('k') == 'ref'
                        extra = [I.sym_value(I.subst_ty(f_['locals'][i + 1], {'S': S}), 'arg%d' % i, st) for i in range(1, f_['argc'])]
                        outs2 = run_case(chk, ofn, [ref if by_ref else rv] + extra, st, {'S': S})
                        pans2 = [o for o in outs2 if o.kind == 'panic']
                        chk.ob('iterator-overrides', '%s: the overridden `%s` never panics (as the default built on next())' % (tagc, it['name']), bool(outs2) and not pans2,
                               'panic paths %r' % ([o.val for o in pans2][:3],), fn_site(I, ofn))
                rets = [o for o in outs if o.kind == 'ret']
                ok = bool(rets)
                n_some = 0
                for o in rets:
                    fin = o.st.mem[('arg', 'self')]
                    s2, e2 = I.resub(o.st, sbits), I.resub(o.st, ebits)
                    if o.val.vname == 'None':
                        ok = ok and same(fin, I.resub(o.st, rv))
                        continue
                    n_some += 1
                    ok = ok and same(inner(o.val.fields[0]), s2)
                    fs, fe = inner(fin.fields[0]), inner(fin.fields[1])
                    adv = I.aff_equal(o.st, I.exact_aff(o.st, fs), I.aff_of(o.st, s2).add(Aff({}, 1 << sb))) and same(fe, e2)
                    # inclusive ranges may instead end the iteration after the last element: that was the last one
                    # (start == end on this path) and the range left behind is empty (start > end)
                    last = incl and same(s2, e2) and s2.is_const()
                    if last:
                        c = I.compare(o.st, 'Gt', I.norm(o.st, fs), I.norm(o.st, fe))
                        last = c.is_const() and c.value() == 1
                    ok = ok and (adv or last)
                chk.ob('range-agreement', '%s::next yields the old start and advances by exactly one page (an inclusive range may instead become empty after its last element), None leaves the range alone' % tagc,
                       ok and n_some >= 1, 'paths %r' % (outs,), fn_site(I, fn_))
    # as_4kib_page_range keeps both bounds
    fn_ = PGM + 'PageRange::<structures::paging::page::Size2MiB>::as_4kib_page_range'
    if fn_ not in I.fn:
        c = [n for n in I.fn if n.endswith('as_4kib_page_range')]
        fn_ = c[0] if c else fn_
    st = State()
    sb_, rs = half_va('s', 'lower', 21)
    eb_, re_ = half_va('e', 'lower', 21)
    rv = Struct(PGM + 'PageRange', [newtype(None, PGM + 'Page', Struct(VA, [sb_])), newtype(None, PGM + 'Page', Struct(VA, [eb_]))])
    outs = run_case(chk, fn_, [rv], st)
    ok = len(outs) == 1 and outs[0].kind == 'ret' and same(inner(outs[0].val.fields[0]), sb_) and same(inner(outs[0].val.fields[1]), eb_)
    chk.ob('range-agreement', 'PageRange<2MiB>::as_4kib_page_range keeps both bounds', ok, 'paths %r' % (outs,), fn_site(I, fn_))


def same_bits(a, b, o):
    return True


def canon_rel(bit):
    """(op, lhs bits, rhs bits) of an unsigned comparison predicate; negation is folded in"""
    if not (isinstance(bit, tuple) and bit[0] == 'p' and bit[1] in ('ult', 'ule')):
        return None
    a, b = bit[2]
    op = '<' if bit[1] == 'ult' else '<='
    if bit[3]:
        # !(a < b) = b <= a ; !(a <= b) = b < a
        op = '<=' if op == '<' else '<'
        a, b = b, a
    return (op, tuple(a), tuple(b))


def fmt_r(r):
    if not r:
        return '?'
    return '[' + ', '.join('%#x..%#x' % (a, b) for a, b in r) + ']'


def release_crosscheck(chk):
    """every Assert(Overflow) site of the debug MIR is a bare op (no assertion) in the overflow-checks-off extraction"""
    from ..facts import get_facts
    rel = get_facts('release')
    dbg = chk.facts
    relfn = {f['name']: f for f in rel['fns']}
    n = 0
    bad = []
    for f in dbg['fns']:
        if not (f['name'].startswith('<addr::') or f['name'].startswith('<structures::paging::page::') or f['name'].startswith('<structures::paging::frame::')
                or f['name'].startswith('structures::paging::page::') or f['name'].startswith('structures::paging::frame::')):
            continue
        sites = [b['t'] for b in f['blocks'] if b['t'] and b['t']['k'] == 'assert' and b['t']['ak'].startswith('Overflow(') and 'Sh' not in b['t']['ak']]
        if not sites:
            continue
        rf = relfn.get(f['name'])
        n += len(sites)
        if rf is None:
            bad.append((f['name'], 'missing in release facts'))
            continue
        rsites = [b['t'] for b in rf['blocks'] if b['t'] and b['t']['k'] == 'assert' and b['t']['ak'].startswith('Overflow(') and 'Sh' not in b['t']['ak']]
        if rsites:
            bad.append((f['name'], '%d overflow assertions remain' % len(rsites)))
    chk.count('overflow-sites cross-checked', n)
    chk.ob('release-profile', 'overflow assertions of the arithmetic code disappear without overflow checks', not bad and n >= 6, 'sites %d (floor 6, counted after the F1/F2 repairs), mismatches %r' % (n, bad[:5]))
