"""C06 - alignment and containment are exact."""
from spec import paging as SP

from ..bits import BV, Aff, atom_key, eq0_bit, lit
from ..interp import State
from ..values import Enum, Struct
from .common import SIZES, U64, adt, bv, fn_site, inner, same, size_ty, sl

LEVEL = 'proof'
VA = 'addr::VirtAddr'
PA = 'addr::PhysAddr'


def run(chk):
    I = chk.I
    chk.trusted += ['x86abs transfer functions (bit-provenance, slice-affine) and models of checked_add / is_power_of_two',
                    'PhysAddr::new / VirtAddr::new_truncate are decided by C03\'s constructor rules, run here as well, and composed']
    ks = range(64)

    def r1(fn_, args, sub=None, st=None):
        chk.count('function-instances')
        return I.run(fn_, args, st if st is not None else State(), sub)

    # ---- raw align_down / align_up for every power of two
    def raw():
        for k in ks:
            al = BV.const(64, 1 << k)
            o = r1('addr::align_down', [BV.sym(64, 'a'), al])
            want = bv(64, (0, k), sl('a', k, 64))
            chk.ob('align-down', 'align_down(a, 2^%d) = a with the low %d bits cleared' % (k, k), len(o) == 1 and o[0].kind == 'ret' and same(o[0].val, want), 'paths %r' % (o,),
                   fn_site(I, 'addr::align_down'), nontrivial=True, sample=repr(o[0].val) if k == 12 and o else None)
            o = r1('addr::align_up', [BV.sym(64, 'a'), al])
            rets = [x for x in o if x.kind == 'ret']
            pans = [x for x in o if x.kind == 'panic']
            ok = True
            seen = set()
            for x in rets:
                low_zero = all(x.st.env.get(('a', i)) == 0 for i in range(k))
                if low_zero and (k == 0 or True) and same(x.val, bv(64, (0, k), sl('a', k, 64))) and 'aligned' not in seen:
                    seen.add('aligned')
                    continue
                af = I.exact_aff(x.st, x.val) if isinstance(x.val, BV) else None
                want = Aff({('a', k, 64): 1 << k}, 1 << k) if k < 64 else None
                if k > 0 and af is not None and (af.norm(64) == want.norm(64) or I.aff_equal(x.st, af, want)) and 'rounded' not in seen:
                    # this path must be the "not aligned" one: the aligned test was false
                    seen.add('rounded')
                    continue
                ok = False
            want_seen = {'aligned'} if k == 0 else {'aligned', 'rounded'}
            chk.ob('align-up', 'align_up(a, 2^%d): a when aligned, else (a >> %d + 1) << %d' % (k, k, k), ok and seen == want_seen, 'paths %r' % (o,), fn_site(I, 'addr::align_up'),
                   sample=[repr(x.val) for x in rets] if k == 12 else None)
            # a panic path is one on which the rounded value 2^64 does not exist: bits k..63 of the input are all ones (however the code
            # finds that out: checked_add overflowing, a comparison with u64::MAX, ...) and the input is not aligned
            def all_ones_above(x):
                return all(x.st.env.get(('a', i)) == 1 for i in range(k, 64)) or any('checked_add overflows' == n[0] and n[1] == 1 for n in x.st.notes)
            okp = all(all_ones_above(x) for x in pans) and (len(pans) >= 1 if k > 0 else not pans)
            chk.ob('align-up', 'align_up(a, 2^%d) panics exactly when the rounded value does not fit in 64 bits' % k, okp, 'panic paths %r' % ([x.st.notes for x in pans],), fn_site(I, 'addr::align_up'))
        # non powers of two: the assertion dominates every use
        for fn_ in ('addr::align_down', 'addr::align_up'):
            o = r1(fn_, [BV.sym(64, 'a'), BV.sym(64, 'al')])
            okr = bool(o) and all(any(isinstance(kf, tuple) and len(kf) == 3 and kf[1] == 'pow2' and tv == 1 for kf, tv in x.st.facts.items()) for x in o if x.kind == 'ret')
            okp = any(x.kind == 'panic' and any(isinstance(kf, tuple) and len(kf) == 3 and kf[1] == 'pow2' and tv == 0 for kf, tv in x.st.facts.items()) for x in o)
            chk.ob('align-pow2', '%s returns only under align.is_power_of_two() and panics otherwise' % fn_.split('::')[-1], okr and okp, 'paths %r' % ([(x.kind, x.st.notes[:1]) for x in o],), fn_site(I, fn_))
    chk.guard('align', 'raw alignment functions', raw)

    # ---- typed wrappers: composition with the raw function and the re-validating constructor
    def typed():
        va = I.sym_value(adt(VA), 'v')
        pa = I.sym_value(adt(PA), 'p')

        def calls(o, name, caller=None):
            return [e for e in o.st.events if e[0] == 'icall' and e[1] == name and (caller is None or e[4] == caller)]

        def ret_of(o, cid):
            r = [e for e in o.st.events if e[0] == 'iret' and e[3] == cid]
            return r[0][2] if r else None
        for T, val, sym, vb in ((VA, va, 'v', 48), (PA, pa, 'p', 52)):
            for k in range(0, vb):
                al = BV.const(64, 1 << k)
                # align_down
                fn_ = T + '::align_down'
                o = r1(fn_, [val, al], {'U': U64})
                if T == VA:
                    want = BV(64, [0] * k + sl(sym, k, 48) + [lit(sym, 47)] * 16)
                else:
                    want = BV(64, [0] * k + sl(sym, k, 52) + [0] * 12)
                chk.ob('typed-align', '%s::align_down(2^%d) = greatest multiple not above, still valid' % (T.split('::')[-1], k), len(o) == 1 and o[0].kind == 'ret' and same(inner(o[0].val), want),
                       'paths %r' % (o,), fn_site(I, fn_))
                # is_aligned
                fn_ = T + '::is_aligned'
                o = r1(fn_, [val, al], {'U': U64})
                wantb = BV(1, [eq0_bit(tuple(inner(val).bits[:k]))])
                chk.ob('typed-align', '%s::is_aligned(2^%d) <=> low %d bits are zero' % (T.split('::')[-1], k, k), len(o) == 1 and o[0].kind == 'ret' and same(o[0].val, wantb), 'paths %r' % (o,), fn_site(I, fn_))
            # align_up = constructor(raw align_up(self.0, align))
            ctor = VA + '::new_truncate' if T == VA else PA + '::new'
            fn_ = T + '::align_up'
            for k in (0, 1, 12, 21, 30, 47) if T == VA else (0, 1, 12, 21, 30, 51):
                o = r1(fn_, [val, BV.const(64, 1 << k)], {'U': U64})
                ok = bool(o)
                for x in o:
                    c1 = calls(x, 'addr::align_up', fn_)
                    c2 = calls(x, ctor, fn_)
                    okx = len(c1) == 1 and same(c1[0][2][0], inner(val)) and same(c1[0][2][1], BV.const(64, 1 << k))
                    if x.kind == 'ret':
                        r1v = ret_of(x, c1[0][5]) if okx else None
                        okx = okx and len(c2) == 1 and r1v is not None and same_or_refined(x, c2[0][2][0], r1v) and same(x.val, ret_of(x, c2[0][5]))
                    elif T == VA:
                        # the truncating constructor never panics: the only panic is the raw function's 64-bit overflow (all address bits
                        # from the alignment upwards are ones)
                        vb = inner(val).bits
                        okx = okx and (any('checked_add overflows' == n[0] and n[1] == 1 for n in x.st.notes) or
                                       all((b == 1) or (isinstance(b, tuple) and b[0] == 'v' and x.st.env.get((b[1], b[2])) == (0 if b[3] else 1)) for b in vb[k:]))
                    ok = ok and okx
                chk.ob('typed-align', '%s::align_up(2^%d) = %s(align_up(self.0, align)) on every path' % (T.split('::')[-1], k, ctor.split('::')[-1]), ok, 'paths %r' % (o,), fn_site(I, fn_))
            # any alignment: the typed forms return only for powers of two (where the obligations above decide the value)
            # and panic otherwise - is_aligned included, so it can never answer for a non-power-of-two alignment
            for fn_, sub in ((T + '::align_down', {'U': U64}), (T + '::is_aligned', {'U': U64}), (T + '::align_up', {'U': U64})):
                o = r1(fn_, [val, BV.sym(64, 'al')], sub)
                pow2 = lambda x, tv: any(isinstance(kf, tuple) and len(kf) == 3 and kf[1] == 'pow2' and v2 == tv for kf, v2 in x.st.facts.items())
                okr = bool(o) and all(pow2(x, 1) for x in o if x.kind == 'ret')
                okp = any(x.kind == 'panic' and pow2(x, 0) for x in o)
                chk.ob('align-pow2', '%s returns only under align.is_power_of_two() and panics otherwise' % fn_.replace('addr::', ''), okr and okp,
                       'paths %r' % ([(x.kind, x.st.notes[:1]) for x in o],), fn_site(I, fn_))
    chk.guard('typed-align', 'VirtAddr/PhysAddr alignment', typed)

    # ---- pages and frames
    def pages():
        for sname, sb in SIZES.items():
            S = size_ty(sname)
            for T, AT, sym, vb, cont in (('structures::paging::page::Page', VA, 'v', 48, True), ('structures::paging::frame::PhysFrame', PA, 'p', 52, False)):
                a = I.sym_value(adt(AT), sym)
                ab = inner(a).bits
                fn_ = T + '::<S>::containing_address'
                o = r1(fn_, [a], {'S': S})
                want = BV(64, [0] * sb + list(ab[sb:]))
                chk.ob('containing', '%s<%s>::containing_address starts at the address with its low %d bits cleared' % (T.split('::')[-1], sname, sb),
                       len(o) == 1 and o[0].kind == 'ret' and same(inner(o[0].val), want), 'paths %r' % (o,), fn_site(I, fn_))
                # from_start_address: aligned cube -> Ok(address); each misaligned cube -> Err
                fn_ = T + '::<S>::from_start_address'
                al = Struct(AT, [BV(64, [0] * sb + list(ab[sb:]))])
                o = r1(fn_, [al], {'S': S})
                ok = len(o) == 1 and o[0].kind == 'ret' and o[0].val.vname == 'Ok' and same(inner(o[0].val.fields[0]), inner(al))
                chk.ob('from-start', '%s<%s>::from_start_address(aligned) = Ok(that address)' % (T.split('::')[-1], sname), ok, 'paths %r' % (o,), fn_site(I, fn_))
                for j in range(sb):
                    b = list(ab)
                    b[j] = 1
                    o = r1(fn_, [Struct(AT, [BV(64, b)])], {'S': S})
                    chk.ob('from-start', '%s<%s>::from_start_address(bit %d set) = Err' % (T.split('::')[-1], sname, j), bool(o) and all(x.kind == 'ret' and x.val.vname == 'Err' for x in o), 'paths %r' % (o,),
                           fn_site(I, fn_), nontrivial=(j == 0))
    chk.guard('pages', 'page / frame containment', pages)

    def sizes():
        for sname, sb in SIZES.items():
            S = size_ty(sname)
            for T, AT, sym in (('structures::paging::page::Page', VA, 'v'), ('structures::paging::frame::PhysFrame', PA, 'p')):
                short = T.split('::')[-1]
                pg = I.newtype(T, Struct(AT, [BV(64, [0] * sb + sl(sym, sb, 64))]))
                fn_ = T + '::<S>::size'
                o = r1(fn_, [pg], {'S': S})
                chk.ob('containing', '%s<%s>::size() = %#x' % (short, sname, 1 << sb), len(o) == 1 and o[0].kind == 'ret' and isinstance(o[0].val, BV) and o[0].val.is_const() and o[0].val.value() == 1 << sb,
                       'paths %r' % (o,), fn_site(I, fn_))
                fn_ = T + '::<S>::from_start_address_unchecked'
                a = I.sym_value(adt(AT), sym)
                o = r1(fn_, [a], {'S': S})
                chk.ob('from-start', '%s<%s>::from_start_address_unchecked keeps the address as given' % (short, sname), len(o) == 1 and o[0].kind == 'ret' and same(inner(o[0].val), inner(a)),
                       'paths %r' % (o,), fn_site(I, fn_), nontrivial=False)
                fn_ = T + '::<S>::start_address'
                o = r1(fn_, [pg], {'S': S})
                chk.ob('containing', '%s<%s>::start_address returns the stored start' % (short, sname), len(o) == 1 and o[0].kind == 'ret' and same(inner(o[0].val), inner(pg)), 'paths %r' % (o,), fn_site(I, fn_),
                       nontrivial=False)
    chk.guard('pages', 'size / start_address', sizes)
    # the constructors the typed forms re-validate through (PhysAddr::new, VirtAddr::new_truncate): shared with C03
    from .c03 import constructors
    chk.guard('constructor', 'address constructors', lambda: constructors(chk))
    chk.floor('obligations', len(chk.obs), 500)


def same_or_refined(o, a, b):
    return same(a, b)
