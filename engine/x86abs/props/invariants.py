"""Representation-invariant guards shared by every property.

Every check feeds the crate's own value types to the interpreter under their representation invariants (a VirtAddr is canonical, a
PhysAddr has 52 bits, a Page/PhysFrame start is size-aligned, a PageTableIndex is below 512, a Pcid below 4096). Those invariants are what
C03 / C04 / C19 establish - but a property evaluated on its own must not *assume* what a change elsewhere in the crate has broken: an
added safe constructor that hands out a non-canonical address breaks C05, C06, C07, ... for the values it produces although none of their
anchored functions changed. So each check that used an invariant (recorded by the interpreter in `Interp.INVARIANTS_USED`) also runs the
census that establishes it, under its own id."""
from ..interp import Interp

VA = 'addr::VirtAddr'
PA = 'addr::PhysAddr'
PG = 'structures::paging::page::Page'
FR = 'structures::paging::frame::PhysFrame'
PTI = 'structures::paging::page_table::PageTableIndex'
PTO = 'structures::paging::page_table::PageOffset'
PCID = 'instructions::tlb::Pcid'


# what each property's statement quantifies over, whether or not a particular run happened to build such a value through sym_value
RELIES = {
    'C01': {VA, PA, PG, FR, PTI}, 'C02': {VA, PA, PG, FR, PTI}, 'C04': {VA, PG}, 'C05': {VA, PG, PTI}, 'C06': {VA, PA, PG, FR},
    'C07': {VA, PA, PG, FR}, 'C08': {PA, FR, PTI}, 'C09': {VA, PA, PG, FR, PTI}, 'C10': {VA, PA, PG, FR, PTI}, 'C11': {VA, PG, PCID}, 'C19': {PCID},
    'C12': {VA}, 'C13': {VA}, 'C14': {VA}, 'C16': {VA, PA, FR, PCID}, 'C20': {VA, PA, PG, FR, PTI},
}


def run_guards(chk, pid):
    used = set(Interp.INVARIANTS_USED) | RELIES.get(pid, set())
    if pid != 'C03' and used & {VA, PA, PG, FR}:
        from . import c03
        chk.guard('invariant', 'who may construct an address, page or frame', lambda: c03.census(chk))
    if pid != 'C04' and used & {PTI, PTO}:
        from . import c04
        chk.guard('invariant', 'who may construct a table index or page offset', lambda: c04.index_census(chk))
    if pid not in ('C19', 'C16') and PCID in used:
        from . import c19
        chk.guard('invariant', 'Pcid::new', lambda: c19.pcid_codec(chk, chk.I, 'invariant'))
    if PCID in used:
        from . import c04
        chk.guard('invariant', 'who may construct a Pcid', lambda: c04.index_census(chk, {PCID: 4096}, {PCID + '::new'}, 1, 'Pcid'))


# ---------------------------------------------------------------------------------------------- coverage of what the property is about
MP = 'structures::paging::mapper::'
PTE = 'structures::paging::page_table::PageTableEntry'
TBL = 'structures::paging::page_table::PageTable'
ENTRY_MUTATORS = {PTE + '::set_addr', PTE + '::set_frame', PTE + '::set_flags', PTE + '::set_unused', TBL + '::zero'}
MAPPER_OPS = ('map_to', 'map_to_with_table_flags', 'identity_map', 'unmap', 'update_flags', 'set_flags_p4_entry', 'set_flags_p3_entry', 'set_flags_p2_entry',
              'clean_up', 'clean_up_addr_range')


def _local_closure(chk, roots):
    """the given struct types plus every crate-local struct reachable through their fields (private walker / offset types included)"""
    adts = {a['name']: a for a in chk.facts.get('adts', [])}
    out, todo = set(), list(roots)

    def names(t):
        if not isinstance(t, dict):
            return
        if t.get('k') == 'adt':
            yield t['name']
            for a in t.get('args', []):
                for n in names(a):
                    yield n
        for k in ('to', 'elem'):
            if isinstance(t.get(k), dict):
                for n in names(t[k]):
                    yield n
        for e in t.get('elems', []) if isinstance(t.get('elems'), list) else []:
            for n in names(e):
                yield n
    while todo:
        n = todo.pop()
        if n in out or n not in adts:
            continue
        out.add(n)
        for f in adts[n]['fields']:
            for m in names(f['ty']):
                if m in adts and m not in out and m.startswith(MP):
                    todo.append(m)
    return out


def _is_mapper_op(t):
    last = t.split('::')[-1]
    return last in MAPPER_OPS and ('mapper::Mapper' in t or 'mapper::CleanUp' in t or ' as ' + MP in t)


def run_coverage(chk, pid):
    """state and operations the property is about are only touched by functions this check analysed (see common.writers_touched)"""
    from .common import callers_touched, writers_touched
    if pid in ('C01', 'C02', 'C09', 'C10'):
        from . import c01, c08, c10
        from .mapper import MapperLab

        def pre():
            if pid in ('C09', 'C10'):
                # C09 / C10 walk tables whose shape (a present non-huge entry above level 1 points to a table the mapper allocated and
                # zeroed; leaves carry what map_to stored; a failed call leaves no half-made entry) is what the mapper operations establish: their rules (C02) are run here, so that whoever changes page-table
                # entries has been judged when the census below asks
                from . import c02
                saved = (list(chk.trusted), getattr(chk, 'explanation', None))
                c02.run(chk)
                chk.trusted, chk.explanation = saved
            # the parts of the mapper the property's own rules do not enter are entered here, under this property's id: the OffsetPageTable
            # delegations, the constructors and accessors, the provided map_to / identity_map, the clean-up walk, PageTable::zero
            lab = MapperLab(chk)
            if pid != 'C01':
                c01.delegation(chk, lab)
                c01.constructors(chk, lab)
                c01.defaults(chk, lab)
                for impl in ('mapped', 'recursive'):
                    c10.helper(chk, impl)
                    c10.entry_points(chk, impl)
            c08.iter_rules(chk, chk.I, lambda fn_, args, st=None, sub=None: chk.I.run(fn_, args, st if st is not None else __import__('x86abs.interp', fromlist=['State']).State(), sub))
        chk.guard('coverage', 'rest of the mapper', pre)
        types = _local_closure(chk, [MP + 'MappedPageTable', MP + 'RecursivePageTable', MP + 'OffsetPageTable'])
        allow = {MP + "RecursivePageTable::<'_>::new"}      # decided in C20 (needs CR3)
        chk.guard('coverage', 'who modifies a mapper object', lambda: writers_touched(chk, 'coverage', types, 'the mapper objects: root table, frame mapping, recursive index', allow=allow))
        chk.guard('coverage', 'who changes page-table entries', lambda: callers_touched(chk, 'coverage', ENTRY_MUTATORS, 'page-table entries'))
        chk.guard('coverage', 'who calls the mapper operations', lambda: callers_touched(chk, 'coverage', set(), 'the mapper operations', pred=_is_mapper_op))
    if pid == 'C20':
        types = _local_closure(chk, [MP + 'RecursivePageTable'])
        chk.guard('coverage', 'who modifies the recursive mapper', lambda: writers_touched(chk, 'coverage', types, 'the table reference and the recursive index'))
    if pid == 'C08':
        chk.guard('coverage', 'who writes page-table entries', lambda: writers_touched(chk, 'coverage', {PTE, TBL}, 'the raw entry word and the entry array'))
    if pid == 'C12':
        chk.guard('coverage', 'who lends out IDT entries', lambda: writers_touched(chk, 'coverage', {'structures::idt::InterruptDescriptorTable'}, 'the table\'s entries', also_borrows='any'))
        chk.guard('coverage', 'who modifies IDT entries', lambda: writers_touched(chk, 'coverage', {'structures::idt::Entry', 'structures::idt::EntryOptions'}, 'gate contents and options'))
    if pid == 'C15':
        chk.guard('coverage', 'who builds descriptors', lambda: writers_touched(chk, 'coverage', {'structures::gdt::Descriptor', 'structures::tss::TaskStateSegment'}, 'descriptor values'))
    if pid == 'C17':
        tg = {'instructions::interrupts::enable', 'instructions::interrupts::disable', 'instructions::interrupts::enable_and_hlt'}
        chk.guard('coverage', 'who changes the interrupt flag', lambda: callers_touched(chk, 'coverage', tg, 'the interrupt flag'))
    if pid == 'C18':
        P_ = 'instructions::port::PortGeneric'
        chk.guard('coverage', 'who makes or changes port objects', lambda: (writers_touched(chk, 'coverage', {P_}, 'the port number of a port object'),
                                                                           callers_touched(chk, 'coverage', {P_ + '::<T, A>::new'}, 'port objects')))
