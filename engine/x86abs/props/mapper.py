"""Shared machinery for the mapper properties (C01, C02, C09, C11): runs one mapper operation of one implementation
and page size through the abstract interpreter with symbolic page tables and summarises every path as an ordered
list of steps (entry tests, entry writes, table dereferences, allocator calls, zeroing), each attributed to a
table level and slot."""
import re

from spec import paging as SP

from ..bits import BV, TOP, fmt_bit, lit
from ..interp import Outcome, State, Unsupported
from ..values import UNIT, Array, Enum, Opaque, Ptr, Ref, Struct, fmt_idx
from .common import SIZES, adt, bv, inner, same, size_ty, sl
from .c20 import rec_addr

MP = 'structures::paging::mapper::'
MAPPED = MP + 'MappedPageTable'
REC = MP + 'RecursivePageTable'
OFFSET = MP + 'OffsetPageTable'
TBL = 'structures::paging::page_table::PageTable'
PTE = 'structures::paging::page_table::PageTableEntry'
FL = 'structures::paging::page_table::PageTableFlags'
PG = 'structures::paging::page::Page'
FR = 'structures::paging::frame::PhysFrame'
ENTRY_SYM = re.compile(r'^(P4|ptr[:@].*)\[(.*)\]$')
DOM = SP.PTE_FLAG_DOMAIN


def entry_val(nm):
    return Struct(PTE, [BV.sym(64, nm)])


def table_val(name):
    return Struct(TBL, [Array(name, mk=entry_val, length=512)])


def zero_table(name):
    return Struct(TBL, [Array(name, default=Struct(PTE, [BV.const(64, 0)]), length=512)])


def impl_fn(impl, size, method):
    """def path of a Mapper / Translate / inherent method"""
    ty = {'mapped': MAPPED + "<'_, P>", 'recursive': REC + "<'_>", 'offset': OFFSET + "<'_>"}[impl]
    if method == 'translate':
        return '<%s as %sTranslate>::translate' % (ty, MP)
    if method in ('map_to_1gib', 'map_to_2mib', 'map_to_4kib'):
        return {'mapped': MAPPED + "::<'_, P>::", 'recursive': REC + "::<'_>::"}[impl] + method
    return '<%s as %sMapper<structures::paging::page::%s>>::%s' % (ty, MP, size, method)


class Step:
    def __init__(self, k, **kw):
        self.k = k
        self.__dict__.update(kw)

    def __repr__(self):
        d = {k: v for k, v in self.__dict__.items() if k not in ('k', 'ev')}
        return '%s(%s)' % (self.k, ', '.join('%s=%s' % (k, (repr(v)[:70])) for k, v in d.items()))


class PathSummary:
    def __init__(self, o):
        self.o = o
        self.kind = o.kind
        self.val = o.val
        self.st = o.st
        self.steps = []
        self.levels = {}        # table key -> level
        self.problems = []

    def result(self):
        """('Ok', payload) / ('Err', variant name) / 'panic' ..."""
        if self.kind != 'ret':
            return (self.kind,)
        v = self.val
        if isinstance(v, Enum) and v.vname in ('Ok', 'Err'):
            if v.vname == 'Err':
                e = v.fields[0]
                return ('Err', e.vname if isinstance(e, Enum) else repr(e))
            return ('Ok', v.fields[0])
        if isinstance(v, Enum):
            return (v.vname, v)
        return ('val', v)


class MapperLab:
    def __init__(self, chk, invariant=True):
        """invariant=False: page-table slots hold arbitrary 64-bit values (not only all-zero or PRESENT ones)"""
        self.chk = chk
        I = chk.new_interp()
        I.merge_diamonds = False   # the walk rules classify each path by the entry bits it tested
        self.I = I
        I.object_factory = lambda p: table_val(p.key())
        self.invariant = invariant
        if invariant:
            I.refine_hook = self._hook
        I.models[TBL + '::zero'] = self._m_zero

    # ---- interpreter hooks
    def _hook(self, I, st, what):
        """reachable page-table entries are all-zero or have PRESENT set (every stored leaf and parent entry carries
        PRESENT: the property's quantifier)"""
        if what[0] == 'nonzero':
            bits = what[1]
            if len(bits) == 64 and all(isinstance(b, tuple) and b[0] == 'v' and not b[3] and b[2] == i for i, b in enumerate(bits)):
                nm = bits[0][1]
                if all(b[1] == nm for b in bits) and ENTRY_SYM.match(nm):
                    I.assume(st, lit(nm, 0), 1)
        elif what[0] == 'bit':
            _, nm, i, v = what
            if i == 0 and v == 0 and ENTRY_SYM.match(nm):
                I.apply_env(st, {(nm, j): 0 for j in range(1, 64)})
            elif i != 0 and v == 1 and ENTRY_SYM.match(nm) and st.env.get((nm, 0)) is None:
                # a set bit makes the entry non-zero, hence present
                I.apply_env(st, {(nm, 0): 1})

    def _m_zero(self, ctx):
        ref = ctx.args[0]
        r = ref if isinstance(ref, Ref) else ctx.I.ptr_ref(ctx.st, ref)
        ctx.st.events.append(('zero', r, ctx.loc, ctx.fr.f['name']))
        name = r.loc[1] if r.loc[0] == 'obj' else repr(r.loc)
        ctx.I._store_at(ctx.st, r.loc, r.path, zero_table(name))
        return UNIT

    # ---- inputs
    def flags(self, name, present=True, huge=None, parent=False):
        """leaf flags from the quantified domain (bits 0..11, 52..63) with PRESENT; parent flags: PRESENT + symbolic
        WRITABLE / USER_ACCESSIBLE (not HUGE_PAGE)"""
        I = self.I
        if parent:
            bits = [1, lit(name, 1), lit(name, 2)] + [0] * 61
        else:
            bits = [lit(name, i) if (DOM >> i) & 1 else 0 for i in range(64)]
            if present:
                bits[0] = 1
            if huge is not None:
                bits[7] = huge
        return I.wrap_scalar(adt(FL), BV(64, bits))

    def setup(self, impl):
        I = self.I
        st = State()
        st.mem[('obj', 'P4')] = table_val('P4')
        # the mapper object is what its public constructor builds from (root table, frame mapping / recursive index): the private field
        # names and their order are whatever the crate chose
        P_ = {'P': {'k': 'param', 'name': 'P'}}
        try:
            if impl in ('mapped', 'offset'):
                o = I.run(MAPPED + "::<'_, P>::new", [Ref(('obj', 'P4')), Opaque('frame-mapping')], st, P_)
                selfv = o[0].val if len(o) == 1 and o[0].kind == 'ret' else None
                if impl == 'offset' and selfv is not None:
                    selfv = Struct(OFFSET, [selfv])
            else:
                o = I.run(REC + "::<'_>::new_unchecked", [Ref(('obj', 'P4')), I.sym_value(adt('structures::paging::page_table::PageTableIndex'), 'r')], st)
                selfv = o[0].val if len(o) == 1 and o[0].kind == 'ret' else None
        except Unsupported:
            selfv = None
        if selfv is None:
            raise Unsupported('the %s mapper could not be built through its constructor' % impl)
        st = o[0].st
        st.events = []
        st.mem[('arg', 'self')] = selfv
        return st

    def run(self, impl, size, method, extra=None, page=None):
        """run `method`; returns (function name, [PathSummary])"""
        I = self.I
        fn_ = impl_fn(impl, size, method)
        self.size_bits = SIZES.get(size, 12) if size else 12
        st = self.setup(impl)
        S = size_ty(size) if size else None
        if method == 'translate':
            args = [Ref(('arg', 'self')), I.sym_value(adt('addr::VirtAddr'), 'page')]
        else:
            pg = page if page is not None else I.sym_value(adt(PG, S), 'page')
            args = [Ref(('arg', 'self')), pg] + (extra(self, size) if extra else [])
        self.chk.count('function-instances')
        outs = I.run(fn_, args, st, {'A': {'k': 'param', 'name': 'A'}, 'P': {'k': 'param', 'name': 'P'}, 'D': {'k': 'param', 'name': 'D'}})
        self.chk.count('paths', len(outs))
        return fn_, [self.summarise(o, impl) for o in outs]

    # ---- summaries
    def summarise(self, o, impl):
        ps = PathSummary(o)
        st = o.st
        levels = ps.levels
        levels['P4'] = 4
        # entry symbol -> (table key, index BV): from every table object of the final state
        names = {}
        for loc, v in st.mem.items():
            if loc[0] == 'obj' and isinstance(v, Struct) and v.name == TBL and isinstance(v.fields[0], Array):
                arr = v.fields[0]
                for k, (iv, ev) in arr.elems.items():
                    names['%s[%s]' % (arr.name, fmt_idx(iv))] = (loc[1], iv)
        ps.names = names
        # frame-bits key -> entry that holds that frame (updated at writes)
        holder = {}

        def frame_key(bits):
            return tuple(bits[12:52])
        for nm, (tk, iv) in names.items():
            holder[tuple(lit(nm, i) for i in range(12, 52))] = (tk, iv)

        def table_of_ptr(p, call_args=None):
            key = p.key()
            if key in levels:
                return key
            if p.addr is not None:
                lv = self.recursive_level(p.addr)
                if lv is None:
                    ps.problems.append('dereferenced address %r is not a recursive table address' % (p.addr,))
                levels[key] = lv
            return key
        for e in st.events:
            k = e[0]
            if k == 'branch':
                self._branch(ps, e, names)
            elif k == 'write':
                ref, old, new = e[1], e[2], e[3]
                ent = self._entry_of_ref(ref)
                if ent is None and ref.loc[0] == 'obj' and len(ref.path) == 2 and ref.path[0] == 0 and isinstance(ref.path[1], tuple) and ref.path[1][0] == 'idx' and \
                        isinstance(new, Struct) and new.name == PTE:
                    # the whole entry is assigned (`*entry = PageTableEntry::new()`): same as writing its raw word
                    ent = (ref.loc[1], ref.path[1][1])
                    new = inner(new)
                    old = inner(old) if isinstance(old, Struct) else old
                if ent is None:
                    if ref.loc[0] in ('obj', 'arg') and not (ref.loc == ('arg', 'self')):
                        ps.steps.append(Step('write-other', ref=ref, new=new, ev=e))
                    continue
                tk, iv = ent
                ps.steps.append(Step('write', table=tk, idx=iv, level=levels.get(tk), old=old, new=new, ev=e))
                if isinstance(new, BV):
                    holder[frame_key(new.bits)] = (tk, iv)
            elif k == 'call':
                tgt = e[1]
                if tgt.endswith('frame_to_pointer'):
                    fr = inner(e[2][1])
                    h = holder.get(frame_key(fr.bits))
                    key = 'ptr:frame_to_pointer#%d' % e[5]
                    if h is None:
                        ps.problems.append('frame_to_pointer called on a frame that is not read from a table entry: %r' % (fr,))
                        levels[key] = None
                    else:
                        pl = levels.get(h[0])
                        levels[key] = (pl - 1) if pl else None
                    ps.steps.append(Step('to-pointer', table=key, parent=h, level=levels[key], ev=e))
                elif tgt.endswith('allocate_frame'):
                    ps.steps.append(Step('alloc', id=e[5], ev=e))
                elif tgt.endswith('deallocate_frame'):
                    ps.steps.append(Step('dealloc', frame=e[2][1] if len(e[2]) > 1 else None, ev=e))
                else:
                    ps.steps.append(Step('call', target=tgt, ev=e))
            elif k == 'opaque-result':
                if e[1].startswith('allocate_frame#'):
                    ps.steps.append(Step('alloc-result', some=(e[2] == 'Some'), ev=e))
            elif k == 'rawderef':
                p = e[1]
                if isinstance(p, Ptr):
                    key = table_of_ptr(p)
                    ps.steps.append(Step('deref', table=key, level=levels.get(key), by='address' if p.addr is not None else 'frame_to_pointer', where=e[2], ev=e))
                else:
                    ps.steps.append(Step('deref', table=repr(p), level=None, by='reference', where=e[2], ev=e))
            elif k == 'zero':
                r = e[1]
                ps.steps.append(Step('zero', table=r.loc[1] if r.loc[0] == 'obj' else repr(r.loc), ev=e))
            elif k == 'asm':
                ps.steps.append(Step('asm', tpl=e[1], ev=e))
            elif k == 'panic':
                ps.steps.append(Step('panic', msg=e[1], ev=e))
        # fill levels for steps recorded before the table's level was known
        for s in ps.steps:
            if hasattr(s, 'table') and getattr(s, 'level', None) is None and s.table in levels:
                s.level = levels[s.table]
        return ps

    def _entry_of_ref(self, ref):
        """(table key, index) when ref is the raw u64 of a page-table slot"""
        if ref.loc[0] != 'obj' or len(ref.path) != 3:
            return None
        if ref.path[0] != 0 or not (isinstance(ref.path[1], tuple) and ref.path[1][0] == 'idx') or ref.path[2] != 0:
            return None
        return (ref.loc[1], ref.path[1][1])

    def _branch(self, ps, e, names):
        bit, val = e[1], e[2]
        what = None
        ent = None
        if isinstance(bit, tuple) and bit[0] == 'v' and bit[1] in names:
            ent = names[bit[1]]
            v = (1 - val) if bit[3] else val
            if bit[2] == SP.PTE_P:
                what, res = 'present', v
            elif bit[2] == SP.PTE_PS:
                what, res = 'huge', v
            else:
                what, res = 'bit%d' % bit[2], v
        elif isinstance(bit, tuple) and bit[0] == 'p' and bit[1] == 'eq0':
            pl = bit[2]
            syms = {b[1] for b in pl if isinstance(b, tuple) and b[0] == 'v'}
            lits = [b for b in pl if isinstance(b, tuple)]
            if len(syms) == 1 and next(iter(syms)) in names and len(lits) >= 56 and len({b[2] for b in lits if b[0] == 'v'}) == len(lits) and \
                    all(b == 0 or (isinstance(b, tuple) and b[0] == 'v' and not b[3]) for b in pl):
                # the whole entry compared with zero (bits the path already knows to be zero have dropped out of the comparison)
                ent = names[next(iter(syms))]
                v = (1 - val) if bit[3] else val
                what, res = 'unused', v
            elif len(syms) == 1 and next(iter(syms)) in names and len(lits) == 1 and lits[0][0] == 'v' and lits[0][2] in (SP.PTE_P, SP.PTE_PS) and \
                    all(b == 0 or b is lits[0] or b == lits[0] for b in pl):
                # `entry & FLAG == 0` / `match entry & FLAG { 0 => .. }`: a test of that single flag bit
                ent = names[next(iter(syms))]
                v = (1 - val) if bit[3] else val        # truth of "masked value is zero"
                set_ = (1 - v) if not lits[0][3] else v  # truth of "the flag bit is set"
                what, res = ('present' if lits[0][2] == SP.PTE_P else 'huge'), set_
            elif len(syms) == 1 and next(iter(syms)) in names and lits and all(b[0] == 'v' and 12 <= b[2] < 30 for b in lits):
                # alignment test of the frame address stored in the entry (huge-page frames are size-aligned)
                ent = names[next(iter(syms))]
                v = (1 - val) if bit[3] else val
                what, res = 'aligned', v
        if what is None:
            syms = set()
            _collect_syms(bit, syms)
            ents = [names[s] for s in syms if s in names]
            ps.steps.append(Step('test-other', expr=fmt_bit(bit) if bit != TOP else '?', val=val, entries=ents, ev=e))
            return
        tk, iv = ent
        ps.steps.append(Step('test', table=tk, idx=iv, level=ps.levels.get(tk), what=what, res=res, ev=e))

    def recursive_level(self, addr):
        """level of the table at a recursive address (oracle: C20's form), or None"""
        for lv in (3, 2, 1):
            want = []
            ok = True
            for i, b in enumerate(rec_addr(lv, 'page')):
                if isinstance(b, tuple) and b[0] == 'page':
                    j = b[1]
                    # the page's own bits (low bits of a huge page are zero)
                    x = addr.bits[i]
                    if x != (lit('page', j) if j >= getattr(self, 'size_bits', 12) else 0):
                        ok = False
                        break
                else:
                    if addr.bits[i] != b:
                        ok = False
                        break
            if ok:
                return lv
        return None

    def index_ok(self, level, idx, page_sym='page', size=None):
        """is `idx` the level-`level` index of the operation's page?"""
        lo, hi = SP.INDEX[level]
        sb = SIZES.get(size, 0) if size else 0
        want = [lit(page_sym, lo + j) if lo + j >= sb else 0 for j in range(9)] + [0] * (idx.w - 9)
        return tuple(idx.bits) == tuple(want)


def _collect_syms(bit, out):
    if not isinstance(bit, tuple):
        return
    if bit[0] == 'v':
        out.add(bit[1])
    elif bit[0] == 'p':
        pl = bit[2]
        stack = [pl]
        while stack:
            x = stack.pop()
            if isinstance(x, tuple):
                if x and x[0] == 'v' and len(x) == 4:
                    out.add(x[1])
                else:
                    stack.extend(x)
    elif bit[0] in ('and', 'or', 'xor'):
        for x in bit[1]:
            _collect_syms(x, out)


# argument builders
def map_args(lab, size):
    I = lab.I
    fr = I.sym_value(adt(FR, size_ty(size)), 'frame')
    return [fr, lab.flags('fl'), lab.flags('pf', parent=True), Opaque('allocator')]


def flag_args(lab, size):
    return [lab.flags('fl')]


def parent_flag_args(lab, size):
    return [lab.flags('fl')]


# ---------------------------------------------------------------------------------------------- walk states
def test_expect(cls, what):
    """result a test of kind `what` must have on an entry of class `cls` (None: either)"""
    if what == 'unused':
        return 1 if cls == 'absent' else 0
    if what == 'present':
        return 0 if cls == 'absent' else 1
    if what == 'huge':
        return {'absent': 0, 'table': 0, 'huge': 1, 'leaf': None}[cls]
    if what == 'aligned':
        # reachable huge-page leaves hold size-aligned frames (map_to only stores PhysFrame<S> start addresses)
        return 1 if cls == 'huge' else None
    return None


def compatible(ps, state, allocs=()):
    """can this path be taken in the given walk state (and allocator schedule)?"""
    from spec.mapper import cls_at
    k = 0
    for s in ps.steps:
        if s.k == 'alloc-result':
            if k >= len(allocs) or bool(allocs[k]) != bool(s.some):
                return False
            k += 1
        elif s.k == 'test' and s.level is not None:
            c = cls_at(state, s.level)
            if c is None:
                continue     # below the end of the walk: that memory is not a page table, any content
            want = test_expect(c, s.what)
            if want is not None and s.res != want:
                return False
    return True


def norm_result(ps):
    r = ps.result()
    if r[0] == 'Ok':
        p = r[1]
        nm = p.name.split('::')[-1] if isinstance(p, Struct) else type(p).__name__
        if isinstance(p, Struct) and p.name == 'tuple':
            nm = 'tuple'
        return ('Ok', nm)
    if r[0] == 'Err':
        return ('Err', r[1])
    return (r[0],)


def knowledge(ps, table, idx, upto, invariant=True):
    """constant bits known about an entry just before step number `upto`: from the last write and from tests since
    (invariant=False: without the all-zero-or-PRESENT input invariant, a test tells only what it tested)"""
    known = {}
    for s in ps.steps[:upto]:
        if s.k == 'write' and s.table == table and s.idx.key() == idx.key() and isinstance(s.new, BV):
            known = {i: b for i, b in enumerate(s.new.bits) if b in (0, 1)}
        elif s.k == 'zero' and s.table == table:
            known = {i: 0 for i in range(64)}
        elif s.k == 'test' and s.table == table and s.idx.key() == idx.key():
            if s.what == 'unused':
                if s.res == 1:
                    known = {i: 0 for i in range(64)}
                elif invariant:
                    known[0] = 1     # non-zero entries are present (input invariant)
            elif s.what == 'present':
                known[0] = s.res
                if s.res == 0 and invariant:
                    known = {i: 0 for i in range(64)}
            elif s.what == 'huge':
                known[7] = s.res
    return known
