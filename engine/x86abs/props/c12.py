"""C12 - IDT entries sit where the CPU looks and encode the architectural gate format."""
from spec import descriptors as D
from spec import idt as SI

from ..bits import BV, TOP, lit, b_not
from ..interp import State, Unsupported
from ..values import UNIT, Array, Enum, Opaque, Ptr, Ref, Struct
from .common import (refutes_canonical, dtp_layout, asm_not_pure, is_call_of, U8, adt, arg_obj, bv, enum_val, eval_bv, eval_value, fn_site, inner, same, sl, _env_of, admits)

LEVEL = 'proof'
IDT = 'structures::idt::InterruptDescriptorTable'
ENTRY = 'structures::idt::Entry'
OPTS = 'structures::idt::EntryOptions'


def layout_named(chk, pred):
    return [l for l in chk.facts['layouts'] if pred(l['tys'])]


def run(chk):
    chk.trusted += ['spec/idt.py, spec/descriptors.py (typed in from Intel SDM 3A ch. 6 / AMD APM 2 ch. 8)', 'rustc layout computation',
                    'x86abs models of bit_field, core::ops::RangeBounds, array/slice indexing (bounds checks of core trusted)',
                    'function pointers and &self addresses are canonical (hardware fact on x86_64)']
    chk.assumptions += ['vector 9 is treated as the crate treats it: a legacy plain-handler vector that can be indexed']
    idt_lay = layout_named(chk, lambda s: s == IDT)
    if not idt_lay:
        chk.unproven('layout', 'InterruptDescriptorTable', 'layout not found (anchor lost)')
        return
    idt_lay = idt_lay[0]
    chk.guard('layout', 'layouts', lambda: layouts(chk, idt_lay))
    for tr, m in (('Index', 'index'), ('IndexMut', 'index_mut')):
        chk.guard('index-u8', tr, lambda tr=tr, m=m: index_u8(chk, idt_lay, '<%s as core::ops::%s<u8>>::%s' % (IDT, tr, m)))
    chk.guard('slice', 'slice', lambda: slices(chk, idt_lay))
    chk.guard('range-index-impls', 'delegation', lambda: range_impls(chk))
    chk.guard('entry', 'entry encoding', lambda: entry(chk))
    chk.guard('options', 'option setters', lambda: options(chk))
    chk.guard('table', 'new/reset/pointer/load', lambda: table(chk, idt_lay))
    chk.guard('table', 'Default', lambda: is_call_of(chk, chk.I, 'table', '<%s as core::default::Default>::default' % IDT, IDT + '::new', 'InterruptDescriptorTable::default() is new()'))
    chk.guard('entry', 'Entry::eq', lambda: entry_eq(chk))
    chk.guard('layout', 'lidt operand', lambda: dtp_layout(chk))
    chk.guard('asm-options', 'lidt / cs read', lambda: asm_not_pure(chk, chk.I, 'asm-options', ['src/instructions/tables.rs', 'src/instructions/segmentation.rs'], 2))
    chk.floor('obligations', len(chk.obs), 900)


# ------------------------------------------------------------------------------------------------ layouts
def layouts(chk, lay):
    chk.ob('layout', 'InterruptDescriptorTable size 4096, align 16', lay['size'] == 4096 and lay['align'] == 16, 'size %d align %d' % (lay['size'], lay['align']))
    fields = {f['name']: f for f in lay['fields']}
    for v in range(256):
        if v in SI.FIELD_OF_VECTOR:
            f = fields.get(SI.FIELD_OF_VECTOR[v])
            off = f['off'] if f else None
            sig = f['ty']['args'][0].get('s') if f and f['ty'].get('args') else None
        else:
            for (nm, first, n) in (SI.RESERVED_ARRAY, SI.INTERRUPTS_ARRAY):
                if first <= v < first + n:
                    f = fields.get(nm)
                    ok_len = f is not None and f['size'] == 16 * n
                    off = (f['off'] + 16 * (v - first)) if f and ok_len else None
                    sig = f['ty']['elem']['args'][0].get('s') if f else None
        chk.ob('layout', 'vector %d at byte %d' % (v, 16 * v), off == 16 * v, 'found offset %s' % (off,), nontrivial=True)
        chk.ob('layout', 'vector %d handler type' % v, sig == SI.handler_sig(v), 'found %s expected %s' % (sig, SI.handler_sig(v)),
               nontrivial=(v < 32))
    chk.count('layouts')
    ents = layout_named(chk, lambda s: s.startswith(ENTRY + '<'))
    chk.floor('Entry<F> instantiations', len({l['tys'] for l in ents}), 5)
    # the options field is EntryOptions{cs, bits}: selector at byte 2, option word at byte 4
    ol = layout_named(chk, lambda s: s == OPTS)
    of = {f['name']: (f['off'], f['size']) for f in ol[0]['fields']} if ol else {}
    # (private field names are free: the selector is the field of type SegmentSelector, the option word the u16)
    byty = {}
    for f in (ol[0]['fields'] if ol else []):
        byty['selector' if f['ty'].get('name', '').endswith('SegmentSelector') else ('word' if f['ty'].get('k') == 'uint' and f['ty'].get('bits') == 16 else f['name'])] = (f['off'], f['size'])
    chk.ob('layout', 'EntryOptions {code selector @0, option word @2}', byty == {'selector': (0, 2), 'word': (2, 2)}, 'found %s' % of)
    seen = set()
    for l in ents:
        if l['tys'] in seen:
            continue
        seen.add(l['tys'])
        # the gate's pieces in declaration order (the field names are private and free): offset 0..15 @0, selector+options @2, offset 16..31 @6,
        # offset 32..63 @8, reserved @12, zero-sized marker; which piece receives which address bits is decided by the entry rules
        got = [(f['off'], f['size']) for f in l['fields']]
        want = [D.GATE_LAYOUT['offset_0_15'], (D.GATE_LAYOUT['selector'][0], 4), D.GATE_LAYOUT['offset_16_31'], D.GATE_LAYOUT['offset_32_63'], D.GATE_LAYOUT['reserved'], (16, 0)]
        chk.ob('layout', 'gate layout of %s' % l['tys'].replace('structures::idt::', ''), got == want and l['size'] == 16, 'found %s size %d' % (got, l['size']))
        chk.count('layouts')


def field_index(lay, name):
    for i, f in enumerate(lay['fields']):
        if f['name'] == name:
            return i
    return None


def ref_offset(lay, ref, env, I=None, st=None):
    """byte offset denoted by a reference into the IDT object"""
    if not isinstance(ref, Ref) or ref.loc != ('arg', 'self') or not ref.path:
        return None
    f = lay['fields'][ref.path[0]]
    off = f['off']
    if len(ref.path) == 1:
        return off if f['size'] == 16 else None
    if len(ref.path) == 2 and isinstance(ref.path[1], tuple) and ref.path[1][0] == 'idx':
        i = eval_bv(ref.path[1][1], env, I, st)
        if i is None or 16 * i >= f['size']:
            return None
        return off + 16 * i
    return None


# ------------------------------------------------------------------------------------------------ Index<u8>
def index_u8(chk, lay, fn_):
    I = chk.I
    st = State()
    st.mem[('arg', 'self')] = Opaque('idt')
    outs = I.run(fn_, [Ref(('arg', 'self')), BV.sym(8, 'i')], st)
    chk.count('function-instances')
    chk.count('paths', len(outs))
    short = fn_.split(' as core::ops::')[1]
    for v in range(256):
        assign = {'i': (v, 8)}
        env = _env_of(assign)
        got = set()
        for o in outs:
            if admits(I, o.st, assign, env):
                if o.kind == 'ret':
                    got.add(('ret', ref_offset(lay, o.val, env, I, o.st)))
                else:
                    got.add((o.kind,))
        want = ('panic',) if v in SI.INDEX_REFUSED else ('ret', 16 * v)
        chk.ob('index-u8', '%s vector %d' % (short, v), got == {want}, 'paths give %s, expected %s' % (sorted(got, key=repr), want), fn_site(I, fn_))


# ------------------------------------------------------------------------------------------------ slices
BOUND = 'core::ops::Bound'


def range_forms(byref):
    """(label, builder(st, a, b) -> range value, start kind, end kind); kinds: 'inc' | 'exc' | None"""
    def val(st, name, x):
        if not byref:
            return x
        loc = ('obj', 'r-' + name)
        st.mem[loc] = x
        return Ref(loc)
    R = 'core::ops::'
    sfx = '<&u8>' if byref else '<u8>'
    forms = [
        ('Range' + sfx, lambda st, a, b: Struct(R + 'Range', [val(st, 'a', a), val(st, 'b', b)]), 'inc', 'exc'),
        ('RangeFrom' + sfx, lambda st, a, b: Struct(R + 'RangeFrom', [val(st, 'a', a)]), 'inc', None),
        ('RangeInclusive' + sfx, lambda st, a, b: Struct(R + 'RangeInclusive', [val(st, 'a', a), val(st, 'b', b), BV.const(1, 0)]), 'inc', 'inc'),
        ('RangeTo' + sfx, lambda st, a, b: Struct(R + 'RangeTo', [val(st, 'b', b)]), None, 'exc'),
        ('RangeToInclusive' + sfx, lambda st, a, b: Struct(R + 'RangeToInclusive', [val(st, 'b', b)]), None, 'inc'),
    ]
    for sk in ('inc', 'exc', None):
        for ek in ('inc', 'exc', None):
            def mk(st, a, b, sk=sk, ek=ek):
                def bd(k, x, nm):
                    if k is None:
                        return Enum(BOUND, 2, 'Unbounded')
                    return Enum(BOUND, 0 if k == 'inc' else 1, 'Included' if k == 'inc' else 'Excluded', [val(st, nm, x)])
                return Struct('tuple', [bd(sk, a, 'a'), bd(ek, b, 'b')])
            forms.append(('(Bound%s %s, Bound%s %s)' % (sfx, sk, sfx, ek), mk, sk, ek))
    return forms


def slices(chk, lay):
    I = chk.I
    fi = field_index(lay, SI.INTERRUPTS_ARRAY[0])
    ioff = lay['fields'][fi]['off']
    first = SI.INTERRUPTS_ARRAY[1]
    chk.ob('slice', 'interrupts array starts at vector 32 (byte 512)', ioff == 16 * first, 'offset %d' % ioff)
    forms = range_forms(False) + range_forms(True) + [('RangeFull', lambda st, a, b: Struct('core::ops::RangeFull', []), None, None)]
    thorough = chk.tier == 'thorough'
    for meth in ('slice', 'slice_mut'):
        fn_ = IDT + '::' + meth
        for label, mk, sk, ek in forms:
            starts = range(256) if sk is not None else [None]
            bad = None
            n = 0
            for a in starts:
                st = State()
                st.mem[('arg', 'self')] = Opaque('idt')
                st.rng['b'] = [(0, 255)]       # the end bound is a u8
                rv = mk(st, BV.const(8, a or 0), BV.sym(8, 'b'))
                outs = I.run(fn_, [Ref(('arg', 'self')), rv], st)
                n += 1
                lower = 0 if sk is None else (a if sk == 'inc' else a + 1)
                rets = [o for o in outs if o.kind == 'ret']
                if lower < first:
                    if rets or not outs:
                        bad = ('start %s: lower bound %d is below vector 32 but a path returns' % (a, lower), outs)
                        break
                    continue
                if not rets:
                    if lower == 256 and ek == 'exc' and outs:
                        # (Excluded(255), Excluded(b)): no u8 end bound makes a range starting after vector 255 valid - every path panics
                        continue
                    bad = ('start %s: no returning path' % a, outs)
                    break
                for o in rets:
                    r = o.val
                    okp = isinstance(r, Ref) and r.loc == ('arg', 'self') and len(r.path) == 2 and r.path[0] == fi and \
                        isinstance(r.path[1], tuple) and r.path[1][0] == 'sub'
                    if not okp:
                        bad = ('start %s: returned %r is not a sub-slice of `interrupts`' % (a, r), outs)
                        break
                    s, e = r.path[1][1], r.path[1][2]
                    if not (s.is_const() and s.value() == lower - first):
                        bad = ('start %s: slice starts at element %r, expected %d' % (a, s, lower - first), outs)
                        break
                    # end: (b [+1]) - 32, or 256 - 32
                    if ek is None:
                        okend = e.is_const() and e.value() == 256 - first
                    else:
                        want = (1 if ek == 'inc' else 0) - first
                        af = I.aff_of(o.st, e)
                        wantaff = __import__('x86abs.bits', fromlist=['Aff']).Aff({('b', 0, 8): 1}, want)
                        # equal as forms, or equal on this path (the path may have pinned `b`, e.g. an empty range at the top vector)
                        okend = af is not None and (af.norm(64).key() == wantaff.norm(64).key() or I.aff_equal(o.st, I.exact_aff(o.st, I.norm(o.st, e)), wantaff))
                        if not okend:
                            wb = I.norm(o.st, I.resub(o.st, BV.sym(8, 'b')))
                            ev_ = I.norm(o.st, I.resub(o.st, e))
                            okend = wb.is_const() and ev_.is_const() and ev_.value() == wb.value() + want
                    if not okend:
                        bad = ('start %s: slice ends at element %r, expected end bound%s - 32' % (a, e, ' + 1' if ek == 'inc' else ''), outs)
                        break
                if bad:
                    break
            chk.count('function-instances', n)
            chk.ob('slice', '%s(%s)' % (meth, label), bad is None, bad[0] if bad else '%d start values x symbolic end' % n, fn_site(I, fn_),
                   sample={'form': label, 'starts': n})


def range_impls(chk):
    I = chk.I
    names = [n for n in I.fn if n.startswith('<%s as core::ops::Index' % IDT) and not n.split(' as ')[1].startswith(('core::ops::Index<u8>>', 'core::ops::IndexMut<u8>>'))]
    chk.floor('RangeBounds Index/IndexMut impls', len(names), 26)
    saved = set(I.opaque_fns)
    I.opaque_fns |= {IDT + '::slice', IDT + '::slice_mut'}
    try:
        for n in sorted(names):
            st = State()
            st.mem[('arg', 'self')] = Opaque('idt')
            idx = Opaque('the-index')
            outs = I.run(n, [Ref(('arg', 'self')), idx], st)
            chk.count('function-instances')
            want = IDT + ('::slice_mut' if 'IndexMut' in n else '::slice')
            ok = len(outs) == 1 and outs[0].kind == 'ret'
            if ok:
                calls = [e for e in outs[0].st.events if e[0] == 'call']
                ok = len(calls) == 1 and calls[0][1] == want and len(calls[0][2]) == 2 and same_ref(calls[0][2][0], Ref(('arg', 'self'))) \
                    and calls[0][2][1] is idx and isinstance(outs[0].val, Ref) and outs[0].val.loc[0] == 'obj'
            chk.ob('range-index-impls', n.replace('structures::idt::', '').replace('core::ops::', ''), ok,
                   'expected exactly one call %s(self, index) whose result is returned; paths %r' % (want, outs), fn_site(I, n))
    finally:
        I.opaque_fns = saved


def same_ref(a, b):
    return isinstance(a, Ref) and a.loc == b.loc and a.path == b.path


# ------------------------------------------------------------------------------------------------ Entry
def sym_entry(name='e'):
    return Struct(ENTRY, [BV.sym(16, name + '.low'), Struct(OPTS, [Struct('registers::segmentation::SegmentSelector', [BV.sym(16, name + '.cs')]),
                                                                  BV.sym(16, name + '.bits')]),
                          BV.sym(16, name + '.mid'), BV.sym(32, name + '.high'), BV.sym(32, name + '.rsvd'), UNIT])


def entry_fields(I, chk):
    l = [x for x in chk.facts['layouts'] if x['tys'].startswith(ENTRY + '<')][0]
    return {f['name']: i for i, f in enumerate(l['fields'])}


def entry(chk):
    I = chk.I
    FI = entry_fields(I, chk)
    chk.ob('entry', 'Entry has the six pieces of a gate', len(FI) == 6, 'fields %s' % FI, nontrivial=False)
    gen = I.fn[ENTRY + '::<F>::set_handler_addr']['generics']

    # ---- set_handler_addr
    st = State()
    ref = arg_obj(st, 'self', sym_entry())
    va = I.sym_value(adt('addr::VirtAddr'), 'h')
    outs = I.run(ENTRY + '::<F>::set_handler_addr', [ref, va], st)
    chk.count('function-instances')
    ok = len(outs) == 1 and outs[0].kind == 'ret'
    chk.ob('entry', 'set_handler_addr: one non-panicking path', ok, 'paths %r' % (outs,), fn_site(I, ENTRY + '::<F>::set_handler_addr'))
    if ok:
        o = outs[0]
        e = o.st.mem[('arg', 'self')]
        hb = inner(va).bits
        asms = [ev for ev in o.st.events if ev[0] == 'asm']
        cs_ok = len(asms) == 1 and asms[0][1].replace(' ', '') == 'mov{0:x},cs' and len(asms[0][2]) == 1 and asms[0][2][0]['k'] == 'out'
        chk.ob('entry', 'set_handler_addr reads CS with one `mov {0:x}, cs`', cs_ok, 'asm events %r' % (asms,))
        csval = asms[0][2][0]['v'] if cs_ok else None
        chk.ob('entry', 'pointer_low = address bits 0..15', same(e.fields[0], BV(16, hb[0:16])), 'found %r' % (e.fields[0],), sample=repr(e.fields[0]))
        chk.ob('entry', 'pointer_middle = address bits 16..31', same(e.fields[2], BV(16, hb[16:32])), 'found %r' % (e.fields[2],))
        chk.ob('entry', 'pointer_high = address bits 32..63', same(e.fields[3], BV(32, hb[32:64])), 'found %r' % (e.fields[3],))
        opts = e.fields[1]
        chk.ob('entry', 'options.cs = current code segment', csval is not None and same(inner(opts.fields[0]), inner(csval) if not isinstance(csval, BV) else csval),
               'found %r, CS read %r' % (opts.fields[0], csval))
        want_bits = (1 << D.GATE_P) | (D.GATE_TYPE_INTERRUPT << D.GATE_TYPE[0])
        chk.ob('entry', 'options word = present | interrupt gate | DPL 0 | IST 0 (%#x)' % want_bits, eval_value(opts.fields[1], {}) == want_bits,
               'found %r' % (opts.fields[1],), sample=repr(opts.fields[1]))
        chk.ob('entry', 'reserved dword untouched', same(e.fields[4], BV.sym(32, 'e.rsvd')), 'found %r' % (e.fields[4],))
        chk.ob('entry', 'returns &mut self.options', isinstance(o.val, Ref) and o.val.loc == ('arg', 'self') and o.val.path == (1,), 'returned %r' % (o.val,))

    # ---- handler_addr reads the same three fields back (through new_truncate)
    st = State()
    ref = arg_obj(st, 'self', sym_entry())
    outs = I.run(ENTRY + '::<F>::handler_addr', [ref], st)
    chk.count('function-instances')
    want = BV(64, sl('e.low', 0, 16) + sl('e.mid', 0, 16) + sl('e.high', 0, 16) + [lit('e.high', 15)] * 16)
    chk.ob('entry', 'handler_addr = sign-extended (low | mid<<16 | high<<32)', len(outs) == 1 and outs[0].kind == 'ret' and same(inner(outs[0].val), want),
           'paths %r\n      expected %r' % (outs, want), fn_site(I, ENTRY + '::<F>::handler_addr'))

    # ---- set_handler_fn for the five handler types
    tv = sorted(n for n in I.fn if n.endswith('as structures::idt::HandlerFuncType>::to_virt_addr'))
    chk.floor('HandlerFuncType impls', len(tv), 5)
    for n in tv:
        fty = {'k': 'fnptr', 'abi': 'X86Interrupt', 's': n[1:].split(' as structures::idt::HandlerFuncType')[0]}
        st = State()
        ref = arg_obj(st, 'self', sym_entry())
        h = Opaque('handler')
        # resolve F::to_virt_addr to this impl
        saved = I.lookup_impl
        I.lookup_impl = lambda trait, method, targs, n=n: n if method == 'to_virt_addr' else saved(trait, method, targs)
        try:
            outs = I.run(ENTRY + '::<F>::set_handler_fn', [ref, h], st, {'F': fty})
        finally:
            I.lookup_impl = saved
        chk.count('function-instances')
        rets = [o for o in outs if o.kind == 'ret']
        pan = [o for o in outs if o.kind != 'ret']
        ok = len(rets) == 1
        if ok:
            e = rets[0].st.mem[('arg', 'self')]
            a = 'addr(handler)'
            # on the returning path the address was found canonical: bits 48..63 = bit 47
            okv = same(e.fields[0], BV(16, sl(a, 0, 16))) and same(e.fields[2], BV(16, sl(a, 16, 32))) and \
                same(e.fields[3], BV(32, sl(a, 32, 48) + [lit(a, 47)] * 16))
            ok = okv
        chk.ob('entry', 'set_handler_fn<%s> stores the handler address' % fty['s'].replace('structures::idt::', ''), ok,
               'paths %r' % (outs,), fn_site(I, n))
        chk.ob('entry', 'set_handler_fn<%s> panics only for a non-canonical address' % fty['s'].replace('structures::idt::', ''),
               all(refutes_canonical(I, o, BV.sym(64, 'addr(handler)')) for o in pan), 'panic paths %r' % ([o.st.notes for o in pan],))

    # ---- missing()
    outs = I.run(ENTRY + '::<F>::missing', [])
    chk.count('function-instances')
    ok = len(outs) == 1 and outs[0].kind == 'ret'
    if ok:
        e = outs[0].val
        vals = [eval_value(e.fields[0], {}), eval_value(inner(e.fields[1].fields[0]), {}), eval_value(e.fields[1].fields[1], {}),
                eval_value(e.fields[2], {}), eval_value(e.fields[3], {}), eval_value(e.fields[4], {})]
        want = [0, 0, D.GATE_TYPE_INTERRUPT << D.GATE_TYPE[0], 0, 0, 0]
        ok = vals == want
        chk.ob('entry', 'missing() = non-present interrupt gate with must-be-one type bits, all else zero', ok, 'fields %s expected %s' % (vals, want),
               fn_site(I, ENTRY + '::<F>::missing'))
    else:
        chk.ob('entry', 'missing()', False, 'paths %r' % (outs,))


# ------------------------------------------------------------------------------------------------ EntryOptions
def options(chk):
    I = chk.I
    base = Struct(OPTS, [Struct('registers::segmentation::SegmentSelector', [BV.sym(16, 'cs')]), BV.sym(16, 'o')])
    ob = sl('o', 0, 16)

    def run_setter(name, args):
        st = State()
        ref = arg_obj(st, 'self', base)
        outs = I.run(OPTS + '::' + name, [ref] + args, st)
        chk.count('function-instances')
        return outs

    def final(o):
        v = o.st.mem[('arg', 'self')]
        return inner(v.fields[0]), v.fields[1]

    def one(outs):
        # every path returns &mut self (a setter written with if/else has one path per case; each is compared with the expected
        # word under that path's own conditions)
        return bool(outs) and all(o.kind == 'ret' and isinstance(o.val, Ref) and o.val.loc == ('arg', 'self') and o.val.path == () for o in outs)

    def agree(outs, want_bits):
        if not one(outs):
            return False
        for o in outs:
            cs_, b_ = final(o)
            if not (same(I.resub(o.st, b_), I.resub(o.st, BV(16, want_bits))) and same(cs_, BV.sym(16, 'cs'))):
                return False
        return True

    # set_present: only bit 15 := present
    outs = run_setter('set_present', [BV.sym(1, 'p')])
    wb = list(ob)
    wb[D.GATE_P] = lit('p', 0)
    cs, bits = final(outs[0]) if one(outs) else (None, None)
    chk.ob('options', 'set_present changes only bit 15', agree(outs, wb), 'final %r / %r' % (cs, bits),
           fn_site(I, OPTS + '::set_present'), sample=repr(bits))
    # disable_interrupts: only bit 8 := !disable   (type 1110 interrupt gate <-> 1111 trap gate)
    outs = run_setter('disable_interrupts', [BV.sym(1, 'd')])
    wb = list(ob)
    wb[D.GATE_TYPE[0]] = b_not(lit('d', 0))
    cs, bits = final(outs[0]) if one(outs) else (None, None)
    chk.ob('options', 'disable_interrupts changes only bit 8 := !disable', agree(outs, wb),
           'final %r / %r' % (cs, bits), fn_site(I, OPTS + '::disable_interrupts'))
    # set_privilege_level: only bits 13..14 := DPL
    for r in range(4):
        outs = run_setter('set_privilege_level', [enum_val(I, 'PrivilegeLevel', 'Ring%d' % r)])
        wb = list(ob)
        wb[D.GATE_DPL[0]] = r & 1
        wb[D.GATE_DPL[0] + 1] = (r >> 1) & 1
        cs, bits = final(outs[0]) if one(outs) else (None, None)
        chk.ob('options', 'set_privilege_level<Ring%d> changes only bits 13..14' % r, agree(outs, wb),
               'final %r / %r' % (cs, bits), fn_site(I, OPTS + '::set_privilege_level'))
    # set_stack_index: bits 0..2 := index + 1 for index 0..6, panic otherwise (all 65536 indices by value for 0..7, cubes above)
    for idx in range(8):
        outs = run_setter('set_stack_index', [BV.const(16, idx)])
        if idx <= 6:
            wb = list(ob)
            for j in range(3):
                wb[j] = ((idx + 1) >> j) & 1
            cs, bits = final(outs[0]) if one(outs) else (None, None)
            chk.ob('options', 'set_stack_index(%d) sets IST field to %d, others unchanged' % (idx, idx + 1), agree(outs, wb),
                   'final %r / %r' % (cs, bits), fn_site(I, OPTS + '::set_stack_index'))
        else:
            chk.ob('options', 'set_stack_index(7) is refused', bool(outs) and all(o.kind == 'panic' for o in outs), 'paths %r' % (outs,))
    for j in range(3, 16):
        b = sl('ix', 0, 16)
        b[j] = 1
        outs = run_setter('set_stack_index', [BV(16, b)])
        chk.ob('options', 'set_stack_index(index with bit %d set) is refused' % j, bool(outs) and all(o.kind == 'panic' for o in outs), 'paths %r' % (outs,),
               nontrivial=(j == 3))
    # set_code_selector: only cs
    outs = run_setter('set_code_selector', [Struct('registers::segmentation::SegmentSelector', [BV.sym(16, 'ncs')])])
    cs, bits = final(outs[0]) if one(outs) else (None, None)
    chk.ob('options', 'set_code_selector changes only the selector', one(outs) and same(bits, BV(16, ob)) and same(cs, BV.sym(16, 'ncs')), 'final %r / %r' % (cs, bits))
    # minimal (a private constructor today; Entry::missing below is the public place where its value shows)
    if (OPTS + '::minimal') in I.fn and I.fn[OPTS + '::minimal']['argc'] == 0:
        outs = I.run(OPTS + '::minimal', [])
        v = outs[0].val if len(outs) == 1 and outs[0].kind == 'ret' else None
        chk.ob('options', 'minimal() = selector 0, interrupt-gate type, not present', v is not None and eval_value(inner(v.fields[0]), {}) == 0 and
               eval_value(v.fields[1], {}) == (D.GATE_TYPE_INTERRUPT << D.GATE_TYPE[0]), 'found %r' % (v,))


# ------------------------------------------------------------------------------------------------ table
def table(chk, lay):
    I = chk.I
    outs = I.run(IDT + '::new', [])
    chk.count('function-instances')
    ok = len(outs) == 1 and outs[0].kind == 'ret' and isinstance(outs[0].val, Struct) and len(outs[0].val.fields) == len(lay['fields'])
    chk.ob('table', 'new(): one path, all %d fields initialised' % len(lay['fields']), ok, 'paths %r' % (str(outs)[:300],), fn_site(I, IDT + '::new'))
    miss = I.run(ENTRY + '::<F>::missing', [])[0].val
    if ok:
        for i, f in enumerate(lay['fields']):
            v = outs[0].val.fields[i]
            if isinstance(v, Array):
                okf = v.default is not None and not v.elems and same(v.default, miss) and v.length * 16 == f['size']
            else:
                okf = same(v, miss)
            chk.ob('table', 'new(): %s = Entry::missing()' % f['name'], okf, 'found %r' % (v,))
    # reset: *self = new()
    st = State()
    ref = arg_obj(st, 'self', Opaque('old-idt'))
    o2 = I.run(IDT + '::reset', [ref], st)
    okr = len(o2) == 1 and o2[0].kind == 'ret' and ok and same(o2[0].st.mem[('arg', 'self')], outs[0].val)
    chk.ob('table', 'reset() overwrites the table with new()', okr, 'paths %r' % (str(o2)[:200],), fn_site(I, IDT + '::reset'))
    # pointer / load
    for meth in ('load_unsafe', 'load'):
        st = State()
        st.mem[('arg', 'self')] = Opaque('idt')
        outs = I.run(IDT + '::' + meth, [Ref(('arg', 'self'))], st)
        chk.count('function-instances')
        rets = [o for o in outs if o.kind == 'ret']
        okl = len(rets) == 1
        detail = 'paths %r' % (outs,)
        if okl:
            asms = [e for e in rets[0].st.events if e[0] == 'asm']
            okl = len(asms) == 1 and asms[0][1].replace(' ', '') == 'lidt[{0}]' and len(asms[0][2]) == 1 and asms[0][2][0]['k'] == 'in'
            detail = 'asm %r' % (asms,)
            if okl:
                p = asms[0][2][0].get('pointee')
                a = 'addr(arg:self)'
                okl = isinstance(p, Struct) and p.name.endswith('DescriptorTablePointer')
                if okl:
                    dl = [l for l in chk.facts['layouts'] if l['tys'] == 'structures::DescriptorTablePointer'][0]
                    fi = {f['name']: i for i, f in enumerate(dl['fields'])}
                    lim, base = p.fields[fi['limit']], inner(p.fields[fi['base']])
                    okl = eval_value(lim, {}) == D.IDT_LIMIT and same(base, BV(64, sl(a, 0, 48) + [lit(a, 47)] * 16))
                    detail = 'pointer operand {limit %r, base %r}' % (lim, base)
        chk.ob('table', '%s executes one `lidt` on {limit 4095, base = address of the table}' % meth, okl, detail, fn_site(I, IDT + '::' + meth))
        pan = [o for o in outs if o.kind != 'ret']
        chk.ob('table', '%s panics only if the table address is not canonical' % meth,
               all(refutes_canonical(I, o, BV.sym(64, 'addr(arg:self)')) for o in pan), 'panic notes %r' % ([o.st.notes for o in pan],))


def entry_eq(chk):
    """two gates are equal exactly when all their bytes that mean something are: the three pointer parts, the selector and the option word
    (the reserved dword is compared too: it is always zero)"""
    I = chk.I
    fn_ = '<%s<T> as core::cmp::PartialEq>::eq' % ENTRY
    if fn_ not in I.fn:
        chk.unproven('entry', 'Entry::eq', 'impl not found (anchor lost)')
        return
    # flip one field at a time: equal entries compare equal, entries differing in that field compare unequal
    names = ['pointer_low', 'options.cs', 'options.bits', 'pointer_middle', 'pointer_high', 'reserved']

    def mk(tag, diff=None):
        def f(n, w):
            return BV.sym(w, ('y.' if diff == n else 'x.') + n)
        opts = Struct(OPTS, [I.wrap_scalar(adt('registers::segmentation::SegmentSelector'), f('options.cs', 16)), f('options.bits', 16)])
        return Struct(ENTRY, [f('pointer_low', 16), opts, f('pointer_middle', 16), f('pointer_high', 32), f('reserved', 32), UNIT])
    st = State()
    a = arg_obj(st, 'a', mk('a'))
    b = arg_obj(st, 'b', mk('b'))
    o = I.run(fn_, [a, b], st, {'T': {'k': 'param', 'name': 'T'}})
    chk.count('function-instances')
    ok = bool(o) and all(x.kind == 'ret' and isinstance(x.val, BV) and x.val.is_const() and x.val.value() == 1 for x in o)
    chk.ob('entry', 'Entry::eq: identical gates are equal', ok, 'paths %r' % (o,), fn_site(I, fn_))
    for n in names:
        st = State()
        a = arg_obj(st, 'a', mk('a'))
        b = arg_obj(st, 'b', mk('b', n))
        o = I.run(fn_, [a, b], st, {'T': {'k': 'param', 'name': 'T'}})
        chk.count('function-instances')
        # the result must depend on the differing field: not constantly true
        okn = bool(o) and not all(x.kind == 'ret' and isinstance(x.val, BV) and x.val.is_const() and x.val.value() == 1 for x in o) and all(x.kind == 'ret' for x in o)
        chk.ob('entry', 'Entry::eq looks at %s' % n, okn, 'paths %r' % (o,), fn_site(I, fn_))
