"""C13 - set_general_handler! installs, per vector, a stub that reports that vector.

The macro only exists as an expansion in a *user* crate, so the analysed program is /verif/witness (a crate that invokes
the macro in all three arms and with every std range shape) built against /repo's working tree; nothing is executed.

What is decided (all by abstract interpretation of the expansion's MIR / structural rules on it):
  installer   the generated `set_general_handler` function is a chain of 256 segments, one per vector v: each tests
              `range.contains(&v)` on the caller's unmodified range; when true it installs exactly one handler, through
              `Entry::set_handler_fn` (C12: stores the address, sets present), on the entry at byte 16*v, and nothing
              for the reserved vectors; when false it does nothing. Segments touch nothing else.
  stub        the function installed for v has the x86-interrupt ABI and the signature the CPU's delivery for v needs
              (error code parameter exactly on the error-code vectors, `-> !` exactly on the abort vectors), calls the
              user's general handler exactly once with (the frame it was entered with, v, Some(error code) | None),
              does nothing else, and returns (never returns, for the abort vectors).
  arms        `set_general_handler!(idt, h)` = range 0..=255, `(idt, h, N)` = N..=N, `(idt, h, range)` = range, all on
              the idt expression given.
  frame       InterruptStackFrame(Value) has the hardware frame layout; iretq pushes the five frame fields of *self in
              the architectural order and executes iretq, nothing else.
Trusted: rustc's x86-interrupt ABI lowering (frame argument = the hardware-pushed frame; return = iretq), core's
RangeBounds::contains.
"""
from spec import idt as SI

from ..bits import BV
from ..facts import get_witness_facts
from ..interp import Interp, State, Unsupported
from ..values import UNIT, Enum, FnItem, Opaque, Ref, Struct
from .common import fn_site, inner, same

LEVEL = 'other'
IDT = 'structures::idt::InterruptDescriptorTable'
FRAME = 'structures::idt::InterruptStackFrame'
FRAMEV = 'structures::idt::InterruptStackFrameValue'
SET_FN = 'structures::idt::Entry::<F>::set_handler_fn'
CONTAINS = 'core::ops::RangeBounds::contains'

# witness function -> (macro arm, range the inner function must be called with: ('lit', lo, hi) | 'pass' | 'full')
WITNESS = {
    'install_all': ('all', ('lit', 0, 255)),
    'install_lit_3': ('literal', ('lit', 3, 3)), 'install_lit_8': ('literal', ('lit', 8, 8)),
    'install_lit_14': ('literal', ('lit', 14, 14)), 'install_lit_15': ('literal', ('lit', 15, 15)),
    'install_lit_255': ('literal', ('lit', 255, 255)),
    'install_inclusive': ('range', ('pass', 'core::ops::RangeInclusive', 2)), 'install_exclusive': ('range', ('pass', 'core::ops::Range', 2)),
    'install_from': ('range', ('pass', 'core::ops::RangeFrom', 1)), 'install_to': ('range', ('pass', 'core::ops::RangeTo', 1)),
    'install_to_inclusive': ('range', ('pass', 'core::ops::RangeToInclusive', 1)), 'install_full': ('range', ('pass', 'core::ops::RangeFull', 0)),
}


def run(chk):
    chk.trusted += ['spec/idt.py (vector classes and 64-bit interrupt stack frame typed in from Intel SDM 3A ch. 6 / AMD APM 2 ch. 8)',
                    "rustc's x86-interrupt ABI lowering (frame parameter = hardware-pushed frame, error code parameter = pushed error code, return = iretq)",
                    'core::ops::RangeBounds::contains (std semantics of the caller\'s range)', 'rustc layout computation',
                    'models of bit_field']
    chk.assumptions += ['the general handler is an arbitrary safe fn(InterruptStackFrame, u8, Option<u64>); its body is not analysed',
                        'what is decided is the structural part listed in the module docstring; the CPU-side delivery itself is the trusted ABI']
    facts = chk.guard('witness', 'extraction', lambda: get_witness_facts())
    if facts is None:
        return
    I = Interp(facts)
    chk.I13 = I
    lay = {l['tys']: l for l in facts['layouts']}
    chk.guard('frame', 'layout', lambda: frame_layout(chk, lay))
    chk.guard('frame', 'iretq', lambda: iretq(chk, I))
    chk.guard('frame', 'constructors', lambda: frame_ctor(chk, I))
    wf = set(facts['witness_fns'])
    n_seg = n_stub = 0
    for w in sorted(WITNESS):
        if w not in wf or w + '::set_general_handler' not in wf:
            chk.unproven('witness', w, 'expansion not found in the witness crate (anchor lost)')
            continue
        chk.guard('arms', w, lambda w=w: arm(chk, I, w))
        r = chk.guard('installer', w, lambda w=w: installer(chk, I, lay[IDT], w))
        if r:
            n_seg += r[0]
            n_stub += r[1]
    # what the installed call does to the entry it is given (shared with C12): handler address in the three pointer fields, present
    # interrupt gate with default options, current CS
    from .c12 import entry as c12_entry
    chk.guard('entry', 'Entry::set_handler_fn / set_handler_addr', lambda: c12_entry(chk))
    chk.floor('installer segments analysed', n_seg, 256 * len(WITNESS))
    chk.floor('stubs analysed', n_stub, (256 - len(SI.RESERVED)) * len(WITNESS))
    chk.explanation = __doc__.split('\n\n')[2]


# ------------------------------------------------------------------------------------------------ frame + iretq
def frame_layout(chk, lay):
    fv = lay.get(FRAMEV)
    fr = lay.get(FRAME)
    if not fv or not fr:
        chk.unproven('frame', 'layouts', 'InterruptStackFrame(Value) layout not found')
        return
    got = {f['name']: (f['off'], f['size']) for f in fv['fields'] if not f['name'].startswith('_')}
    want = {n: (o, s) for n, o, s in SI.FRAME_SLOTS}
    chk.ob('frame', 'InterruptStackFrameValue = RIP@0 CS@8 RFLAGS@16 RSP@24 SS@32, 40 bytes', got == want and fv['size'] == SI.FRAME_SIZE,
           'found %s size %d' % (got, fv['size']), sample=str(got))
    chk.ob('frame', 'InterruptStackFrame is a transparent wrapper of the value', 'IS_TRANSPARENT' in fr['repr'] and fr['size'] == SI.FRAME_SIZE and
           len(fr['fields']) == 1 and fr['fields'][0]['off'] == 0 and fr['fields'][0]['ty'].get('name') == FRAMEV, 'found %s' % fr['repr'])
    chk.count('layouts', 2)


def frame_ctor(chk, I):
    """InterruptStackFrame::new / InterruptStackFrameValue::new put each argument into its own hardware slot; Deref exposes that value"""
    VA = {'k': 'adt', 'name': 'addr::VirtAddr', 'args': []}
    SEL = {'k': 'adt', 'name': 'registers::segmentation::SegmentSelector', 'args': []}
    RF = {'k': 'adt', 'name': 'registers::rflags::RFlags', 'args': []}
    args = [I.sym_value(VA, 'ip'), I.sym_value(SEL, 'cs'), I.sym_value(RF, 'fl'), I.sym_value(VA, 'sp'), I.sym_value(SEL, 'ss')]
    fidx = {f['name']: i for i, f in enumerate(I.layouts[FRAMEV]['fields'])}
    for fn_, wrap in ((FRAMEV + '::new', False), (FRAME + '::new', True)):
        if fn_ not in I.fn:
            chk.unproven('frame', fn_.split('::', 2)[-1], 'function not found')
            continue
        outs = I.run(fn_, list(args), State())
        chk.count('function-instances')
        ok = len(outs) == 1 and outs[0].kind == 'ret'
        if ok:
            v = outs[0].val.fields[0] if wrap else outs[0].val
            ok = isinstance(v, Struct) and v.name == FRAMEV
            for name, a in zip(('instruction_pointer', 'code_segment', 'cpu_flags', 'stack_pointer', 'stack_segment'), args):
                ok = ok and same(v.fields[fidx[name]], a)
        chk.ob('frame', '%s stores (rip, cs, rflags, rsp, ss) in their own fields' % fn_.replace('structures::idt::', ''), ok, 'paths %r' % (outs,), fn_site(I, fn_))
    dn = '<%s as core::ops::Deref>::deref' % FRAME
    if dn in I.fn:
        st = State()
        st.mem[('arg', 'self')] = Struct(FRAME, [sym_frame(I)])
        outs = I.run(dn, [Ref(('arg', 'self'))], st)
        chk.count('function-instances')
        ok = len(outs) == 1 and outs[0].kind == 'ret' and isinstance(outs[0].val, Ref) and outs[0].val.loc == ('arg', 'self') and outs[0].val.path == (0,)
        chk.ob('frame', 'InterruptStackFrame derefs to the frame value it wraps', ok, 'paths %r' % (outs,), fn_site(I, dn))
    else:
        chk.unproven('frame', 'Deref for InterruptStackFrame', 'impl not found')


def sym_frame(I):
    v = I.sym_value({'k': 'adt', 'name': FRAMEV, 'args': []}, 'frame', invariants=False)
    return v


def iretq(chk, I):
    name = FRAMEV + '::iretq'
    if name not in I.fn:
        chk.unproven('frame', 'iretq', 'function not found')
        return
    st = State()
    fv = sym_frame(I)
    st.mem[('arg', 'self')] = fv
    outs = I.run(name, [Ref(('arg', 'self'))], st)
    chk.count('function-instances')
    site = fn_site(I, name)
    ok = len(outs) == 1 and outs[0].kind == 'diverge'
    chk.ob('frame', 'iretq: a single path that does not return', ok, 'paths %r' % (outs,), site)
    if not ok:
        return
    o = outs[0]
    asms = [e for e in o.st.events if e[0] == 'asm']
    other = [e for e in o.st.events if e[0] in ('write', 'rawderef', 'call')]
    chk.ob('frame', 'iretq: exactly one asm block and no other effect', len(asms) == 1 and not other, 'events %r' % ([e[:2] for e in o.st.events],), site)
    if len(asms) != 1:
        return
    tpl = asms[0][1]
    ops = asms[0][2]
    lines = [l.strip() for l in tpl.replace(';', '\n').split('\n') if l.strip()]
    chk.ob('frame', 'iretq: template is five pushes then iretq', len(lines) == 6 and all(l.startswith('push ') for l in lines[:5]) and lines[5] == 'iretq',
           'template %r' % (lines,), site, sample=' ; '.join(lines))
    if len(lines) != 6:
        return
    fidx = {f['name']: i for i, f in enumerate(I.layouts[FRAMEV]['fields'])}
    for line, field in zip(lines[:5], SI.IRETQ_PUSH_ORDER):
        arg = line[5:].strip()
        okf = False
        det = 'operand %r' % arg
        if arg.startswith('{') and arg.endswith('}'):
            body = arg[1:-1]
            idx, _, mod = body.partition(':')
            try:
                op = ops[int(idx)]
            except (ValueError, IndexError):
                op = None
            if op is not None and op['k'] == 'in':
                v = op['v']
                want = fv.fields[fidx[field]]
                w = inner(want)
                g = v if isinstance(v, BV) else inner(v)
                # a 16-bit selector must be pushed as a full 64-bit slot (`:r`); 64-bit operands default to the r form
                wide = (g.w == 64 and mod in ('', 'r')) or (g.w == 16 and mod == 'r')
                okf = same(g, w) and wide and 'reg' in str(op.get('reg', '')).lower()
                det = 'operand value %r (width %d, modifier %r, class %s); field value %r' % (g, g.w, mod, op.get('reg'), w)
        chk.ob('frame', 'iretq: push #%d is the frame\'s %s as a 64-bit slot' % (lines.index(line) + 1, field), okf, det, site)
    chk.ob('frame', 'iretq: noreturn asm', 'NORETURN' in str(asms[0][3] if len(asms[0]) > 3 else ''), 'options %r' % (asms[0][3:],), site)


# ------------------------------------------------------------------------------------------------ macro arms
def arm(chk, I, w):
    kind, want = WITNESS[w]
    f = I.fn[w]
    st = State()
    st.mem[('arg', 'idt')] = Opaque('idt')
    args = [Ref(('arg', 'idt'))]
    nb = f['argc'] - 1
    bounds = [BV.sym(8, 'b%d' % i) for i in range(nb)]
    args += bounds
    inner_fn = w + '::set_general_handler'
    saved = set(I.opaque_fns)
    I.opaque_fns.add(inner_fn)
    try:
        outs = I.run(w, args, st)
    finally:
        I.opaque_fns = saved
    chk.count('function-instances')
    ok = len(outs) == 1 and outs[0].kind == 'ret'
    calls = [e for o in outs for e in o.st.events if e[0] == 'call']
    ok = ok and len(calls) == 1 and calls[0][1] == inner_fn and not [e for e in outs[0].st.events if e[0] in ('write', 'asm', 'panic')]
    chk.ob('arms', '%s: one call of the generated installer, nothing else' % w, ok, 'paths %r calls %r' % (outs, [c[1] for c in calls]), f['loc'])
    if not ok:
        return
    a = calls[0][2]
    okidt = isinstance(a[0], Ref) and a[0].loc == ('arg', 'idt') and not a[0].path
    chk.ob('arms', '%s: installer receives the caller\'s idt' % w, okidt, 'first argument %r' % (a[0],), f['loc'])
    r = a[1]
    if want[0] == 'lit':
        okr = isinstance(r, Struct) and r.name.endswith('RangeInclusive') and isinstance(r.fields[0], BV) and r.fields[0].is_const() and \
            r.fields[1].is_const() and (r.fields[0].value(), r.fields[1].value()) == (want[1], want[2]) and r.fields[2].is_const() and r.fields[2].value() == 0
        chk.ob('arms', '%s (%s arm): range is %d..=%d' % (w, kind, want[1], want[2]), okr, 'range argument %r' % (r,), f['loc'], sample=repr(r))
    else:
        _, tyname, n = want
        okr = isinstance(r, Struct) and r.name == tyname
        if okr:
            fs = [x for x in r.fields if isinstance(x, BV)]
            okr = len(fs) >= n and all(same(fs[i], bounds[i]) for i in range(n))
            if tyname.endswith('RangeInclusive'):
                okr = okr and fs[2].is_const() and fs[2].value() == 0
        chk.ob('arms', '%s (range arm): the caller\'s %s is passed through unchanged' % (w, tyname.split('::')[-1]), okr, 'range argument %r' % (r,), f['loc'])


# ------------------------------------------------------------------------------------------------ installer
def heads_of(f):
    hs = []
    for i, b in enumerate(f['blocks']):
        t = b['t']
        if t and t['k'] == 'call' and t['f'].get('k') == 'fn' and t['f']['name'] == CONTAINS:
            hs.append(i)
    return hs


def entry_offset(lay, ref):
    if not isinstance(ref, Ref) or ref.loc != ('arg', 'idt') or not ref.path:
        return None
    fld = lay['fields'][ref.path[0]]
    if len(ref.path) == 1:
        return fld['off'] if fld['size'] == 16 else None
    if len(ref.path) == 2 and isinstance(ref.path[1], tuple) and ref.path[1][0] == 'idx' and ref.path[1][1].is_const():
        i = ref.path[1][1].value()
        return fld['off'] + 16 * i if 16 * i < fld['size'] else None
    return None


def installer(chk, I, idt_lay, w):
    name = w + '::set_general_handler'
    f = I.fn[name]
    site = f['loc']
    heads = heads_of(f)
    chk.ob('installer', '%s: 256 range tests' % w, len(heads) == 256, 'found %d calls of RangeBounds::contains' % len(heads), site)
    if not heads:
        return 0, 0
    # the range parameter (_2) is never written or mutably borrowed; the idt parameter (_1) is never reassigned
    bad = []
    for bi, b in enumerate(f['blocks']):
        for s in b['s']:
            if s['k'] == 'assign':
                if s['pl']['l'] in (1, 2):
                    bad.append('assignment to _%d in bb%d' % (s['pl']['l'], bi))
                rv = s['rv']
                if rv['k'] == 'ref' and rv['pl']['l'] == 2 and 'Mut' in rv['bk']:
                    bad.append('&mut range in bb%d' % bi)
                if rv['k'] in ('addr', 'rawptr') and rv.get('pl', {}).get('l') == 2:
                    bad.append('raw pointer to range in bb%d' % bi)
        t = b['t']
        if t and t['k'] == 'call' and t['dest']['l'] in (1, 2):
            bad.append('call result stored in _%d in bb%d' % (t['dest']['l'], bi))
    chk.ob('installer', '%s: the range and idt parameters are never modified' % w, not bad, '; '.join(bad[:4]), site)

    tested = {}
    state = {'cur': None}

    def m_contains(ctx):
        a0, a1 = ctx.args
        okr = isinstance(a0, Ref) and a0.loc == ('L', ctx.fr.id, 2) and not a0.path
        v = a1
        for _ in range(3):
            if isinstance(v, Ref):
                v = ctx.I.load(ctx.st, v)
        ctx.st.events.append(('contains', okr, v))
        return BV.sym(1, 'in_range')
    saved_m = I.models.get(CONTAINS)
    saved_o = set(I.opaque_fns)
    I.models[CONTAINS] = m_contains
    I.opaque_fns.add(SET_FN)
    n_stub = 0
    seen_vec = {}
    try:
        st = State()
        st.mem[('arg', 'idt')] = Opaque('idt')
        fid = next(I.counter)
        st.mem[('L', fid, 1)] = Ref(('arg', 'idt'))
        st.mem[('L', fid, 2)] = Opaque('range')
        if heads[0] != 0:
            outs = I.run_segment(f, 0, heads, st, {}, fid=fid)
            okp = len(outs) == 1 and outs[0].kind == 'stop' and not [e for e in outs[0].st.events if e[0] in ('call', 'write', 'asm', 'panic')]
            chk.ob('installer', '%s: nothing happens before the first range test' % w, okp, 'paths %r' % (outs,), site)
            cur = outs[0].val if okp else None
            st = outs[0].st if okp else st
        else:
            cur = 0
        visited = []
        while cur is not None and cur not in visited:
            visited.append(cur)
            st.events = []
            outs = I.run_segment(f, cur, [h for h in heads if h != cur], st.clone(), {}, fid=fid)
            chk.count('segments')
            nxt, carry = segment(chk, I, idt_lay, w, f, cur, outs, seen_vec, fid)
            if nxt == 'ret':
                break
            cur = nxt
            st = carry
        chk.ob('installer', '%s: the 256 segments form one chain ending in return' % w, len(visited) == len(heads) == 256 and cur is not None,
               'visited %d of %d segments%s' % (len(visited), len(heads), '' if cur is not None else ' (chain broken)'), site)
        chk.ob('installer', '%s: every vector 0..255 is tested exactly once' % w, sorted(seen_vec) == list(range(256)) and all(n == 1 for n in seen_vec.values()),
               'vectors tested: %d distinct; missing %s; repeated %s' % (len(seen_vec), [v for v in range(256) if v not in seen_vec][:8],
                                                                           [v for v, n in seen_vec.items() if n > 1][:8]), site)
    finally:
        if saved_m is None:
            I.models.pop(CONTAINS, None)
        else:
            I.models[CONTAINS] = saved_m
        I.opaque_fns = saved_o
    # stubs
    for v, h in sorted(chk._stubs.pop(w, {}).items()):
        chk.guard('stub', '%s vector %d' % (w, v), lambda v=v, h=h: stub(chk, I, w, v, h))
        n_stub += 1
    return len(visited), n_stub


def segment(chk, I, idt_lay, w, f, head, outs, seen_vec, fid):
    """check one segment's two paths; returns the next head, 'ret', or None"""
    site = f['blocks'][head]['t']['loc']
    if not hasattr(chk, '_stubs'):
        chk._stubs = {}
    stubs = chk._stubs.setdefault(w, {})
    vec = None
    nxts = set()
    taken = {}
    for o in outs:
        cs = [e for e in o.st.events if e[0] == 'contains']
        if len(cs) != 1 or not isinstance(cs[0][2], BV) or not cs[0][2].is_const():
            chk.ob('installer', '%s bb%d: one range test of a constant vector' % (w, head), False, 'events %r' % (cs,), site)
            return None, None
        if not cs[0][1]:
            chk.ob('installer', '%s bb%d: the test is made on the caller\'s range' % (w, head), False, 'receiver is not the range parameter', site)
        vec = cs[0][2].value()
        bit = None
        for (k, i), val in o.st.env.items():
            if k == 'in_range':
                bit = val
        taken.setdefault(bit, []).append(o)
        nxts.add((o.kind, o.val if o.kind == 'stop' else None))
    if vec is None:
        chk.ob('installer', '%s bb%d: segment has paths' % (w, head), False, 'no path', site)
        return None, None
    seen_vec[vec] = seen_vec.get(vec, 0) + 1
    inst = '%s vector %d' % (w, vec)
    okshape = set(taken) == {0, 1} and len(taken[0]) == 1 and len(taken[1]) == 1 and all(o.kind in ('stop', 'ret') for o in outs) and len(nxts) == 1
    chk.ob('installer', '%s: in-range and out-of-range paths both continue to the same next test' % inst, okshape,
           'paths %r' % ([(b, o.kind, o.val) for b, os_ in taken.items() for o in os_],), site)
    if not okshape:
        return None, None
    eff = lambda o: [e for e in o.st.events if e[0] in ('call', 'write', 'asm', 'panic', 'rawderef', 'zero')]
    out_of = taken[0][0]
    chk.ob('installer', '%s: not in range -> no effect' % inst, not eff(out_of), 'events %r' % ([e[:2] for e in eff(out_of)],), site)
    inr = taken[1][0]
    ev = eff(inr)
    if vec in SI.RESERVED:
        chk.ob('installer', '%s (reserved): in range -> no effect' % inst, not ev, 'events %r' % ([e[:2] for e in ev],), site)
    else:
        ok = len(ev) == 1 and ev[0][0] == 'call' and ev[0][1] == SET_FN
        chk.ob('installer', '%s: in range -> exactly one Entry::set_handler_fn, nothing else' % inst, ok, 'events %r' % ([e[:2] for e in ev],), site)
        if ok:
            ent, h = ev[0][2][0], ev[0][2][1]
            off = entry_offset(idt_lay, ent)
            chk.ob('installer', '%s: the handler goes into the entry at byte %d of the caller\'s idt' % (inst, 16 * vec), off == 16 * vec,
                   'entry %r = byte %s' % (ent, off), site, sample='%r -> byte %s' % (ent, off))
            okh = isinstance(h, FnItem) and h.c['name'] in I.fn
            chk.ob('installer', '%s: the installed handler is a generated stub' % inst, okh, 'handler %r' % (h,), site)
            if okh:
                stubs[vec] = h.c['name']
    k, v = next(iter(nxts))
    # the state carried into the next segment: the out-of-range exit state, minus the frame locals on which the two paths
    # disagree (a later read of such a local fails closed)
    carry = out_of.st
    for key in [k2 for k2 in carry.mem if k2[0] == 'L' and k2[1] == fid]:
        a, b = carry.mem[key], inr.st.mem.get(key)
        if b is None or not (same(a, b) or repr(a) == repr(b)):
            if key[2] not in (1, 2):
                del carry.mem[key]
    return ('ret' if k == 'ret' else v), carry


# ------------------------------------------------------------------------------------------------ stubs
def stub(chk, I, w, v, hname):
    h = I.fn[hname]
    inst = '%s vector %d' % (w, v)
    site = h['loc']
    ec = v in SI.ERROR_CODE_VECTORS
    div = v in SI.DIVERGING_VECTORS
    tys = h['locals']
    okabi = h['abi'] == 'X86Interrupt'
    oksig = h['argc'] == (2 if ec else 1) and tys[1].get('name') == FRAME and ((tys[0]['k'] == 'never') == div)
    if ec:
        et = tys[2]
        oksig = oksig and ((et.get('name') == 'structures::idt::PageFaultErrorCode') if v == SI.PAGE_FAULT else (et.get('k') == 'uint' and et.get('bits') == 64))
    chk.ob('stub', '%s: x86-interrupt ABI, %s error code parameter, %s' % (inst, 'with' if ec else 'without', 'diverging' if div else 'returning'),
           okabi and oksig, 'abi %s argc %d types %s' % (h['abi'], h['argc'], [t.get('name') or t.get('k') for t in tys[:3]]), site)
    st = State()
    frame = Struct(FRAME, [I.sym_value({'k': 'adt', 'name': FRAMEV, 'args': []}, 'frame', invariants=False)])
    args = [frame]
    err = BV.sym(64, 'err')
    if h['argc'] == 2:
        if tys[2].get('k') == 'adt':
            args.append(I.wrap_scalar(tys[2], err))
        else:
            args.append(err)
    saved = set(I.opaque_fns)
    I.opaque_fns.add('general_handler')
    try:
        outs = I.run(hname, args, st)
    finally:
        I.opaque_fns = saved
    chk.count('stub-instances')
    chk.count('paths', len(outs))
    want_kind = 'panic' if div else 'ret'
    ok = len(outs) == 1 and outs[0].kind == want_kind
    chk.ob('stub', '%s: single path that %s' % (inst, 'never returns (panics after the handler)' if div else 'returns'), ok, 'paths %r' % (outs,), site)
    if len(outs) != 1:
        return
    o = outs[0]
    ev = [e for e in o.st.events if e[0] in ('call', 'write', 'asm', 'rawderef', 'panic')]
    calls = [e for e in ev if e[0] == 'call']
    others = [e for e in ev if e[0] not in ('call',) and not (div and e[0] == 'panic')]
    okc = len(calls) == 1 and calls[0][1] == 'general_handler' and not others
    if div and okc:
        # the panic comes after the call
        okc = ev.index(calls[0]) < max(i for i, e in enumerate(ev) if e[0] == 'panic')
    chk.ob('stub', '%s: calls the general handler exactly once and does nothing else' % inst, okc, 'events %r' % ([e[:2] for e in ev],), site)
    if len(calls) != 1:
        return
    a = calls[0][2]
    chk.ob('stub', '%s: passes the frame it was entered with' % inst, len(a) == 3 and same(a[0], frame), 'first argument %r' % (a[0],), site)
    chk.ob('stub', '%s: reports index %d' % (inst, v), isinstance(a[1], BV) and a[1].w == 8 and a[1].is_const() and a[1].value() == v, 'index argument %r' % (a[1],), site,
           sample=repr(a[1]))
    e = a[2]
    if ec:
        oke = isinstance(e, Enum) and e.vname == 'Some' and isinstance(e.fields[0], BV) and same(e.fields[0], err)
        chk.ob('stub', '%s: passes Some(pushed error code)' % inst, oke, 'error argument %r' % (e,), site)
    else:
        chk.ob('stub', '%s: passes None' % inst, isinstance(e, Enum) and e.vname == 'None', 'error argument %r' % (e,), site)
