"""C08 - page-table entries and tables encode exactly what was stored, in hardware layout."""
from spec import paging as SP

from ..bits import BV, eq0_bit, lit
from ..interp import State, Unsupported
from ..values import UNIT, Array, Closure, Enum, Opaque, Ptr, Ref, Struct
from .common import is_call_of, U64, USIZE, adt, arg_obj, bv, eval_value, fn_site, inner, same, sl

LEVEL = 'proof'
PT = 'structures::paging::page_table::'
PTE = PT + 'PageTableEntry'
TBL = PT + 'PageTable'
FL = PT + 'PageTableFlags'
DOM = SP.PTE_FLAG_DOMAIN


def flags_val(I, name='fl'):
    """flags drawn from bits 0..11 and 52..63 (the property's quantifier)"""
    return I.wrap_scalar(adt(FL), BV(64, [lit(name, i) if (DOM >> i) & 1 else 0 for i in range(64)]))


def run(chk):
    I = chk.I
    chk.trusted += ['spec/paging.py (entry format from Intel SDM 3A 4.5)', 'rustc layout computation', 'models of bitflags methods; core iterator adaptors (Range, Map, all) are trusted to visit what their closure is given']
    chk.assumptions += ['flag sets are drawn from bits 0..11 and 52..63 as the property states; PageTableFlags also names bit 12 (PAT of huge pages), which '
                        'for a 4 KiB entry is an address bit - flags() is compared on the quantified bits only']
    lo, hi = SP.PTE_ADDR

    def r1(fn_, args, st=None, sub=None):
        chk.count('function-instances')
        return I.run(fn_, args, st if st is not None else State(), sub)

    def with_entry(fn_, extra, entry=None):
        st = State()
        ref = arg_obj(st, 'self', Struct(PTE, [entry if entry is not None else BV.sym(64, 'e')]))
        return r1(fn_, [ref] + extra, st)

    def fin(o):
        return inner(o.st.mem[('arg', 'self')])

    def entry_rules():
        fl = flags_val(I)
        fb = inner(fl).bits
        pa = Struct('addr::PhysAddr', [bv(64, (0, 12), sl('a', 12, 52), (0, 12))])
        o = with_entry(PTE + '::set_addr', [pa, fl])
        want = BV(64, [fb[i] if (DOM >> i) & 1 else (lit('a', i) if lo <= i < hi else 0) for i in range(64)])
        chk.ob('entry', 'set_addr(aligned address, flags) stores exactly address | flags', len(o) == 1 and o[0].kind == 'ret' and same(fin(o[0]), want), 'paths %r final %r' % (o, fin(o[0]) if o else None),
               fn_site(I, PTE + '::set_addr'), sample=repr(fin(o[0])) if o else None)
        for j in range(12):
            b = [0] * 12 + sl('a', 12, 52) + [0] * 12
            b[j] = 1
            o = with_entry(PTE + '::set_addr', [Struct('addr::PhysAddr', [BV(64, b)]), fl])
            chk.ob('entry', 'set_addr refuses an address with bit %d set' % j, bool(o) and all(x.kind == 'panic' for x in o) and all(same(fin(x), BV.sym(64, 'e')) for x in o), 'paths %r' % (o,), nontrivial=(j == 0))
        fr = I.sym_value(adt('structures::paging::frame::PhysFrame', adt('structures::paging::page::Size4KiB')), 'a')
        o = with_entry(PTE + '::set_frame', [fr, fl])
        chk.ob('entry', 'set_frame(frame, flags) stores frame address | flags', len(o) == 1 and o[0].kind == 'ret' and same(fin(o[0]), want), 'paths %r' % (o,), fn_site(I, PTE + '::set_frame'))
        o = with_entry(PTE + '::set_flags', [fl])
        want2 = BV(64, [fb[i] if (DOM >> i) & 1 else (lit('e', i) if lo <= i < hi else 0) for i in range(64)])
        chk.ob('entry', 'set_flags keeps address bits 12..51 and replaces everything else by the flags', len(o) == 1 and o[0].kind == 'ret' and same(fin(o[0]), want2), 'final %r' % (fin(o[0]) if o else None,),
               fn_site(I, PTE + '::set_flags'))
        o = with_entry(PTE + '::flags', [])
        got = inner(o[0].val) if len(o) == 1 and o[0].kind == 'ret' else None
        chk.ob('entry', 'flags() returns the entry\'s bits 0..11 and 52..63 unchanged', got is not None and all(got.bits[i] == lit('e', i) for i in range(64) if (DOM >> i) & 1), 'returns %r' % (got,),
               fn_site(I, PTE + '::flags'))
        chk.ob('entry', 'flags() returns nothing of the address field except bit 12 (named PAT_HUGE_PAGE)', got is not None and all(got.bits[i] == 0 for i in range(13, 52)), 'returns %r' % (got,))
        o = with_entry(PTE + '::addr', [])
        chk.ob('entry', 'addr() = bits 12..51', len(o) == 1 and o[0].kind == 'ret' and same(inner(o[0].val), bv(64, (0, lo), sl('e', lo, hi), (0, 64 - hi))), 'paths %r' % (o,), fn_site(I, PTE + '::addr'))
        for p in (0, 1):
            e = BV(64, [p] + sl('e', 1, 64))
            o = with_entry(PTE + '::frame', [], e)
            if p:
                ok = len(o) == 1 and o[0].kind == 'ret' and o[0].val.vname == 'Ok' and same(inner(o[0].val.fields[0]), bv(64, (0, lo), sl('e', lo, hi), (0, 64 - hi)))
            else:
                ok = len(o) == 1 and o[0].kind == 'ret' and o[0].val.vname == 'Err' and o[0].val.fields[0].vname == 'FrameNotPresent'
            chk.ob('entry', 'frame() with present bit = %d: %s' % (p, 'Ok(frame at bits 12..51)' if p else 'Err(FrameNotPresent)'), ok, 'paths %r' % (o,), fn_site(I, PTE + '::frame'))
        o = with_entry(PTE + '::is_unused', [])
        chk.ob('entry', 'is_unused <=> all 64 bits are zero', len(o) == 1 and same(o[0].val, BV(1, [eq0_bit(tuple(sl('e', 0, 64)))])), 'returns %r' % (o,), fn_site(I, PTE + '::is_unused'))
        o = with_entry(PTE + '::set_unused', [])
        chk.ob('entry', 'set_unused stores 0', len(o) == 1 and fin(o[0]).is_const() and fin(o[0]).value() == 0, 'final %r' % (o,), fn_site(I, PTE + '::set_unused'))
        o = r1(PTE + '::new', [])
        chk.ob('entry', 'new() = 0', len(o) == 1 and inner(o[0].val).is_const() and inner(o[0].val).value() == 0, 'returns %r' % (o,))
    chk.guard('entry', 'entry rules', entry_rules)

    def layouts():
        ls = {l['tys']: l for l in chk.facts['layouts']}
        e = ls.get(PTE)
        chk.ob('layout', 'PageTableEntry is one transparent u64', e is not None and e['size'] == 8 and len(e['fields']) == 1 and e['fields'][0]['off'] == 0 and 'transparent' in e.get('repr', '').lower(), 'layout %r' % (e and (e['size'], e.get('repr')),))
        t = ls.get(TBL)
        ok = t is not None and t['size'] == 4096 and t['align'] == 4096 and len(t['fields']) == 1 and t['fields'][0]['off'] == 0 and t['fields'][0]['size'] == 4096 and \
            t['fields'][0]['ty'].get('k') == 'array' and '512' in str(t['fields'][0]['ty'].get('len'))
        chk.ob('layout', 'PageTable = 512 entries at offset 0, size 4096, align 4096', ok, 'layout %r' % (t and (t['size'], t['align'], t['fields']),))
        chk.count('layouts', 2)
    chk.guard('layout', 'layouts', layouts)

    def index_rules():
        for tr, m in (('Index', 'index'), ('IndexMut', 'index_mut')):
            fn_ = '<%s as core::ops::%s<%sPageTableIndex>>::%s' % (TBL, tr, PT, m)
            st = State()
            st.mem[('arg', 'self')] = Opaque('table')
            idx = I.sym_value(adt(PT + 'PageTableIndex'), 'i')
            o = r1(fn_, [Ref(('arg', 'self')), idx], st)
            rets = [x for x in o if x.kind == 'ret']
            ok = len(rets) == 1 and len(o) == 1 and isinstance(rets[0].val, Ref) and rets[0].val.loc == ('arg', 'self') and len(rets[0].val.path) == 2 and rets[0].val.path[0] == 0 and \
                same(rets[0].val.path[1][1], bv(64, sl('i', 0, 9), (0, 55)))
            chk.ob('index', '%s<PageTableIndex>: slot number = the index, never panics' % tr, ok, 'paths %r' % (o,), fn_site(I, fn_))
            fn_ = '<%s as core::ops::%s<usize>>::%s' % (TBL, tr, m)
            st = State()
            st.mem[('arg', 'self')] = Opaque('table')
            st.rng['n'] = [(0, (1 << 64) - 1)]
            o = r1(fn_, [Ref(('arg', 'self')), BV.sym(64, 'n')], st)
            rets = [x for x in o if x.kind == 'ret']
            ok = len(rets) == 1 and isinstance(rets[0].val, Ref) and rets[0].val.path[0] == 0 and I.sym_of(rets[0].val.path[1][1]) == 'n' and \
                rets[0].st.rng.get('n') == [(0, 511)] and all(x.kind == 'panic' for x in o if x not in rets) and len(o) == 2
            chk.ob('index', '%s<usize>: slot number = the index for index < 512, panic otherwise' % tr, ok, 'paths %r rng %r' % (o, [x.st.rng.get('n') for x in o]), fn_site(I, fn_))
    chk.guard('index', 'index impls', index_rules)

    chk.guard('iter', 'iteration', lambda: iter_rules(chk, I, r1))
    T_ = 'structures::paging::page_table::'
    chk.guard('iter', 'PageTable::default', lambda: is_call_of(chk, I, 'iter', '<%sPageTable as core::default::Default>::default' % T_, T_ + 'PageTable::new', 'PageTable::default() is new()'))
    chk.guard('entry', 'PageTableEntry::default', lambda: is_call_of(chk, I, 'entry', '<%sPageTableEntry as core::default::Default>::default' % T_, T_ + 'PageTableEntry::new', 'PageTableEntry::default() is new()'))
    chk.floor('obligations', len(chk.obs), 36)


def iter_rules(chk, I, r1):
    # iter / iter_mut: (0..512).map(closure) where closure(i) is slot i of self
    for meth, mut in (('iter', False), ('iter_mut', True)):
        fn_ = TBL + '::' + meth
        st = State()
        st.mem[('arg', 'self')] = Struct(TBL, [Array('entries', mk=lambda nm: Struct(PTE, [BV.sym(64, nm)]), length=512)])
        o = r1(fn_, [Ref(('arg', 'self'))], st)
        ok = len(o) == 1 and o[0].kind == 'ret'
        calls = [e for e in o[0].st.events if e[0] == 'call'] if ok else []
        ok = ok and len(calls) == 1 and calls[0][1].endswith('Iterator::map')
        rng = calls[0][2][0] if ok else None
        clo = calls[0][2][1] if ok else None
        okr = ok and isinstance(rng, Struct) and rng.name.endswith('ops::Range') and eval_value(rng.fields[0], {}) == 0 and eval_value(rng.fields[1], {}) == SP.ENTRIES
        chk.ob('iter', '%s() maps the constant range 0..512' % meth, okr, 'call %r' % (calls[:1],), fn_site(I, fn_))
        okc = False
        if ok and isinstance(clo, Closure):
            s2 = o[0].st.clone()
            loc = ('obj', 'clo-env')
            s2.mem[loc] = clo
            cf = I.fn[clo.name]
            envarg = Ref(loc) if cf['locals'][1].get('k') == 'ref' else clo
            s2.rng['k'] = [(0, 511)]
            co = I.run_fn(cf, [envarg, BV(64, sl('k', 0, 9) + [0] * 55)], s2, {})
            rets = [x for x in co if x.kind == 'ret']
            if len(rets) == 1 and isinstance(rets[0].val, Ref):
                r = rets[0].val
                okc = r.loc == ('arg', 'self') and len(r.path) == 2 and r.path[0] == 0 and I.sym_of(r.path[1][1]) == 'k' and all(x.kind == 'panic' for x in co if x not in rets)
        chk.ob('iter', '%s(): the closure yields slot i of this table for the i it is given' % meth, okc, 'closure %r' % (clo,), fn_site(I, fn_))
    # is_empty: true exactly when every slot of iter() is all-zero - written as iter().all(pred), !iter().any(pred) or an explicit loop
    fn_ = TBL + '::is_empty'
    st = State()
    st.mem[('arg', 'self')] = Opaque('table')
    saved = set(I.opaque_fns)
    I.opaque_fns |= {TBL + '::iter'}
    try:
        o = r1(fn_, [Ref(('arg', 'self'))], st)
    finally:
        I.opaque_fns = saved
    ok, detail = scan_is_all_zero(I, o, 'iter')
    chk.ob('iter', 'is_empty() is true exactly when every element of iter() is all-zero', ok, detail, fn_site(I, fn_))
    # zero(): every element yielded by iter_mut() gets set to zero - a loop or iter_mut().for_each(..)
    fn_ = TBL + '::zero'
    st = State()
    st.mem[('arg', 'self')] = Opaque('table')
    saved = set(I.opaque_fns)
    I.opaque_fns |= {TBL + '::iter_mut'}
    try:
        o = r1(fn_, [Ref(('arg', 'self'))], st)
    finally:
        I.opaque_fns = saved
    okz, detail = scan_sets_all_zero(I, o, 'iter_mut')
    chk.ob('iter', 'zero(): each element yielded by iter_mut() is set unused; the loop ends only when the iterator does', okz, detail, fn_site(I, fn_))
    # new(): 512 copies of an all-zero entry
    o = r1(TBL + '::new', [])
    ok = len(o) == 1 and o[0].kind == 'ret'
    if ok:
        arr = o[0].val.fields[0]
        ok = isinstance(arr, Array) and arr.length == SP.ENTRIES and not arr.elems and arr.default is not None and eval_value(inner(arr.default), {}) == 0
    chk.ob('iter', 'new(): 512 all-zero entries', ok, 'returns %r' % (o,), fn_site(I, TBL + '::new'))


def _apply_to_entry(I, f, value_sym='e'):
    """run a fn item / closure taking one reference to a page-table entry on a symbolic entry; returns (outcomes, final entry value)"""
    from ..values import FnItem
    st = State()
    eref = arg_obj(st, 'e', Struct(PTE, [BV.sym(64, value_sym)]))
    if isinstance(f, FnItem):
        fn = I.fn.get(f.c['name']) or I.fn.get((f.c.get('res') or {}).get('name'))
        if fn is None:
            return None, None
        outs = I.run_fn(fn, [eref], st, {})
    elif isinstance(f, Closure):
        loc = ('obj', 'clo-env')
        st.mem[loc] = f
        cf = I.fn[f.name]
        envarg = Ref(loc) if cf['locals'][1].get('k') == 'ref' else f
        outs = I.run_fn(cf, [envarg, eref], st, {})
    else:
        return None, None
    return outs, [x.st.mem.get(('arg', 'e')) for x in outs]


def _iter_source_ok(o, src):
    """the scan is over `src`(self) itself: the last call producing the iterator is `src` on the table argument, nothing adapts it"""
    calls = [e for e in o.st.events if e[0] == 'call']
    srcs = [e for e in calls if e[1].endswith('::' + src)]
    if len(srcs) != 1 or not (isinstance(srcs[0][2][0], Ref) and srcs[0][2][0].loc == ('arg', 'self')):
        return False
    adapt = [e for e in calls if e[1].split('::')[-1] in ('take', 'skip', 'step_by', 'filter', 'rev', 'take_while', 'skip_while', 'zip', 'chain')]
    return not adapt


def scan_is_all_zero(I, outs, src):
    zero_pred = BV(1, [eq0_bit(tuple(sl('e', 0, 64)))])
    loops = [x for x in outs if x.kind == 'loop']
    rets = [x for x in outs if x.kind == 'ret']
    if not loops:
        # adaptor form: one path, iter() then all(pred) / any(pred)
        if len(outs) != 1 or not rets or not _iter_source_ok(rets[0], src):
            return False, 'paths %r' % (outs,)
        o = rets[0]
        calls = [e for e in o.st.events if e[0] == 'call']
        fin = [e for e in calls if e[1].endswith('Iterator::all') or e[1].endswith('Iterator::any')]
        folds = [e for e in calls if e[1].endswith('::fold')]
        if not fin and len(folds) == 1 and len(folds[0][2]) == 3:
            return _fold_is_all_zero(I, o, folds[0])
        if len(fin) != 1 or len(fin[0][2]) != 2:
            return False, 'calls %r' % ([c[1] for c in calls],)
        po, _ = _apply_to_entry(I, fin[0][2][1])
        if not po or len(po) != 1 or po[0].kind != 'ret' or not isinstance(po[0].val, BV):
            return False, 'predicate not analysable'
        tag = '%s#%d' % (fin[0][1].split('::')[-1], fin[0][5])
        res = o.val
        if not (isinstance(res, BV) and res.w == 1 and isinstance(res.bits[0], tuple) and res.bits[0][0] == 'v' and res.bits[0][1].startswith(tag)):
            return False, 'result %r is not that of the scan' % (res,)
        negated = bool(res.bits[0][3])
        if fin[0][1].endswith('all'):
            ok = same(po[0].val, zero_pred) and not negated
        else:
            ok = same(po[0].val, BV(1, [b_not_(zero_pred.bits[0])])) and negated
        return ok, 'scan %s with predicate %r, negated=%s' % (fin[0][1].split('::')[-1], po[0].val, negated)
    # loop form: an iteration that sees a non-zero element returns false, one that sees a zero element goes on; running out returns true
    ok = bool(rets) and all(_iter_source_ok(x, src) for x in outs)
    why = []
    for x in rets + loops:
        nxt = [e for e in x.st.events if e[0] == 'opaque-result' and e[1].startswith('next#')]
        last = nxt[-1][2] if nxt else None
        ent = [k for k in x.st.env if isinstance(k[0], str) and k[0].startswith('next#')]
        if x.kind == 'ret' and last == 'None':
            ok = ok and isinstance(x.val, BV) and x.val.is_const() and x.val.value() == 1
            why.append('exhausted -> %r' % (x.val,))
        elif x.kind == 'ret' and last == 'Some':
            # returned from inside an iteration: must be `false`, on an element found non-zero
            nz = any(f_[1] == 0 for f_ in x.st.notes if isinstance(f_[0], str) and f_[0].startswith('zero('))
            ok = ok and isinstance(x.val, BV) and x.val.is_const() and x.val.value() == 0 and nz
            why.append('element non-zero -> %r' % (x.val,))
        elif x.kind == 'loop':
            z = any(f_[1] == 1 for f_ in x.st.notes if isinstance(f_[0], str) and f_[0].startswith('zero('))
            ok = ok and z
            why.append('element zero -> continue' if z else 'continues without having found the element zero')
        else:
            ok = False
    return ok, '; '.join(why)


def _fold_is_all_zero(I, o, call):
    """`iter().fold(0, |acc, e| acc | bits(e)) == 0`: the accumulator starts at zero, each step ORs every bit of the accumulator and every
    bit of the entry into the result (so it is zero exactly while everything seen was zero), and the function returns `result == 0`"""
    init, f = call[2][1], call[2][2]
    if not (isinstance(init, BV) and init.is_const() and init.value() == 0 and isinstance(f, Closure)):
        return False, 'fold does not start from the constant 0 with a closure'
    st = State()
    eref = arg_obj(st, 'e', Struct(PTE, [BV.sym(64, 'e')]))
    loc = ('obj', 'clo-env')
    st.mem[loc] = f
    cf = I.fn[f.name]
    envarg = Ref(loc) if cf['locals'][1].get('k') == 'ref' else f
    acc = BV.sym(init.w, 'acc')
    try:
        po = I.run_fn(cf, [envarg, acc, eref], st, {})
    except Exception as ex:  # arity / shape the rule does not know
        return False, 'fold step not analysable: %r' % (ex,)
    if len(po) != 1 or po[0].kind != 'ret' or not isinstance(po[0].val, BV):
        return False, 'fold step not analysable: %r' % (po,)
    seen = set()
    for b in po[0].val.bits:
        if b == 0:
            continue
        atoms = [b] if (isinstance(b, tuple) and b[0] == 'v') else (list(b[1]) if isinstance(b, tuple) and b[0] == 'or' else None)
        if atoms is None or any(not (isinstance(a, tuple) and a[0] == 'v' and not a[3]) for a in atoms):
            return False, 'fold step is not an OR of accumulator and entry bits: %r' % (po[0].val,)
        seen.update((a[1], a[2]) for a in atoms)
    want = {('acc', i) for i in range(init.w)} | {('e', i) for i in range(64)}
    if seen != want:
        return False, 'fold step drops bits %r' % (sorted(want - seen)[:4],)
    tag = 'fold#%d' % call[5]
    res = o.val
    okr = isinstance(res, BV) and res.w == 1 and same(res, BV(1, [eq0_bit(tuple(sl(tag, 0, init.w)))]))
    return okr, 'fold of OR over all entry bits, compared with zero: result %r' % (res,)


def b_not_(b):
    from ..bits import b_not
    return b_not(b)


def scan_sets_all_zero(I, outs, src):
    loops = [x for x in outs if x.kind == 'loop']
    rets = [x for x in outs if x.kind == 'ret']
    if not loops:
        if len(outs) != 1 or not rets or not _iter_source_ok(rets[0], src):
            return False, 'paths %r' % (outs,)
        o = rets[0]
        calls = [e for e in o.st.events if e[0] == 'call']
        fe = [e for e in calls if e[1].endswith('Iterator::for_each')]
        if len(fe) != 1 or len(fe[0][2]) != 2:
            return False, 'calls %r' % ([c[1] for c in calls],)
        po, fin = _apply_to_entry(I, fe[0][2][1])
        ok = bool(po) and len(po) == 1 and po[0].kind == 'ret' and fin[0] is not None and eval_value(inner(fin[0]), {}) == 0
        return ok, 'for_each applies a function that leaves the element as %r' % (fin and fin[0],)
    okz = len(rets) == 1 and len(loops) == 1 and len(outs) == 2
    detail = 'paths %r' % (outs,)
    if okz:
        ev = [e for e in loops[0].st.events if e[0] in ('call', 'icall', 'write')]
        names = [e[1].split('::')[-1] for e in ev if e[0] != 'write' and not e[1].endswith('::into_iter')]
        okz = names[:2] == [src, 'next'] and ev[0][2][0].loc == ('arg', 'self')
        if okz:
            nxt = [e for e in ev if e[0] == 'call' and e[1].endswith('::next')][0]
            ws = [e for e in ev if e[0] == 'write']
            # the element handed out by next() is left all-zero (and nothing else is written)
            locs = {e[1].loc for e in ws if isinstance(e[1], Ref)}
            okz = len(locs) == 1 and next(iter(locs))[0] == 'obj' and ('next#%d' % nxt[5]) in str(next(iter(locs))[1])
            if okz:
                fin = loops[0].st.mem.get(next(iter(locs)))
                okz = fin is not None and eval_value(inner(fin), {}) == 0
        evr = [e[1].split('::')[-1] for e in rets[0].st.events if e[0] in ('call', 'icall') and not e[1].endswith('::into_iter')]
        okz = okz and evr[:2] == [src, 'next'] and not [e for e in rets[0].st.events if e[0] == 'write']
        detail = 'loop-iteration events %s; exit events %s' % (names, evr)
    return okz, detail
