"""C03 - address values are always valid: canonical virtual, 52-bit physical."""
from spec import paging as SP

from ..bits import BV, TOP, lit
from ..interp import State
from ..mirwalk import callees, is_user_fn, place_base_types, statements, ty_mentions
from ..values import Ref,  Enum, Struct
from .common import U64, adt, bv, fn_site, inner, same, sl

LEVEL = 'proof'
VA = 'addr::VirtAddr'
PA = 'addr::PhysAddr'

# functions that may build an address value from raw bits, with the reason it is valid there
# The public constructors the property is about; everything else that assembles an address from raw bits (or calls the unchecked
# constructor) is a crate-private detail and must be *shown* to produce valid addresses for all inputs (see `audit`), so that private
# helpers can be renamed, split or merged freely.
CONSTRUCTORS = {
    VA + '::new_truncate': 'sign-extends bit 47 (bit rule below)',
    VA + '::new_unsafe': 'unsafe: caller contract; in-crate call sites are audited',
    VA + '::zero': 'constant 0',
    PA + '::new_truncate': 'clears bits 52..63 (bit rule below)',
    PA + '::new_unsafe': 'unsafe: caller contract',
    PA + '::zero': 'constant 0',
}
PG = 'structures::paging::page::Page'
FR = 'structures::paging::frame::PhysFrame'
# page / frame values: built by containing_address (C06 decides it) and by the unsafe unchecked constructor (its in-crate callers are
# audited); anything else that assembles one must be shown to produce size-aligned start addresses
PAGE_CONSTRUCTORS = {
    PG + '::<S>::containing_address': 'align_down of a valid address (C06)',
    PG + '::<S>::from_start_address_unchecked': 'unsafe: caller contract; in-crate call sites are audited',
    FR + '::<S>::containing_address': 'align_down of a valid address (C06)',
    FR + '::<S>::from_start_address_unchecked': 'unsafe: caller contract; in-crate call sites are audited',
}
# instructions whose result is an address by hardware fact (the FS/GS base registers only hold canonical addresses)
HW_ADDRESS_INSNS = ('rdfsbase', 'rdgsbase')


def canonical(bits):
    return all(b == bits[47] for b in bits[48:64]) and TOP not in bits[47:64]


def run(chk):
    I = chk.I
    chk.trusted += ['x86abs transfer functions and interval component; models of checked_add/checked_sub/bit_field',
                    'hardware: FS/GS base registers hold canonical addresses', 'Rust privacy: the tuple fields of VirtAddr/PhysAddr are private to module addr (compile-fail witness in the thorough tier)']
    chk.guard('who-may-construct', 'census', lambda: census(chk))
    chk.guard('constructor', 'bit rules', lambda: constructors(chk))
    chk.guard('new-unsafe', 'step functions', lambda: steps(chk))
    chk.guard('derived-address', 'addresses decoded from hardware structures', lambda: derived(chk))
    chk.floor('obligations', len(chk.obs), 120)


def holders(chk, names):
    """the given types plus every crate-local struct that (transitively) has a field of one of them"""
    out = set(names)
    adts = chk.facts.get('adts', [])
    changed = True
    while changed:
        changed = False
        for a in adts:
            if a['name'] not in out and any(ty_mentions(f['ty'], out) for f in a['fields']):
                out.add(a['name'])
                changed = True
    return out


def census(chk):
    names = {VA, PA}
    deep = holders(chk, {VA, PA, PG, FR})
    to_audit = {}
    n_agg = 0
    n_fields = 0
    n_trans = 0
    for f in chk.facts['fns']:
        if not is_user_fn(f):
            continue
        base = f['name'].split('::promoted')[0]
        from ..mirwalk import ctor_refs
        if ctor_refs(f, names | {PG, FR}) and f['name'] not in CONSTRUCTORS and f['name'] not in PAGE_CONSTRUCTORS:
            to_audit.setdefault(f['name'], f)
        for bi, s in statements(f):
            if s['k'] != 'assign':
                continue
            rv = s['rv']
            if rv['k'] == 'agg' and rv.get('ak') == 'adt' and rv.get('adt') in (PG, FR):
                if f['name'] not in PAGE_CONSTRUCTORS:
                    to_audit.setdefault(f['name'], f)
            if rv['k'] == 'agg' and rv.get('ak') == 'adt' and rv.get('adt') in names:
                n_agg += 1
                if f['name'] in CONSTRUCTORS:
                    chk.ob('who-may-construct', '%s built in %s (public constructor, decided by the bit rules)' % (rv['adt'].split('::')[-1], f['name']), True, '', f['loc'], nontrivial=False)
                else:
                    to_audit.setdefault(f['name'], f)
            pro, _ = place_base_types(f, s['pl'])
            for t, e in pro:
                if e['k'] == 'field' and t.get('k') == 'adt' and t['name'] in names:
                    n_fields += 1
                    if f['name'] not in CONSTRUCTORS:
                        to_audit.setdefault(f['name'], f)
            if rv['k'] == 'cast' and rv.get('kind') == 'Transmute' and ty_mentions(rv.get('ty'), deep):
                n_trans += 1
                chk.ob('who-may-construct', 'transmute into a type holding an address in %s' % f['name'], False, 'transmute to %s' % (rv.get('ty'),), f['loc'])
        # references to the raw field handed out mutably
        for bi, s in statements(f):
            if s['k'] == 'assign' and s['rv']['k'] in ('ref', 'rawref') and 'Mut' in s['rv'].get('bk', '') + s['rv'].get('bk', ''):
                pro, _ = place_base_types(f, s['rv']['pl'])
                for t, e in pro:
                    if e['k'] == 'field' and t.get('k') == 'adt' and t['name'] in names and f['name'] not in CONSTRUCTORS:
                        # e.g. addr.set_bits(..) on a local copy of the u64 is fine; a &mut into a VirtAddr's field is not
                        chk.ob('who-may-construct', 'mutable borrow of the raw field of %s in %s' % (t['name'].split('::')[-1], f['name']), False, '', f['loc'])
    chk.count('functions scanned', sum(1 for f in chk.facts['fns'] if is_user_fn(f)))
    chk.floor('address aggregates found', n_agg, 7)
    chk.sample({'aggregates': n_agg, 'raw-field writes': n_fields, 'transmutes': n_trans})
    # call sites of the unsafe constructors
    n_calls = 0
    for f in chk.facts['fns']:
        if not is_user_fn(f):
            continue
        for bi, c, target, loc in callees(f):
            if target in (VA + '::new_unsafe', PA + '::new_unsafe'):
                n_calls += 1
                to_audit.setdefault(f['name'], f)
            if target in (PG + '::<S>::from_start_address_unchecked', FR + '::<S>::from_start_address_unchecked') and f['name'] not in PAGE_CONSTRUCTORS:
                to_audit.setdefault(f['name'], f)
    chk.floor('in-crate new_unsafe call sites', n_calls, 1)
    # a closure that builds an address (`.map(|a| Page { start_address: a, .. })`) is judged through the function it belongs to, whose
    # interpretation runs it with the values it really receives
    import re
    byname = {f['name']: f for f in chk.facts['fns']}
    resolved = {}
    for name, f in to_audit.items():
        base = re.split(r'::\{closure', name)[0]
        if base != name and base in byname:
            if base not in CONSTRUCTORS and base not in PAGE_CONSTRUCTORS:
                resolved.setdefault(base, byname[base])
        else:
            resolved.setdefault(name, f)
    for name, f in sorted(resolved.items()):
        chk.guard('who-may-construct', name, lambda f=f: audit(chk, f))


def audit(chk, f):
    """a crate-private function that assembles an address from raw bits or calls new_unsafe: for all inputs of its parameter types (with the
    validity invariants of those types), every VirtAddr / PhysAddr it returns or leaves behind `&mut self` is valid"""
    from ..values import Ref,  Enum
    from .common import size_ty
    I = chk.I
    name = f['name']
    short = name.replace('structures::paging::', '').replace('instructions::segmentation::', '')
    subs = [{}]
    if f['generics']:
        # the instantiations the crate itself uses (`step::<Forward>`, `step::<Backward>`); page sizes for what is left generic
        from ..interp import gargs_for
        insts = []
        for g_ in chk.facts['fns']:
            for bi, c, target, loc in callees(g_):
                if target != name or not (c.get('res') or {}).get('gargs'):
                    continue
                ga = gargs_for(f, c['res']['gargs'])
                if len(ga) == len(f['generics']) and any(x.get('k') not in ('param', 'lifetime') for x in ga) and ga not in insts:
                    insts.append(ga)
        if insts:
            # arguments the call sites leave generic (a page size passed through) range over the three page sizes
            subs = []
            for ga in insts:
                for sz in ('Size4KiB', 'Size2MiB', 'Size1GiB'):
                    sb_ = dict(zip(f['generics'], [size_ty(sz) if x.get('k') == 'param' else x for x in ga]))
                    if sb_ not in subs:
                        subs.append(sb_)
        else:
            subs = [{g: size_ty(sz) for g in f['generics']} for sz in ('Size4KiB', 'Size2MiB', 'Size1GiB')]
    bad = []
    seen = 0

    def tvisit(o, v, t, depth=0):
        nonlocal seen
        if v is None or t is None or depth > 6:
            return
        if isinstance(v, Ref):
            try:
                v = I.load(o.st, v)
            except Exception:
                return
            t = t.get('to') or t
        k = t.get('k')
        if k == 'adt' and t.get('name') in (PG, FR) and isinstance(v, Struct):
            sb = I.page_size_bits(t['args'][0]) if t.get('args') else None
            try:
                x = I.norm(o.st, inner(v))
            except Exception:
                return
            if sb is not None and isinstance(x, BV):
                seen += 1
                if not all(b == 0 for b in x.bits[:sb]):
                    bad.append('%s<%s> start %r is not size-aligned' % (t['name'].split('::')[-1], t['args'][0].get('name', '?').split('::')[-1], x))
            return
        if k == 'adt' and isinstance(v, Enum) and t.get('name') in ('core::option::Option', 'core::result::Result') and t.get('args'):
            idx = 0 if v.vname in ('Some', 'Ok') else (1 if v.vname == 'Err' else None)
            if idx is not None and idx < len(t['args']) and v.fields:
                tvisit(o, v.fields[0], t['args'][idx], depth + 1)
            return
        if k == 'tuple' and isinstance(v, Struct):
            for x, tx in zip(v.fields, t.get('elems', [])):
                tvisit(o, x, tx, depth + 1)
            return
        if k == 'adt' and isinstance(v, Struct):
            lay = I.find_layout(t)
            if lay and 'fields' in lay and len(lay['fields']) == len(v.fields):
                for x, fl in zip(v.fields, lay['fields']):
                    tvisit(o, x, fl['ty'], depth + 1)
    import itertools
    from .common import declare
    from .c07 import half_va
    # a VirtAddr parameter is analysed per canonical half (the interval component then sees one contiguous range)
    n_va = sum(1 for i in range(f['argc']) if (I.subst_ty(f['locals'][i + 1], {}).get('to') or I.subst_ty(f['locals'][i + 1], {})).get('name') in (VA, PG))
    cases = [(sub, halves) for sub in subs for halves in itertools.product(('lower', 'upper'), repeat=min(n_va, 2))]
    for sub, halves in cases:
        st = State()
        args = []
        refs = []
        reflocs = []
        hv = list(halves)
        for i in range(f['argc']):
            t = I.subst_ty(f['locals'][i + 1], sub)
            tt = t['to'] if t.get('k') == 'ref' else t
            if tt.get('name') == VA and hv:
                bits, rg = half_va('arg%d' % i, hv.pop(0))
                v = Struct(VA, [bits])
                declare(st, v, {'arg%d' % i: rg})
            elif tt.get('name') == PG and hv and tt.get('args') and I.page_size_bits(tt['args'][0]) is not None:
                bits, rg = half_va('arg%d' % i, hv.pop(0), I.page_size_bits(tt['args'][0]))
                v = I.newtype(PG, Struct(VA, [bits]))
                declare(st, v, {'arg%d' % i: rg})
            else:
                v = I.sym_value(tt, 'arg%d' % i, st)
                if isinstance(v, BV):
                    st.rng.setdefault('arg%d' % i, [(0, (1 << v.w) - 1)])
            if t.get('k') == 'ref':
                st.mem[('arg', 'a%d' % i)] = v
                args.append(Ref(('arg', 'a%d' % i)))
                refs.append(('arg', 'a%d' % i))
                reflocs.append(('arg', 'a%d' % i))
            else:
                args.append(v)
                reflocs.append(None)
        outs = I.run(name, args, st, sub)
        chk.count('function-instances')
        from .c07 import wrap_sites
        for o in outs:
            # an arithmetic overflow check that may fire is, in a build without overflow checks, a wrapped value flowing on into the address
            ws = [w_ for w_ in wrap_sites(o) if w_[1] == name]
            if ws:
                bad.append('%s may wrap in builds without overflow checks' % ws[0][0])
            if o.kind not in ('ret', 'panic'):
                continue
            hw = set()
            for e in o.st.events:
                if e[0] == 'asm' and any(x in e[1] for x in HW_ADDRESS_INSNS):
                    for op in e[2]:
                        v = op.get('v')
                        if isinstance(v, BV):
                            hw |= {b[1] for b in v.bits if isinstance(b, tuple) and b[0] == 'v'}

            def visit(v, o=o):
                nonlocal seen
                if isinstance(v, Struct) and v.name in (VA, PA) and v.fields and isinstance(v.fields[0], BV):
                    seen += 1
                    x = I.norm(o.st, v.fields[0])
                    syms = {b[1] for b in x.bits if isinstance(b, tuple) and b[0] == 'v'}
                    if syms and syms <= hw:
                        return      # the value an rdfsbase/rdgsbase wrote: canonical by hardware fact
                    if v.name == VA:
                        if not canonical(x.bits):
                            r = I.rng_of(o.st, x)
                            if not r or not all(b < (1 << 47) or a >= (1 << 64) - (1 << 47) for a, b in r):
                                bad.append('VirtAddr %r' % (x,))
                    else:
                        if not all(b == 0 for b in x.bits[52:]):
                            r = I.rng_of(o.st, x)
                            if not r or max(b for _, b in r) >= (1 << 52):
                                bad.append('PhysAddr %r' % (x,))
                if isinstance(v, (Struct, Enum)):
                    for y in v.fields:
                        visit(y)
            if o.kind == 'ret':
                visit(o.val)
            # what is left behind a `&mut` argument - on panicking paths too: the caller's object outlives an unwound call
            for loc in refs:
                visit(o.st.mem.get(loc))
            if o.kind != 'ret':
                continue
            # pages and frames: the start address has the low log2(SIZE) bits clear (the size is read off the function's types)
            rt = I.subst_ty(f['locals'][0], sub)
            tvisit(o, o.val, rt)
            for i, loc in enumerate(reflocs):
                if loc is not None:
                    tt = I.subst_ty(f['locals'][i + 1], sub)
                    tvisit(o, o.st.mem.get(loc), tt.get('to') or tt)
    chk.ob('who-may-construct', '%s assembles an address / page / frame outside the public constructors: every one it produces is valid (and size-aligned) for all inputs' % short,
           seen > 0 and not bad, '; '.join(sorted(set(bad))[:3]) or 'no address value could be examined', f['loc'])


def constructors(chk):
    I = chk.I

    def r1(fn_, args, sub=None):
        chk.count('function-instances')
        return I.run(fn_, args, State(), sub)
    a = BV.sym(64, 'a')
    can = BV(64, sl('a', 0, 48) + [lit('a', 47)] * 16)
    o = r1(VA + '::new_truncate', [a])
    chk.ob('constructor', 'VirtAddr::new_truncate: low 48 bits kept, bits 48..63 = bit 47', len(o) == 1 and same(inner(o[0].val), can), 'returns %r' % (o,), fn_site(I, VA + '::new_truncate'), sample=repr(o[0].val) if o else None)
    o2 = r1(VA + '::new_truncate', [inner(o[0].val)]) if o else []
    chk.ob('constructor', 'VirtAddr::new_truncate is idempotent', len(o2) == 1 and same(inner(o2[0].val), can), 'returns %r' % (o2,))
    ph = bv(64, sl('a', 0, 52), (0, 12))
    o = r1(PA + '::new_truncate', [a])
    chk.ob('constructor', 'PhysAddr::new_truncate: low 52 bits kept, rest zero', len(o) == 1 and same(inner(o[0].val), ph), 'returns %r' % (o,), fn_site(I, PA + '::new_truncate'), sample=repr(o[0].val) if o else None)
    o2 = r1(PA + '::new_truncate', [inner(o[0].val)]) if o else []
    chk.ob('constructor', 'PhysAddr::new_truncate is idempotent', len(o2) == 1 and same(inner(o2[0].val), ph), 'returns %r' % (o2,))
    for T in (VA, PA):
        o = r1(T + '::zero', [])
        chk.ob('constructor', '%s::zero = 0' % T.split('::')[-1], len(o) == 1 and inner(o[0].val).is_const() and inner(o[0].val).value() == 0, 'returns %r' % (o,))
    # checked constructors: cube cover of the valid and of the invalid inputs
    for half, fill in (('lower', 0), ('upper', 1)):
        v = BV(64, sl('a', 0, 47) + [fill] * 17)
        for fn_, okk in ((VA + '::try_new', lambda x: x.kind == 'ret' and x.val.vname == 'Ok' and same(inner(x.val.fields[0]), v)), (VA + '::new', lambda x: x.kind == 'ret' and same(inner(x.val), v))):
            o = r1(fn_, [v])
            chk.ob('checked-constructor', '%s accepts every %s-half canonical address and returns it unchanged' % (fn_.split('::', 1)[1], half), len(o) == 1 and okk(o[0]), 'paths %r' % (o,), fn_site(I, fn_))
    for j in range(48, 64):
        for b47 in (0, 1):
            bits = sl('a', 0, 64)
            bits[47] = b47
            bits[j] = 1 - b47
            v = BV(64, bits)
            o = r1(VA + '::try_new', [v])
            chk.ob('checked-constructor', 'VirtAddr::try_new rejects bit47=%d, bit%d=%d and reports the input' % (b47, j, 1 - b47),
                   bool(o) and all(x.kind == 'ret' and x.val.vname == 'Err' and same(inner(x.val.fields[0]), v) for x in o), 'paths %r' % (o,), nontrivial=(j == 48))
            o = r1(VA + '::new', [v])
            chk.ob('checked-constructor', 'VirtAddr::new panics for bit47=%d, bit%d=%d' % (b47, j, 1 - b47), bool(o) and all(x.kind == 'panic' for x in o), 'paths %r' % (o,), nontrivial=(j == 48))
    v = bv(64, sl('a', 0, 52), (0, 12))
    o = r1(PA + '::try_new', [v])
    chk.ob('checked-constructor', 'PhysAddr::try_new accepts every 52-bit address unchanged', len(o) == 1 and o[0].kind == 'ret' and o[0].val.vname == 'Ok' and same(inner(o[0].val.fields[0]), v), 'paths %r' % (o,))
    o = r1(PA + '::new', [v])
    chk.ob('checked-constructor', 'PhysAddr::new accepts every 52-bit address unchanged', len(o) == 1 and o[0].kind == 'ret' and same(inner(o[0].val), v), 'paths %r' % (o,))
    for j in range(52, 64):
        bits = sl('a', 0, 64)
        bits[j] = 1
        v2 = BV(64, bits)
        o = r1(PA + '::try_new', [v2])
        chk.ob('checked-constructor', 'PhysAddr::try_new rejects bit %d set and reports the input' % j, bool(o) and all(x.kind == 'ret' and x.val.vname == 'Err' and same(inner(x.val.fields[0]), v2) for x in o),
               'paths %r' % (o,), nontrivial=(j == 52))
        o = r1(PA + '::new', [v2])
        chk.ob('checked-constructor', 'PhysAddr::new panics for bit %d set' % j, bool(o) and all(x.kind == 'panic' for x in o), 'paths %r' % (o,), nontrivial=(j == 52))
    # PhysAddr::align_down_u64 keeps validity for any alignment (even symbolic)
    p = I.sym_value(adt(PA), 'p')
    o = r1(PA + '::align_down', [p, BV.sym(64, 'al')], {'U': {'k': 'uint', 'bits': 64, 'size': False}})
    rets = [x for x in o if x.kind == 'ret']

    def clear52(x):
        v = I.norm(x.st, inner(x.val))
        if all(b == 0 for b in v.bits[52:]):
            return True
        r = I.rng_of(x.st, v)
        return bool(r) and max(bb for _, bb in r) < (1 << 52)
    chk.ob('constructor', 'PhysAddr::align_down: bits 52..63 stay clear for every alignment', bool(rets) and all(clear52(x) for x in rets), 'paths %r' % (o,),
           fn_site(I, PA + '::align_down'))
    # from_ptr goes through new
    o = r1(VA + '::from_ptr', [BV.sym(64, 'ptr') if False else __import__('x86abs.values', fromlist=['Ptr']).Ptr(addr=BV.sym(64, 'ptr'))], {'T': {'k': 'tuple', 'elems': []}})
    rets = [x for x in o if x.kind == 'ret']
    chk.ob('constructor', 'VirtAddr::from_ptr re-validates through new (canonical on the returning path)', bool(rets) and all(canonical(inner(x.val).bits) and same(BV(47, inner(x.val).bits[:47]), BV(47, sl('ptr', 0, 47))) for x in rets) and all(x.kind == 'panic' for x in o if x not in rets),
           'paths %r' % (o,), fn_site(I, VA + '::from_ptr'))


def steps(chk):
    """every address the step functions produce is canonical: decided on the public `Step` impls of VirtAddr and Page<S> (C05's rule,
    restricted here to its validity clause)"""
    from .c05 import addr_steps
    addr_steps(chk, rules=('canonical',), rule_name='new-unsafe')


def derived(chk):
    I = chk.I
    from .common import arg_obj
    PTE = 'structures::paging::page_table::PageTableEntry'
    st = State()
    ref = arg_obj(st, 'self', Struct(PTE, [BV.sym(64, 'e')]))
    o = I.run(PTE + '::addr', [ref], st)
    chk.count('function-instances')
    lo, hi = SP.PTE_ADDR
    chk.ob('derived-address', 'PageTableEntry::addr = entry bits 12..51 (never panics)', len(o) == 1 and o[0].kind == 'ret' and same(inner(o[0].val), bv(64, (0, lo), sl('e', lo, hi), (0, 64 - hi))),
           'paths %r' % (o,), fn_site(I, PTE + '::addr'))
