"""C14 - GDT contents, selectors and limit always agree."""
from spec import descriptors as D
from spec import instructions as SI

from ..bits import BV, Aff, lit
from ..interp import State, Unsupported
from ..values import UNIT, Array, Enum, Opaque, Ptr, Ref, Struct
from .common import dtp_layout, asm_not_pure, U64, adt, arg_obj, bv, eval_value, fn_site, inner, same, sl

LEVEL = 'proof'
G = 'structures::gdt::GlobalDescriptorTable::<MAX>::'
ENTRY = 'structures::gdt::Entry'
DESC = 'structures::gdt::Descriptor'
CAPS = (1, 2, 3, 8, 9, 8192)


def entry_of(v):
    return Struct(ENTRY, [Struct('core::sync::atomic::AtomicU64', [v])])


def entry_bits(e):
    return inner(e)


def gdt_table_first(I):
    """the table's two private fields are told apart by type (an array of entries, a count), not by position"""
    for a in I.facts.get('adts', []):
        if a['name'] == 'structures::gdt::GlobalDescriptorTable' and len(a['fields']) == 2:
            return a['fields'][0]['ty'].get('k') == 'array'
    return True


def gdt_parts(v):
    a, b = v.fields
    return (a, b) if isinstance(a, Array) else (b, a)


def gdt_state(I, MAX, lo=1, hi=None):
    """a GDT with symbolic contents and 1 <= len <= MAX (the invariant every constructor and append preserves)"""
    st = State()
    st.rng['len'] = [(lo, MAX if hi is None else hi)]
    ln = I.reduce_bits(st, BV.sym(64, 'len'))
    tbl = Array('table', mk=lambda nm: entry_of(BV.sym(64, nm)), length=MAX)
    obj = Struct('structures::gdt::GlobalDescriptorTable', [tbl, ln] if gdt_table_first(I) else [ln, tbl])
    st.mem[('arg', 'self')] = obj
    return st, obj


def len_range(I, st):
    """what the path knows about `len`: its interval component refined by the bits the path fixed"""
    r = I.rng_of(st, I.norm(st, BV.sym(64, 'len')))
    return [(a, b) for a, b in r] if r else r


def L(st, k=1, c=0):
    """k * len + c as an affine form (len may have been pinned to a constant on this path)"""
    r = st.rng.get('len')
    if r and len(r) == 1 and r[0][0] == r[0][1]:
        return Aff({}, k * r[0][0] + c)
    return Aff({('len', 0, 64): k}, c)


def is_aff(I, st, v, want):
    return isinstance(v, BV) and I.aff_equal(st, I.exact_aff(st, v), want)


def run(chk):
    I = chk.I
    chk.trusted += ['spec/descriptors.py (selector and pseudo-descriptor formats)', 'x86abs interval component and array model; models of saturating_sub, size_of, slice indexing',
                    'the table lives at a canonical address']
    caps = CAPS
    for MAX in caps:
        chk.guard('gdt', 'MAX=%d' % MAX, lambda MAX=MAX: capacity(chk, MAX))
    chk.guard('gdt', 'capacity assertions', lambda: bad_capacity(chk))
    chk.guard('gdt', 'entry value and default constructors', lambda: entry_and_defaults(chk))
    chk.guard('layout', 'lgdt operand', lambda: dtp_layout(chk))
    chk.guard('asm-options', 'lgdt', lambda: asm_not_pure(chk, chk.I, 'asm-options', ['src/instructions/tables.rs'], 1))
    from .common import writers_touched
    chk.guard('who-may-modify', 'GDT state', lambda: chk.floor('functions that build or modify a GDT', writers_touched(chk, 'who-may-modify', {'structures::gdt::GlobalDescriptorTable'}, 'the table and its length'), 3))
    chk.floor('obligations', len(chk.obs), 146)


def bad_capacity(chk):
    I = chk.I
    for MAX in (0, 8193):
        o = I.run(G + 'empty', [], State(), None, {'MAX': MAX})
        chk.count('function-instances')
        chk.ob('empty', 'empty() refuses MAX = %d' % MAX, bool(o) and all(x.kind == 'panic' for x in o), 'paths %r' % (o,), fn_site(I, G + 'empty'))


def capacity(chk, MAX):
    I = chk.I
    C = {'MAX': MAX}
    tag = '<%d>' % MAX

    def r1(fn_, args, st, keep=False):
        chk.count('function-instances')
        return I.run(fn_, args, st, None, C, keep_locals=keep)
    # ---- empty
    o = r1(G + 'empty', [], State())
    ok = len(o) == 1 and o[0].kind == 'ret'
    if ok:
        t, ln = gdt_parts(o[0].val)
        ok = isinstance(t, Array) and t.length == MAX and not t.elems and t.default is not None and eval_value(entry_bits(t.default), {}) == 0 and eval_value(ln, {}) == 1
    chk.ob('empty', 'empty()%s: MAX null entries, one slot used' % tag, ok, 'paths %r' % (o,), fn_site(I, G + 'empty'))

    # ---- push: a private helper (its effect is decided through `append` below); cross-checked while it has today's shape
    st, obj = gdt_state(I, MAX)
    pf = I.fn.get(G + 'push')
    if pf is None or pf['argc'] != 2 or pf['locals'][2].get('k') != 'uint':
        o = None
    else:
        o = r1(G + 'push', [Ref(('arg', 'self')), BV.sym(64, 'v')], st)
    rets = [x for x in (o or []) if x.kind == 'ret']
    ok = o is not None and len(rets) == (1 if MAX > 1 else 0) and all(x.kind == 'panic' for x in o if x not in rets)
    if rets:
        x = rets[0]
        fin = x.st.mem[('arg', 'self')]
        t, ln = gdt_parts(fin)
        slots = list(t.elems.values())
        ok = ok and len(slots) == 1 and is_aff(I, x.st, slots[0][0], L(x.st)) and same(entry_bits(slots[0][1]), BV.sym(64, 'v'))
        ok = ok and is_aff(I, x.st, ln, L(x.st, 1, 1)) and is_aff(I, x.st, x.val, L(x.st)) and x.st.rng.get('len') == [(1, MAX - 1)]
    if o is not None:
        chk.ob('push', 'push%s writes slot[len], increments len, returns the old len; refuses a full table' % tag, ok, 'paths %r' % (o,), fn_site(I, G + 'push'))

    # ---- append
    for variant, nslots in (('UserSegment', 1), ('SystemSegment', 2)):
        for dpl in range(4):
            lo, hi = D.SEG_DESC['dpl']
            vb = sl('v', 0, 64)
            vb[lo] = dpl & 1
            vb[lo + 1] = (dpl >> 1) & 1
            fields = [BV(64, vb)] + ([BV.sym(64, 'h')] if nslots == 2 else [])
            desc = Enum(DESC, 0 if nslots == 1 else 1, variant, fields)
            st, obj = gdt_state(I, MAX)
            o = r1(G + 'append', [Ref(('arg', 'self')), desc], st)
            rets = [x for x in o if x.kind == 'ret']
            pans = [x for x in o if x.kind != 'ret']
            fits = MAX - nslots >= 1
            ok = len(rets) == (1 if fits else 0)
            if rets:
                x = rets[0]
                fin = x.st.mem[('arg', 'self')]
                t, ln = gdt_parts(fin)
                slots = sorted(t.elems.values(), key=lambda iv: 0 if is_aff(I, x.st, iv[0], L(x.st)) else 1)
                ok = ok and len(slots) == nslots and is_aff(I, x.st, slots[0][0], L(x.st)) and same(entry_bits(slots[0][1]), BV(64, vb))
                if nslots == 2 and ok:
                    ok = is_aff(I, x.st, slots[1][0], L(x.st, 1, 1)) and same(entry_bits(slots[1][1]), BV.sym(64, 'h'))
                ok = ok and is_aff(I, x.st, ln, L(x.st, 1, nslots))
                ok = ok and len_range(I, x.st) == [(1, MAX - nslots)]
                # selector: index = first slot (old len), RPL = DPL, TI = 0  ->  8 * len + DPL, no truncation
                sel = inner(x.val)
                ok = ok and sel.w == 16 and is_aff(I, x.st, sel, L(x.st, 8, dpl))
            chk.ob('append', 'append%s(%s, DPL %d): descriptor in %d consecutive slot(s) from len, len += %d, selector = (len << 3) | DPL' % (tag, variant, dpl, nslots, nslots), ok,
                   'paths %r' % (o,), fn_site(I, G + 'append'), sample={'MAX': MAX, 'variant': variant} if dpl == 0 else None)
            # non-fitting append: panics exactly when fewer than nslots free slots remain, and changes nothing
            okp = all(x.kind == 'panic' for x in pans) and bool(pans)
            for x in pans:
                okp = okp and same(x.st.mem[('arg', 'self')], I.resub(x.st, obj))
                r = len_range(I, x.st)
                okp = okp and r is not None and r == [(max(1, MAX - nslots + 1), MAX)]
            chk.ob('append', 'append%s(%s, DPL %d): panics exactly when len > MAX - %d, leaving the table unchanged' % (tag, variant, dpl, nslots), okp,
                   'panic paths %r' % ([(x.val, x.st.rng.get('len')) for x in pans],), fn_site(I, G + 'append'))

    # ---- limit / entries / pointer / load
    st, obj = gdt_state(I, MAX)
    o = r1(G + 'limit', [Ref(('arg', 'self'))], st)
    ok = len(o) == 1 and o[0].kind == 'ret'
    if ok:
        v = o[0].val
        r = I.rng_of(o[0].st, v)
        ok = v.w == 16 and is_aff(I, o[0].st, v, L(o[0].st, 8, -1)) and r and max(b for _, b in r) == 8 * MAX - 1
    chk.ob('limit', 'limit()%s = 8 * len - 1 without truncation' % tag, ok, 'paths %r' % (o,), fn_site(I, G + 'limit'))
    st, obj = gdt_state(I, MAX)
    o = r1(G + 'entries', [Ref(('arg', 'self'))], st)
    ok = len(o) == 1 and o[0].kind == 'ret' and isinstance(o[0].val, Ref) and o[0].val.loc == ('arg', 'self') and o[0].val.path[0] == (0 if gdt_table_first(I) else 1) and o[0].val.path[1][0] == 'sub' and \
        eval_value(o[0].val.path[1][1], {}) == 0 and is_aff(I, o[0].st, o[0].val.path[1][2], L(o[0].st))
    chk.ob('limit', 'entries()%s = table[..len]' % tag, ok, 'paths %r' % (o,), fn_site(I, G + 'entries'))
    for meth in ('load_unsafe', 'load'):
        st, obj = gdt_state(I, MAX)
        o = r1(G + meth, [Ref(('arg', 'self'))], st)
        rets = [x for x in o if x.kind == 'ret']
        ok = len(rets) == 1
        detail = 'paths %r' % (o,)
        if ok:
            asms = [e for e in rets[0].st.events if e[0] == 'asm']
            ok = len(asms) == 1 and SI.insns(asms[0][1]) == ['lgdt [{0}]'] and len(asms[0][2]) == 1 and asms[0][2][0]['k'] == 'in'
            if ok:
                p = asms[0][2][0].get('pointee')
                dl = [l for l in chk.facts['layouts'] if l['tys'] == 'structures::DescriptorTablePointer'][0]
                fi = {f['name']: i for i, f in enumerate(dl['fields'])}
                lim, base = p.fields[fi['limit']], inner(p.fields[fi['base']])
                a = 'addr(arg:self.%d[0])' % (0 if gdt_table_first(I) else 1)
                ok = is_aff(I, rets[0].st, lim, L(rets[0].st, 8, -1)) and same(base, BV(64, sl(a, 0, 48) + [lit(a, 47)] * 16))
                detail = 'pointer {limit %r, base %r}' % (lim, base)
        chk.ob('load', '%s%s executes one `lgdt` on {limit(), address of table[0]}' % (meth, tag), ok, detail, fn_site(I, G + meth))

    # ---- from_raw_entries
    st = State()
    st.rng['n'] = [(0, (1 << 64) - 1)]
    st.mem[('arg', 'slice')] = Array('raw', mk=lambda nm: BV.sym(64, nm), length=BV.sym(64, 'n'))
    fn_ = G + 'from_raw_entries'
    saved_unroll = I.unroll_limit
    I.unroll_limit = 0      # this rule reads the loop's summary (header state, one iteration, exit), for every MAX alike
    try:
        o = r1(fn_, [Ref(('arg', 'slice'))], st, keep=True)
    finally:
        I.unroll_limit = saved_unroll
    f = I.fn[fn_]
    byname = {v: int(k) for k, v in f['dbg'].items()}
    # the loop counter and the table under construction are found by what they hold, not by their names: at the loop header the counter is
    # the integer local that is 0, the table the local holding an array
    for x in o:
        if x.kind != 'loop':
            continue
        hd = [e for e in x.st.events if e[0] == 'loop-head' and e[1] == fn_]
        if not hd:
            continue
        for li, v in hd[0][4].items():
            if isinstance(v, BV) and v.is_const() and v.value() == 0 and v.w == 64:
                byname.setdefault('idx?', [])
                byname['idx?'].append(int(li))
            if isinstance(v, Array) and not v.elems:
                byname['table'] = int(li)
        cands = byname.pop('idx?', [])
        for li in cands:
            after = x.st.mem.get(('L', x.frame, li))
            if isinstance(after, BV) and not (after.is_const() and after.value() == 0):
                byname['idx'] = li
        break
    rets = [x for x in o if x.kind == 'ret']
    loops = [x for x in o if x.kind == 'loop']
    pans = [x for x in o if x.kind == 'panic']
    # (a debug-only check forks the paths by build profile: every loop path and every exit path must satisfy the rule)
    ok = len(rets) >= 1 and len(loops) >= 1
    detail = 'paths %r' % ([(x.kind, x.val if x.kind != 'ret' else '') for x in o],)
    for lp in (loops if ok else []):
        head = [e for e in lp.st.events if e[0] == 'loop-head' and e[1] == fn_]
        before = head[0][4] if head else {}
        idx0 = before.get(byname.get('idx'))
        tbl0 = before.get(byname.get('table'))
        ok = ok and idx0 is not None and eval_value(idx0, {}) == 0 and isinstance(tbl0, Array) and not tbl0.elems and eval_value(entry_bits(tbl0.default), {}) == 0
        detail = 'before the loop: idx = %r, table = %r' % (idx0, tbl0)
        # preconditions established before the loop: n >= 1, raw[0] == 0, n <= MAX
        rn = lp.st.rng.get('n')
        first = lp.st.mem[('arg', 'slice')].elems.get(BV.const(64, 0).key())
        ok = ok and rn is not None and min(a for a, _ in rn) >= 1 and max(b for _, b in rn) <= MAX and first is not None and eval_value(first[1], {}) == 0
        detail += '; n in %r, raw[0] = %r' % (rn, first and first[1])
        # one iteration: table[idx] = Entry(raw[idx]); idx += 1
        fr = lp.frame
        tbl = lp.st.mem.get(('L', fr, byname['table']))
        idxv = lp.st.mem.get(('L', fr, byname['idx']))
        okb = isinstance(tbl, Array) and len(tbl.elems) == 1
        if okb:
            (ik, (iv, ev)), = tbl.elems.items()
            lname = I.sym_of(iv)
            src = lp.st.mem[('arg', 'slice')].elems.get(iv.key())
            okb = (iv.is_const() or (lname is not None and lname.startswith('loop'))) and src is not None and same(entry_bits(ev), src[1])
            ai = I.exact_aff(lp.st, iv)
            okb = okb and ai is not None and I.aff_equal(lp.st, I.exact_aff(lp.st, idxv), ai.add(Aff({}, 1)))
        ok = ok and okb
        detail += '; iteration: table %r idx %r' % (tbl, idxv)
    for rt in (rets if ok else []):
        # exit: returns {table, len = n}
        rv = rt.val
        ok = ok and same(gdt_parts(rv)[1], I.resub(rt.st, BV.sym(64, 'n')))
        tl = rt.st.mem.get(('L', rt.frame, byname['table']))
        ok = ok and gdt_parts(rv)[0] is tl
    chk.ob('from-raw', 'from_raw_entries%s: asserts (non-empty, first entry zero, len <= MAX) precede a loop from 0 that copies raw[idx] into slot idx; result len = slice length' % tag, ok, detail, fn_site(I, fn_))
    chk.ob('from-raw', 'from_raw_entries%s: panic paths are the three assertions (and unreachable bounds checks)' % tag, bool(pans) and all(x.kind == 'panic' for x in pans), 'paths %r' % ([x.val for x in pans],), fn_site(I, fn_))


def entry_and_defaults(chk):
    """gdt::Entry is a transparent holder of the 64-bit descriptor word (raw / clone / eq); GlobalDescriptorTable::new and Default are
    `empty()` of the default capacity"""
    I = chk.I
    e = mk_entry(BV.sym(64, 'w')) if 'mk_entry' in globals() else Struct(ENTRY, [Struct('core::sync::atomic::AtomicU64', [BV.sym(64, 'w')])])
    st = State()
    ref = arg_obj(st, 'self', e)
    o = I.run(ENTRY + '::raw', [ref], st)
    chk.count('function-instances')
    chk.ob('entry-value', 'gdt::Entry::raw returns the stored word', len(o) == 1 and o[0].kind == 'ret' and same(o[0].val, BV.sym(64, 'w')), 'paths %r' % (o,), fn_site(I, ENTRY + '::raw'))
    fn_ = '<%s as core::clone::Clone>::clone' % ENTRY
    st = State()
    ref = arg_obj(st, 'self', e)
    o = I.run(fn_, [ref], st)
    chk.count('function-instances')
    chk.ob('entry-value', 'gdt::Entry::clone holds the same word', len(o) == 1 and o[0].kind == 'ret' and same(entry_bits(o[0].val), BV.sym(64, 'w')), 'paths %r' % (o,), fn_site(I, fn_))
    fn_ = '<%s as core::cmp::PartialEq>::eq' % ENTRY
    st = State()
    a = arg_obj(st, 'a', e)
    b = arg_obj(st, 'b', Struct(ENTRY, [Struct('core::sync::atomic::AtomicU64', [BV.sym(64, 'v')])]))
    o = I.run(fn_, [a, b], st)
    chk.count('function-instances')
    from ..bits import eq_bit
    want = BV(1, [eq_bit(tuple(sl('w', 0, 64)), tuple(sl('v', 0, 64)))])
    chk.ob('entry-value', 'gdt::Entry::eq is equality of the two words', len(o) == 1 and o[0].kind == 'ret' and same(o[0].val, want), 'paths %r' % (o,), fn_site(I, fn_))
    # new() / default(): delegate to empty()
    saved = set(I.opaque_fns)
    I.opaque_fns |= {G + 'empty'}
    try:
        for fn_ in ('structures::gdt::GlobalDescriptorTable::new', '<structures::gdt::GlobalDescriptorTable as core::default::Default>::default'):
            if fn_ not in I.fn:
                chk.unproven('gdt', fn_.split('::')[-1], 'function not found (anchor lost)')
                continue
            o = I.run(fn_, [], State())
            chk.count('function-instances')
            calls = [ev for ev in o[0].st.events if ev[0] == 'call'] if len(o) == 1 else []
            ok = len(o) == 1 and o[0].kind == 'ret' and len(calls) == 1 and calls[0][1] == G + 'empty' and ('empty#%d' % calls[0][5]) in repr(o[0].val)
            chk.ob('gdt', '%s is empty()' % fn_.replace('structures::gdt::', ''), ok, 'paths %r calls %r' % (o, [c[1] for c in calls]), fn_site(I, fn_))
    finally:
        I.opaque_fns = saved
