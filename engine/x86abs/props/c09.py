"""C09 - mappers touch only page-table memory, zero new tables, allocate only as needed."""
from spec import mapper as SM

from ..bits import BV
from ..mirwalk import call_graph, callees, is_user_fn, raw_deref_sites, reaches
from .c01 import IMPLS, OPS, SIZES3, lbl
from .c02 import guards
from .mapper import MP, MapperLab, flag_args, impl_fn, map_args

LEVEL = 'other'
ALLOC = 'structures::paging::FrameAllocator::allocate_frame'
DEALLOC = 'structures::paging::FrameDeallocator::deallocate_frame'


def run(chk):
    chk.trusted += ['spec/mapper.py, spec/paging.py', 'C20: the recursive addresses denote the page\'s level-3/2/1 tables', 
                    'frame_to_pointer maps a table frame to that table\'s memory (the PageTableFrameMapping contract)']
    chk.explanation = ('Decided: (D1) raw-pointer dereferences in the mapper modules occur only in the three walker primitives and in RecursivePageTable operations; on every path of every '
                       'operation each dereferenced pointer is frame_to_pointer(frame of a tested entry) or a recursive table address of known level, and is guarded by present/huge-page checks of '
                       'the parent entry, so a data frame is never walked as a table; no ptr::read/write/copy, transmute or from_raw_parts is used; (D2) on every path a table linked into a slot '
                       'after a successful allocation is zeroed before any of its slots is tested or written; (D3) allocate_frame is called only from the two create_next_table functions, only '
                       'after the slot tested unused, at most 1/2/3 times per 1 GiB/2 MiB/4 KiB map_to and never by another operation; deallocate_frame is reachable only from clean_up; '
                       '(D4) every write in mapper code goes to a page-table slot. Not decided: the byte-level statement about physical memory and the behaviour of the allocator.')
    lab = MapperLab(chk)
    # what `zero()` (an event in the path rules below) does to a table: every one of the 512 slots is cleared
    from .c08 import iter_rules
    from ..interp import State

    def r1(fn_, args, st=None, sub=None):
        chk.count('function-instances')
        return chk.I.run(fn_, args, st if st is not None else State(), sub)
    chk.guard('iter', 'PageTable::zero / iter_mut', lambda: iter_rules(chk, chk.I, r1))
    # the pointers OffsetPageTable dereferences: frame_to_pointer of its PhysOffset mapping is offset + frame address
    from .c01 import phys_offset_rule
    chk.guard('who-may-dereference', 'PhysOffset::frame_to_pointer', lambda: phys_offset_rule(chk, chk.I, 'who-may-dereference'))
    runs = {}
    for impl in IMPLS:
        for size in SIZES3:
            for op, extra in OPS:
                chk.guard('run', '%s %s %s' % (impl, size, op), lambda impl=impl, size=size, op=op, extra=extra: runs.__setitem__((impl, size, op), lab.run(impl, size, op, extra)))
        chk.guard('run', '%s translate' % impl, lambda impl=impl: runs.__setitem__((impl, None, 'translate'), lab.run(impl, None, 'translate')))
    chk.floor('operation instances analysed', len(runs), 44)
    for key, (fn_, pss) in sorted(runs.items(), key=lambda kv: repr(kv[0])):
        site = lab.I.fn[fn_]['loc']
        chk.guard('path-rules', repr(key), lambda: path_rules(chk, lab, key, pss, site))
    # the clean-up helpers (they dereference child tables too): C10's structural rules, run here as well
    from . import c10

    def cleanup_rules():
        for impl in ('mapped', 'recursive'):
            c10.helper(chk, impl)
            c10.entry_points(chk, impl)
    chk.guard('clean-up', 'clean_up helpers', cleanup_rules)
    chk.guard('census', 'raw dereferences', lambda: census(chk, lab))


def census(chk, lab):
    facts = chk.facts
    n_sites = 0
    analysed = set()
    for impl in IMPLS:
        for size in SIZES3:
            for op, _ in OPS:
                analysed.add(impl_fn(impl, size, op))
        analysed.add(impl_fn(impl, None, 'translate'))
    # Every function of the mapper modules that dereferences a raw pointer must have been entered by the path analysis of the operations
    # (mapper operations above, clean-up helpers through C10's rules): then each of its dereference sites was met on a path and judged by
    # the guard rules (pointer = frame_to_pointer of a tested entry / recursive table address of known level, parent entry checked). The
    # rule names no private function, so helpers can be split, merged or renamed.
    from ..interp import Interp
    entered = set(Interp.TOUCHED)
    for f in facts['fns']:
        if 'structures::paging::mapper' not in f['name'] or not is_user_fn(f):
            continue
        n = raw_deref_sites(f)
        if not n:
            continue
        n_sites += n
        nm = f['name']
        chk.ob('who-may-dereference', '%s dereferences raw table pointers (%d sites): entered and judged by the path rules' % (nm.split('mapper::')[1][:100], n), nm in entered,
               'this function dereferences a raw pointer but no analysed operation reaches it', f['loc'], nontrivial=False)
    chk.floor('raw dereference sites in the mapper modules', n_sites, 29)
    # no other way to touch memory
    bad = []
    for f in facts['fns']:
        if 'structures::paging::mapper' not in f['name'] or not is_user_fn(f):
            continue
        for bi, c, target, loc in callees(f):
            t = target or c['name']
            if t.startswith('core::ptr::read') or t.startswith('core::ptr::write') or 'copy_nonoverlapping' in t or 'transmute' in t or 'from_raw_parts' in t or t.startswith('core::ptr::mut_ptr::<impl *mut T>::write') \
                    or t.startswith('core::intrinsics::'):
                bad.append((f['name'], t))
        for b in f['blocks']:
            for s in b['s']:
                if s['k'] == 'assign' and s['rv']['k'] == 'cast' and s['rv'].get('kind') == 'Transmute':
                    bad.append((f['name'], 'transmute'))
    chk.ob('who-may-dereference', 'no ptr::read/write/copy, transmute or from_raw_parts in the mapper modules', not bad, 'found %r' % (bad[:4],))
    # positive control for the detector: PageTable::iter_mut's closure dereferences ptr.add(i)
    ctrl = [f for f in facts['fns'] if f['name'].startswith('structures::paging::page_table::PageTable::iter_mut::{closure')]
    chk.ob('who-may-dereference', 'positive control: the raw-dereference detector fires on PageTable::iter_mut', bool(ctrl) and raw_deref_sites(ctrl[0]) >= 1, 'control functions %d' % len(ctrl), nontrivial=False)
    # allocation discipline: who may call the allocator
    callers_a, callers_d = set(), set()
    for f in facts['fns']:
        if not is_user_fn(f):
            continue
        for bi, c, target, loc in callees(f):
            if c['name'] == ALLOC:
                callers_a.add(f['name'])
            if c['name'] == DEALLOC:
                callers_d.add(f['name'])
    g = call_graph(facts)
    # who may reach the allocator at all: only code under map_to*; who may reach the deallocator: only code under CleanUp::clean_up*
    roots_a = [n for n in lab.I.fn if is_user_fn(lab.I.fn[n]) and reaches(g, n, lambda y: y == ALLOC)]
    roots_d = [n for n in lab.I.fn if is_user_fn(lab.I.fn[n]) and reaches(g, n, lambda y: y == DEALLOC)]
    pub_a = [n for n in roots_a if 'Public' in (lab.I.fn[n].get('vis') or '') or ' as ' in n]
    pub_d = [n for n in roots_d if 'Public' in (lab.I.fn[n].get('vis') or '') or ' as ' in n]
    chk.ob('allocation-discipline', 'allocate_frame is reachable only from map_to / identity_map entry points', bool(callers_a) and all(('map_to' in n.split('::')[-1]) or ('identity_map' in n.split('::')[-1]) for n in pub_a),
           'public entry points reaching it: %r' % (sorted(x.split('::')[-1] for x in pub_a),))
    chk.ob('allocation-discipline', 'deallocate_frame is reachable only from the CleanUp entry points', bool(callers_d) and all('clean_up' in n.split('::')[-1] for n in pub_d),
           'public entry points reaching it: %r' % (sorted(x.split('::')[-1] for x in pub_d),))
    for impl in IMPLS:
        for size in SIZES3:
            for op, _ in OPS:
                fn_ = impl_fn(impl, size, op)
                ra = reaches(g, fn_, lambda y: y == ALLOC)
                rd = reaches(g, fn_, lambda y: y == DEALLOC)
                chk.ob('allocation-discipline', '%s: reaches allocate_frame %s, never deallocate_frame' % (lbl((impl, size, op)), 'only as map_to' if op.startswith('map_to') else 'never'),
                       ra == op.startswith('map_to') and not rd, 'reaches allocate=%s deallocate=%s' % (ra, rd), nontrivial=False)
        fn_ = impl_fn(impl, None, 'translate')
        chk.ob('allocation-discipline', '%s: never reaches the allocator' % lbl((impl, None, 'translate')), not reaches(g, fn_, lambda y: y in (ALLOC, DEALLOC)), '', nontrivial=False)


def path_rules(chk, lab, key, pss, site):
    impl, size, op = key
    guards(chk, lab, key, pss, site)
    bad_prov = set()
    bad_zero = set()
    bad_alloc = set()
    bad_write = set()
    max_alloc = 0
    for ps in pss:
        n_alloc = 0
        fresh = {}      # table key -> zeroed?
        for i, s in enumerate(ps.steps):
            if s.k == 'deref':
                if s.by not in ('frame_to_pointer', 'address') or s.level is None:
                    bad_prov.add('dereference of %s (obtained by %s)' % (s.table[:50], s.by))
            elif s.k == 'alloc':
                n_alloc += 1
                # only after the slot it fills tested unused
                prev = [t for t in ps.steps[:i] if t.k == 'test']
                if not prev or not (prev[-1].what == 'unused' and prev[-1].res == 1):
                    bad_alloc.add('allocate_frame not preceded by an unused test of the slot')
            elif s.k == 'to-pointer' and s.parent is not None:
                # is the parent slot holding a freshly allocated frame?
                tk, iv = s.parent
                last = [t for t in ps.steps[:i] if t.k == 'write' and t.table == tk and t.idx.key() == iv.key()]
                if last and isinstance(last[-1].new, BV) and any(isinstance(b, tuple) and b[0] == 'v' and b[1].startswith('allocate_frame#') for b in last[-1].new.bits[12:52]):
                    fresh[s.table] = False
            elif s.k == 'deref' and s.by == 'address':
                pass
            elif s.k == 'zero':
                if s.table in fresh:
                    fresh[s.table] = True
            elif s.k in ('test', 'write') and s.table in fresh and not fresh[s.table]:
                bad_zero.add('slot of a freshly allocated level-%s table used before the table is zeroed' % s.level)
            elif s.k == 'write-other':
                bad_write.add('write to %r' % (s.ref,))
            elif s.k == 'dealloc':
                bad_alloc.add('deallocate_frame called')
        # recursive mapper: the fresh table is reached by address; it must be zeroed before use as well
        if impl == 'recursive' and op.startswith('map_to'):
            for i, s in enumerate(ps.steps):
                if s.k == 'alloc-result' and s.some:
                    # the next dereference is the new table
                    nxt = [t for t in ps.steps[i:] if t.k == 'deref']
                    if nxt:
                        tkey = nxt[0].table
                        j = ps.steps.index(nxt[0])
                        used = [t for t in ps.steps[j:] if t.k in ('test', 'write', 'zero') and getattr(t, 'table', None) == tkey]
                        if used and used[0].k != 'zero':
                            bad_zero.add('slot of a freshly allocated level-%s table used before the table is zeroed' % nxt[0].level)
                        if not used and ps.kind == 'ret':
                            bad_zero.add('freshly allocated level-%s table is never zeroed' % nxt[0].level)
        if impl == 'mapped' and op.startswith('map_to'):
            for tk, z in fresh.items():
                if not z and ps.kind == 'ret':
                    bad_zero.add('freshly allocated table is never zeroed')
        max_alloc = max(max_alloc, n_alloc)
    chk.ob('pointer-provenance', '%s: dereferenced pointers are frame_to_pointer(entry frame) or recursive table addresses' % lbl(key), not bad_prov, '; '.join(sorted(bad_prov)), site)
    chk.ob('writes-to-slots-only', '%s: every write goes to a page-table slot' % lbl(key), not bad_write, '; '.join(sorted(bad_write)), site)
    if op.startswith('map_to'):
        chk.ob('zero-before-use', '%s: a newly linked table is zeroed before any of its slots is used' % lbl(key), not bad_zero, '; '.join(sorted(bad_zero)), site)
        want = 4 - SM.LEAF_LEVEL[size]
        chk.ob('allocation-discipline', '%s: at most %d allocations on any path, each after the slot tested unused' % (lbl(key), want), max_alloc == want and not bad_alloc,
               'max %d; %s' % (max_alloc, '; '.join(sorted(bad_alloc))), site)
    else:
        chk.ob('allocation-discipline', '%s: no path requests or releases a frame' % lbl(key), max_alloc == 0 and not bad_alloc, 'max %d; %s' % (max_alloc, '; '.join(sorted(bad_alloc))), site)
