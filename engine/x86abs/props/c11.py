"""C11 - mapping changes name the page to flush, and flushes invalidate exactly that."""
from spec import instructions as SI
from spec import mapper as SM
from spec import registers as SR

from ..bits import BV, lit
from ..interp import State, Unsupported
from ..values import UNIT, Enum, Opaque, Ptr, Ref, Struct
from .common import asm_not_pure, SIZES, U16, adt, arg_obj, bv, enum_val, eval_value, fn_site, inner, same, size_ty, sl
from .c01 import IMPLS, OPS, SIZES3, lbl
from .c16 import decode, shape
from .mapper import MP, PG, MapperLab, flag_args, map_args

LEVEL = 'other'
TLB = 'instructions::tlb::'
OPT = 'core::option::Option'

# INVPCID types (Intel SDM 2A "INVPCID"): 0 individual address, 1 single context, 2 all contexts incl. globals,
# 3 all contexts except globals; descriptor: PCID in bits 0..11 of the first quadword, linear address in the second
INVPCID_KIND = {'Address': 0, 'Single': 1, 'All': 2, 'AllExceptGlobal': 3}
# INVLPGB (AMD APM 3): rAX[0] VA valid, [1] PCID valid, [2] ASID valid, [3] include global, [4] final translation only,
# [5] include nested; rAX[63:12] VA; ECX[15:0] number of additional pages, ECX[31] 2 MiB stride; EDX[15:0] ASID, EDX[27:16] PCID
RAX_VA, RAX_PCID, RAX_ASID, RAX_GLOBAL, RAX_FINAL, RAX_NESTED = 0, 1, 2, 3, 4, 5


def some(v):
    return Enum(OPT, 1, 'Some', [v])


def none():
    return Enum(OPT, 0, 'None')


def run(chk):
    chk.trusted += ['spec (INVLPG / INVPCID / INVLPGB operand conventions from Intel SDM 2 and AMD APM 3)', 'C16: Cr3::read / Cr3::write', 'C01/C02 path summariser']
    chk.explanation = ('Decided: (D1) every successful leaf operation of both walkers returns MapperFlush(the page argument) and every parent-entry operation MapperFlushAll; (D2) MapperFlush::flush '
                       'executes one `invlpg` on the stored page\'s start address, page() returns it, flush_all reads CR3 and writes back the same frame and flag bits; (D3) flush_pcid executes one '
                       '`invpcid` with the architectural type number per command and a descriptor {PCID, address}; (D4) flush_broadcast encodes rax/ecx/edx bit-exactly for all 8 Option shapes x '
                       '{4 KiB, 2 MiB}, the builder setters store their arguments and asid() rejects values >= nasid; (D5, structural) in InvlpgbFlushBuilder::flush every request\'s count is '
                       'min(u16 conversion of the remaining pages, invlpgb_count_max), clamped to the distance to the upper half while the start is in the lower half, the range advances by '
                       'max(count, 1) pages, and with no range a single request without address is issued. Not decided: that the requests together cover every page of the range and never '
                       'extend across the gap (loop arithmetic over values, including the "count = additional pages" convention).')
    lab = MapperLab(chk)
    chk.guard('flush-token', 'mapper results', lambda: tokens(chk, lab))
    chk.guard('flush', 'MapperFlush / MapperFlushAll', lambda: flush_ops(chk))
    # entries that are neither all-zero nor PRESENT (left by update_flags without PRESENT): a failing call may not change such a leaf
    # either - there is no token to flush it with. C02's write discipline for arbitrary entry contents, under this property's name
    from .c02 import stale_entries
    chk.guard('flush-token', 'arbitrary entry contents', lambda: stale_entries(chk, 'flush-token'))
    chk.guard('invpcid', 'flush_pcid', lambda: pcid(chk))
    chk.guard('invlpgb', 'flush_broadcast', lambda: broadcast(chk))
    chk.guard('invlpgb', 'builder', lambda: builder(chk))
    chk.guard('invlpgb', 'Invlpgb object', lambda: invlpgb_object(chk))
    chk.guard('flush-token', 'ignore', lambda: ignore_tokens(chk))
    chk.guard('invlpgb', 'flush loop', lambda: flush_loop(chk))
    # the loop measures and advances its range with the page stepping functions (opaque in the loop rule above): their own rules - exact
    # distances and steps for every page size, across the gap - are C05's and are run here
    from . import c05
    chk.guard('page-steps', 'exact steps', lambda: c05.addr_steps(chk))
    chk.guard('page-steps', 'exact distances', lambda: c05.steps_between(chk))
    chk.guard('asm-options', 'tlb.rs', lambda: asm_not_pure(chk, chk.I, 'asm-options', ['src/instructions/tlb.rs'], 7))
    chk.floor('obligations', len(chk.obs), 74)


def tokens(chk, lab):
    I = lab.I
    n = 0
    for impl in IMPLS:
        for size in SIZES3:
            page = inner(I.sym_value(adt(PG, size_ty(size)), 'page'))
            for op, extra in OPS:
                if op == 'translate_page':
                    continue
                fn_, pss = lab.run(impl, size, op, extra)
                oks = [ps for ps in pss if ps.result()[0] == 'Ok']
                if not oks:
                    continue
                if not op.startswith('set_flags_p'):
                    # the token names *the page whose mapping changed*: every slot a successful call writes is the slot of the argument page
                    # (each level's table indexed by that page's own index), and a path that hands out no token has not changed the leaf
                    leaf = SM.LEAF_LEVEL[size]
                    other, silent = set(), set()
                    for ps in pss:
                        res = ps.result()
                        for st_ in ps.steps:
                            if st_.k != 'write':
                                continue
                            if res[0] == 'Ok' and (st_.level is None or not lab.index_ok(st_.level, st_.idx, 'page', size)):
                                other.add('level-%s slot indexed by %r' % (st_.level, st_.idx))
                            if res[0] != 'Ok' and st_.level == leaf:
                                silent.add('%r path writes the level-%d slot' % (res, leaf))
                    chk.ob('flush-token', '%s: the slots a successful call writes are the argument page\'s own' % lbl((impl, size, op)), not other, '; '.join(sorted(other)), I.fn[fn_]['loc'])
                    chk.ob('flush-token', '%s: no leaf mapping changes on a path that returns no token' % lbl((impl, size, op)), not silent, '; '.join(sorted(silent)), I.fn[fn_]['loc'])
                good = True
                for ps in oks:
                    v = ps.result()[1]
                    if op == 'unmap':
                        v = v.fields[1]
                    if op.startswith('set_flags_p'):
                        good = good and isinstance(v, Struct) and v.name.endswith('MapperFlushAll')
                    else:
                        good = good and isinstance(v, Struct) and v.name.endswith('MapperFlush') and same(inner(v), page)
                n += 1
                chk.ob('flush-token', '%s returns %s' % (lbl((impl, size, op)), 'MapperFlushAll' if op.startswith('set_flags_p') else 'MapperFlush(the page argument)'), good,
                       'Ok results %r' % ([ps.result()[1] for ps in oks][:2],), I.fn[fn_]['loc'])
    chk.floor('successful operation kinds checked for their flush token', n, 30)


def flush_ops(chk):
    I = chk.I
    for size in SIZES3:
        S = size_ty(size)
        pg = I.sym_value(adt(PG, S), 'page')
        tok = Struct(MP + 'MapperFlush', [pg])
        outs = I.run(MP + 'MapperFlush::<S>::flush', [tok], State(), {'S': S})
        chk.count('function-instances')
        ok = len(outs) == 1 and outs[0].kind == 'ret'
        if ok:
            asms = [e for e in outs[0].st.events if e[0] == 'asm']
            ok = len(asms) == 1 and SI.insns(asms[0][1]) == ['invlpg [{0}]'] and len(asms[0][2]) == 1 and asms[0][2][0]['k'] == 'in' and same(asms[0][2][0]['v'], inner(pg))
        chk.ob('flush', 'MapperFlush<%s>::flush executes one `invlpg` on the page\'s start address' % size, ok, 'paths %r' % (outs,), fn_site(I, MP + 'MapperFlush::<S>::flush'))
        st = State()
        ref = arg_obj(st, 'self', tok)
        outs = I.run(MP + 'MapperFlush::<S>::page', [ref], st, {'S': S})
        chk.ob('flush', 'MapperFlush<%s>::page returns the stored page' % size, len(outs) == 1 and same(outs[0].val, pg), 'paths %r' % (outs,))
        outs = I.run(MP + 'MapperFlush::<S>::new', [pg], State(), {'S': S})
        chk.ob('flush', 'MapperFlush<%s>::new stores the page' % size, len(outs) == 1 and same(inner(outs[0].val), inner(pg)), 'paths %r' % (outs,))
    outs = I.run(TLB + 'flush', [I.sym_value(adt('addr::VirtAddr'), 'a')], State())
    ok = len(outs) == 1 and outs[0].kind == 'ret'
    if ok:
        asms = [e for e in outs[0].st.events if e[0] == 'asm']
        ok = len(asms) == 1 and SI.insns(asms[0][1]) == ['invlpg [{0}]'] and same(asms[0][2][0]['v'], inner(I.sym_value(adt('addr::VirtAddr'), 'a'))) and len(asms[0][2]) == 1
    chk.ob('flush', 'tlb::flush executes one `invlpg` on exactly the given address', ok, 'paths %r' % (outs,), fn_site(I, TLB + 'flush'))
    # flush_all: CR3 read, then write of the same frame and flag bits
    for fn_ in (TLB + 'flush_all', MP + 'MapperFlushAll::flush_all'):
        args = [] if fn_.startswith(TLB) else [Struct(MP + 'MapperFlushAll', [UNIT])]
        outs = I.run(fn_, args, State())
        chk.count('function-instances')
        ok = len(outs) == 1 and outs[0].kind == 'ret'
        if ok:
            acc = decode(outs[0])
            ok = shape(acc) == [('read', 'cr3'), ('write', 'cr3')]
            if ok:
                v, wv = acc[0].value, acc[1].value
                allb = I.flags_all('registers::control::Cr3Flags')
                lo, hi = SR.CR3_FRAME
                ok = all(wv.bits[i] == v.bits[i] for i in range(lo, hi)) and all(wv.bits[i] == v.bits[i] for i in range(12) if (allb >> i) & 1) and wv.bits[63] == 0
        chk.ob('flush', '%s reloads CR3 with the frame and flag bits it just read' % fn_.split('::')[-2 if 'MapperFlushAll' in fn_ else -1].replace('tlb', 'tlb::flush_all'), ok, 'paths %r' % (outs,), fn_site(I, fn_))


def pcid(chk):
    I = chk.I
    fn_ = TLB + 'flush_pcid'
    CMD = TLB + 'InvPcidCommand'
    lay = [l for l in chk.facts['layouts'] if l['tys'] == TLB + 'InvpcidDescriptor']
    # the 16-byte INVPCID descriptor: PCID in the quadword at byte 0, linear address in the quadword at byte 8 (field names are private)
    ok = bool(lay) and lay[0]['size'] == 16 and sorted((f['off'], f['size']) for f in lay[0]['fields']) == [(0, 8), (8, 8)]
    chk.ob('invpcid', 'InvpcidDescriptor = two quadwords (PCID @0, address @8), 16 bytes', ok, 'layout %r' % (lay and lay[0]['fields'],))
    fi = {('pcid' if f['off'] == 0 else 'address'): i for i, f in enumerate(lay[0]['fields'])} if ok else {'pcid': 0, 'address': 1}
    va = I.sym_value(adt('addr::VirtAddr'), 'a')
    pc = I.sym_value(adt(TLB + 'Pcid'), 'pc')
    vs = I.enum_variants(adt(CMD))
    cases = {'Address': [va, pc], 'Single': [pc], 'All': [], 'AllExceptGlobal': []}
    for i, (vn, d, nf) in enumerate(vs):
        cmd = Enum(CMD, i, vn, cases[vn])
        outs = I.run(fn_, [cmd], State())
        chk.count('function-instances')
        ok = len(outs) == 1 and outs[0].kind == 'ret'
        detail = 'paths %r' % (outs,)
        if ok:
            asms = [e for e in outs[0].st.events if e[0] == 'asm']
            ok = len(asms) == 1 and SI.insns(asms[0][1]) == ['invpcid {0}, [{1}]'] and len(asms[0][2]) == 2
            if ok:
                kind, dptr = asms[0][2]
                desc = dptr.get('pointee')
                want_pcid = bv(64, sl('pc', 0, 12), (0, 52)) if vn in ('Address', 'Single') else BV.const(64, 0)
                want_addr = inner(va) if vn == 'Address' else BV.const(64, 0)
                ok = eval_value(kind['v'], {}) == INVPCID_KIND[vn] and isinstance(desc, Struct) and same(desc.fields[fi['pcid']], want_pcid) and same(desc.fields[fi['address']], want_addr)
                detail = 'type %r descriptor %r' % (kind['v'], desc)
        chk.ob('invpcid', 'flush_pcid(%s): one `invpcid` of type %d with descriptor {PCID%s, address%s}' % (vn, INVPCID_KIND[vn], '' if vn in ('Address', 'Single') else ' = 0', '' if vn == 'Address' else ' = 0'),
               ok, detail, fn_site(I, fn_))


def decode_invlpgb(e):
    """the request an `invlpgb` asm event hands to the CPU (AMD APM vol. 3, INVLPGB): rax[0] = address valid, [1] = PCID valid, [2] = ASID valid,
    [3] = include global, [4] = final translation only, [5] = include nested, [12..] = virtual address; ecx[15:0] = page count, ecx[31] = 2 MiB
    stride; edx[15:0] = ASID, edx[27:16] = PCID"""
    if SI.insns(e[1]) != ['invlpgb'] or len(e[2]) != 3:
        return None
    regs = {x['reg'].split('(')[-1].strip(')'): x['v'] for x in e[2] if x['k'] == 'in'}
    if set(regs) != {'ax', 'cx', 'dx'} or regs['ax'].w != 64 or regs['cx'].w != 32 or regs['dx'].w != 32:
        return None
    ax, cx, dx = regs['ax'].bits, regs['cx'].bits, regs['dx'].bits
    return {'va_valid': ax[0], 'pcid_valid': ax[1], 'asid_valid': ax[2], 'g': ax[3], 'f': ax[4], 'n': ax[5], 'rax_rsvd': tuple(ax[6:12]), 'va': BV(64, [0] * 12 + list(ax[12:64])),
            'count': BV(16, list(cx[0:16])), 'ecx_rsvd': tuple(cx[16:31]), 'stride_2m': cx[31], 'asid': BV(16, list(dx[0:16])), 'pcid': BV(12, list(dx[16:28])), 'edx_rsvd': tuple(dx[28:32])}


def request_carries(I, st, r, b, has_pc, has_as):
    """the decoded request carries the builder's PCID / ASID / option fields and nothing else"""
    pc = inner(b.fields[2].fields[0]) if has_pc else None
    asid = b.fields[3].fields[0] if has_as else None
    ok = r['pcid_valid'] == (1 if has_pc else 0) and r['asid_valid'] == (1 if has_as else 0)
    ok = ok and same(I.resub(st, r['pcid']), BV(12, list(I.resub(st, pc).bits[:12])) if has_pc else BV.const(12, 0))
    ok = ok and same(I.resub(st, r['asid']), I.resub(st, asid) if has_as else BV.const(16, 0))
    ok = ok and all(same(BV(1, [r[k]]), I.resub(st, b.fields[i])) for k, i in (('g', 4), ('f', 5), ('n', 6)))
    ok = ok and all(x == 0 for x in r['rax_rsvd'] + r['ecx_rsvd'] + r['edx_rsvd'])
    return ok


def broadcast(chk):
    """the request without an address, for every PCID / ASID shape and symbolic options: driven through the public builder (the private
    encoder function is inlined, whatever its name and parameter order)"""
    I = chk.I
    for size in ('Size4KiB', 'Size2MiB'):
        S = size_ty(size)
        for has_pc in (0, 1):
            for has_as in (0, 1):
                st = State()
                b = mk_builder(I, st)
                b = Struct(b.name, [b.fields[0], none(), some(I.sym_value(adt(TLB + 'Pcid'), 'pc')) if has_pc else none(), some(BV.sym(16, 'asid')) if has_as else none(), b.fields[4], b.fields[5], b.fields[6]])
                ref = arg_obj(st, 'self', actual(I, b))
                outs = I.run(B + 'flush', [ref], st, {'S': S})
                chk.count('function-instances')
                ok = len(outs) == 1 and outs[0].kind == 'ret'
                detail = 'paths %r' % (outs,)
                if ok:
                    asms = [e for e in outs[0].st.events if e[0] == 'asm']
                    r = decode_invlpgb(asms[0]) if len(asms) == 1 else None
                    ok = r is not None and r['va_valid'] == 0 and eval_value(r['va'], {}) == 0 and eval_value(r['count'], {}) == 0 and r['stride_2m'] == 0 and \
                        request_carries(I, outs[0].st, r, b, has_pc, has_as)
                    detail = 'request %r' % (r,)
                chk.ob('invlpgb', 'flush<%s>() without a range (pcid %s, asid %s): one `invlpgb` without address, carrying the builder\'s PCID/ASID/options in the architectural encoding' %
                       (size, 'Some' if has_pc else 'None', 'Some' if has_as else 'None'), ok, detail, fn_site(I, B + 'flush'))


B = TLB + "InvlpgbFlushBuilder::<'_, S>::"


_PERM = {}


def inv_order(I):
    """positions of (count max: u16, nested: bool, nasid: u32) in the private `Invlpgb` struct, by field type (the three types are distinct)"""
    lays = [l for l in I.facts['layouts'] if l['tys'] == TLB + 'Invlpgb']
    if lays:
        def role(t):
            if t.get('k') == 'uint' and t.get('bits') == 16:
                return 0
            if t.get('k') == 'bool':
                return 1
            if t.get('k') == 'uint' and t.get('bits') == 32:
                return 2
        r = [role(f['ty']) for f in lays[0]['fields']]
        if sorted(x for x in r if x is not None) == [0, 1, 2] and len(r) == 3:
            return [r.index(k) for k in range(3)]
    return [0, 1, 2]


def mk_inv(I, cap, nested, nasid):
    pos = inv_order(I)
    f = [None] * 3
    for k, v in enumerate((cap, nested, nasid)):
        f[pos[k]] = v
    return Struct(TLB + 'Invlpgb', f)


def inv_canon(I, v):
    pos = inv_order(I)
    return [v.fields[pos[k]] for k in range(3)]


def builder_perm(I):
    """where the builder keeps (invlpgb reference, page range, pcid, asid, include_global, final_translation_only, include_nested): found by
    building one with the public `Invlpgb::build` and watching which field each public setter changes - the fields are private, so their
    order is the crate's business. perm[k] = actual position of canonical field k."""
    if id(I) in _PERM:
        return _PERM[id(I)]
    INV = TLB + 'Invlpgb'
    S = size_ty('Size4KiB')
    ident = list(range(7))
    try:
        st = State()
        st.mem[('obj', 'invlpgb')] = Opaque('invlpgb-object')
        o = I.run(INV + '::build', [Ref(('obj', 'invlpgb'))], st)
        b0 = o[0].val
        if len(o) != 1 or not isinstance(b0, Struct) or len(b0.fields) != 7:
            raise Unsupported('build')
        perm = [None] * 7
        perm[0] = [i for i, x in enumerate(b0.fields) if isinstance(x, Ref)][0]

        def changed(meth, extra, by_value=False):
            st2 = State()
            st2.mem[('obj', 'invlpgb')] = mk_inv(I, BV.sym(16, 'cap'), BV.const(1, 1), BV.sym(32, 'nasid'))
            f_ = I.fn.get(B + meth)
            if f_ is not None:
                by_value = f_['locals'][1].get('k') != 'ref'
            if by_value:
                outs = I.run(B + meth, [b0] + extra, st2, {'S': S})
                after = [x.val for x in outs if x.kind == 'ret' and isinstance(x.val, Struct) and len(x.val.fields) == 7]
            else:
                st2.mem[('arg', 'self')] = b0
                outs = I.run(B + meth, [Ref(('arg', 'self'))] + extra, st2, {'S': S})
                after = [x.st.mem[('arg', 'self')] for x in outs if x.kind == 'ret']
            idx = set()
            for a in after:
                for i, (x, y) in enumerate(zip(b0.fields, a.fields)):
                    if repr(x) != repr(y):
                        idx.add(i)
            return idx
        pgt = adt(PG, S)
        rng = Struct('structures::paging::page::PageRange', [I.sym_value(pgt, 'rs'), I.sym_value(pgt, 're')])
        probes = ((1, 'pages', [rng], True), (2, 'pcid', [I.sym_value(adt(TLB + 'Pcid'), 'pc')], False), (3, 'asid', [BV.sym(16, 'asid')], False),
                  (4, 'include_global', [], False), (5, 'final_translation_only', [], False), (6, 'include_nested_translations', [], False))
        for k, meth, extra, byv in probes:
            ix = changed(meth, extra, byv)
            if len(ix) != 1:
                raise Unsupported('setter %s changes %r' % (meth, ix))
            perm[k] = ix.pop()
        if sorted(perm) != ident:
            raise Unsupported('roles %r' % (perm,))
    except (Unsupported, IndexError, KeyError, AttributeError, TypeError):
        perm = ident
    _PERM[id(I)] = perm
    return perm


def actual(I, b):
    perm = builder_perm(I)
    f = [None] * 7
    for k, pos in enumerate(perm):
        f[pos] = b.fields[k]
    return Struct(b.name, f)


def canon(I, v):
    if not (isinstance(v, Struct) and len(v.fields) == 7):
        return v
    perm = builder_perm(I)
    return Struct(v.name, [v.fields[perm[k]] for k in range(7)])


def mk_builder(I, st, page_range=None):
    inv = mk_inv(I, BV.sym(16, 'cap'), BV.sym(1, 'nested'), BV.sym(32, 'nasid'))
    st.mem[('obj', 'invlpgb')] = inv
    b = Struct(TLB + 'InvlpgbFlushBuilder', [Ref(('obj', 'invlpgb')), page_range if page_range is not None else none(), Enum(OPT, None, None, (), None) if False else none(), none(),
                                             BV.sym(1, 'g'), BV.sym(1, 'f'), BV.sym(1, 'n')])
    return b


def builder(chk):
    I = chk.I
    S = size_ty('Size4KiB')
    # clone(): a copy of the builder sends what the original would
    cands = [n for n in I.fn if n.startswith('<%sInvlpgbFlushBuilder<' % TLB) and n.endswith(' as core::clone::Clone>::clone')]
    fn_ = cands[0] if cands else None
    if fn_ is not None:
        st = State()
        b = mk_builder(I, st)
        b = Struct(b.name, [b.fields[0], b.fields[1], some(I.sym_value(adt(TLB + 'Pcid'), 'pc')), some(BV.sym(16, 'asid')), b.fields[4], b.fields[5], b.fields[6]])
        ref = arg_obj(st, 'self', actual(I, b))
        saved_m = dict(I.models)
        outs = I.run(fn_, [ref], st, {g: S for g in I.fn[fn_]['generics']})
        ok = len(outs) == 1 and outs[0].kind == 'ret' and isinstance(outs[0].val, Struct) and len(outs[0].val.fields) == len(b.fields) and \
            all(same(x, y) for x, y in zip(canon(I, outs[0].val).fields, b.fields))
        chk.ob('invlpgb', 'builder.clone() copies every field', ok, 'paths %r\n      original %r' % (outs, b), fn_site(I, fn_))
    else:
        chk.unproven('invlpgb', 'builder.clone()', 'Clone impl not found (anchor lost)')
    # pcid()
    st = State()
    b = mk_builder(I, st)
    ref = arg_obj(st, 'self', actual(I, b))
    pc = I.sym_value(adt(TLB + 'Pcid'), 'pc')
    outs = I.run(B + 'pcid', [ref, pc], st, {'S': S})
    fin = canon(I, outs[0].st.mem[('arg', 'self')]) if len(outs) == 1 else None
    chk.ob('invlpgb', 'builder.pcid stores Some(pcid) and nothing else', fin is not None and fin.fields[2].vname == 'Some' and same(fin.fields[2].fields[0], pc) and
           all(same(fin.fields[i], b.fields[i]) for i in (0, 1, 3, 4, 5, 6)), 'final %r' % (fin,), fn_site(I, B + 'pcid'))
    # asid(): rejected exactly when asid >= nasid
    st = State()
    b = mk_builder(I, st)
    ref = arg_obj(st, 'self', actual(I, b))
    outs = I.run(B + 'asid', [ref, BV.sym(16, 'asid')], st, {'S': S})
    oks = [o for o in outs if o.kind == 'ret' and o.val.vname == 'Ok']
    ers = [o for o in outs if o.kind == 'ret' and o.val.vname == 'Err']
    ok = len(oks) == 1 and len(ers) == 1 and len(outs) == 2
    if ok:
        fo = canon(I, oks[0].st.mem[('arg', 'self')])
        fe = canon(I, ers[0].st.mem[('arg', 'self')])
        from .c07 import canon_rel
        def cond(o):
            for e in o.st.events:
                if e[0] == 'branch':
                    return canon_rel(e[1]), e[2]
            return None, None
        (rel, val) = cond(ers[0])
        # the rejecting branch: nasid <= zext(asid)
        want = ('<=', tuple(sl('nasid', 0, 32)), tuple(sl('asid', 0, 16) + [0] * 16))
        okc = rel is not None and ((rel == want and val == 1) or (rel == ('<', want[2], want[1]) and val == 0))
        ok = fo.fields[3].vname == 'Some' and same(fo.fields[3].fields[0], BV.sym(16, 'asid')) and same(fe, b) and okc
    chk.ob('invlpgb', 'builder.asid stores Some(asid) when asid < nasid and rejects it, changing nothing, otherwise', ok, 'paths %r' % (outs,), fn_site(I, B + 'asid'))
    for meth, idx in (('include_global', 4), ('final_translation_only', 5)):
        st = State()
        b = mk_builder(I, st)
        ref = arg_obj(st, 'self', actual(I, b))
        outs = I.run(B + meth, [ref], st, {'S': S})
        fin = canon(I, outs[0].st.mem[('arg', 'self')]) if len(outs) == 1 else None
        chk.ob('invlpgb', 'builder.%s sets only its flag' % meth, fin is not None and eval_value(fin.fields[idx], {}) == 1 and all(same(fin.fields[i], b.fields[i]) for i in range(7) if i != idx),
               'final %r' % (fin,), fn_site(I, B + meth))
    st = State()
    b = mk_builder(I, st)
    outs = I.run(B + 'include_nested_translations', [actual(I, b)], st, {'S': S})
    rets = [o for o in outs if o.kind == 'ret']
    ok = len(rets) == 1 and eval_value(canon(I, rets[0].val).fields[6], {}) == 1 and rets[0].st.env.get(('nested', 0)) == 1 and all(o.kind == 'panic' for o in outs if o not in rets) and len(outs) == 2
    chk.ob('invlpgb', 'builder.include_nested_translations sets its flag only when the processor supports it (panics otherwise)', ok, 'paths %r' % (outs,), fn_site(I, B + 'include_nested_translations'))
    st = State()
    b = mk_builder(I, st)
    rng = Opaque('the-range')
    outs = I.run(B + 'pages', [actual(I, b), rng], st, {'S': S, 'T': S})
    ok = len(outs) == 1 and outs[0].kind == 'ret'
    if ok:
        r = canon(I, outs[0].val)
        ok = r.fields[1].vname == 'Some' and r.fields[1].fields[0] is rng and all(same(r.fields[i], b.fields[i]) for i in (0, 2, 3, 4, 5, 6))
    chk.ob('invlpgb', 'builder.pages stores Some(range) and copies every other field', ok, 'paths %r' % (outs,), fn_site(I, B + 'pages'))


def page_step_helpers(I, flush_fn):
    """the crate functions `flush` uses to measure and advance its page range, found through the call graph and their signatures
    ((&Page, &Page) -> (usize, Option<usize>) and (Page, usize) -> Option<Page>), not by name"""
    from ..mirwalk import callees
    seen, todo = set(), [flush_fn]
    dist, fwd = set(), set()
    while todo:
        n = todo.pop()
        if n in seen or n not in I.fn:
            continue
        seen.add(n)
        for bi, c, target, loc in callees(I.fn[n]):
            h = I.fn.get(target)
            if h is None or target in seen:
                continue
            tys = h['locals']
            ret = tys[0]
            args = [tys[i + 1] for i in range(h['argc'])]

            def is_page(t):
                t = t.get('to') if t.get('k') == 'ref' else t
                return (t or {}).get('name') == PG
            if h['argc'] == 2 and all(is_page(x) for x in args) and ret.get('k') == 'tuple' and len(ret.get('elems', [])) == 2:
                dist.add(target)
                continue
            if h['argc'] == 2 and is_page(args[0]) and args[1].get('k') == 'uint' and ret.get('name') == 'core::option::Option' and ret.get('args') and is_page(ret['args'][0]):
                fwd.add(target)
                continue
            if 'instructions::tlb' in target or 'structures::paging::page' in target:
                todo.append(target)
    return dist, fwd


def flush_loop(chk):
    I = chk.I
    for size in ('Size4KiB', 'Size2MiB'):
        S = size_ty(size)
        sb = SIZES[size]
        dist_fns, fwd_fns = page_step_helpers(I, B + 'flush')
        chk.ob('invlpgb', 'flush<%s>: the range is measured and advanced through the page stepping functions' % size, bool(dist_fns) and bool(fwd_fns),
               'distance functions %r, forward functions %r' % (sorted(dist_fns), sorted(fwd_fns)), fn_site(I, B + 'flush'), nontrivial=False)
        saved = set(I.opaque_fns)
        I.opaque_fns |= dist_fns | fwd_fns
        try:
            # ---- with a range: structure of one loop iteration
            st = State()
            b = mk_builder(I, st)
            pgt = adt(PG, S)
            rng = Struct('structures::paging::page::PageRange', [I.sym_value(pgt, 'rs'), I.sym_value(pgt, 're')])
            b = Struct(b.name, [b.fields[0], some(rng), some(I.sym_value(adt(TLB + 'Pcid'), 'pc')), some(BV.sym(16, 'asid')), b.fields[4], b.fields[5], b.fields[6]])
            ref = arg_obj(st, 'self', actual(I, b))
            outs = I.run(B + 'flush', [ref], st, {'S': S})
        finally:
            I.opaque_fns = saved
        chk.count('paths', len(outs))
        loops = [o for o in outs if o.kind == 'loop']
        rets = [o for o in outs if o.kind == 'ret']
        other = [o for o in outs if o.kind not in ('loop', 'ret')]
        good = bool(loops) and bool(rets)
        why = set()
        for o in loops:
            # only what happens inside the iteration counts: a distance or comparison computed before the loop is about
            # the initial start, not the current one
            heads = [i for i, e in enumerate(o.st.events) if e[0] == 'loop-head']
            if not heads:
                why.add('no loop header on a loop path')
                continue
            ev = [e for e in o.st.events[heads[-1]:] if e[0] in ('call', 'minmax', 'branch', 'asm')]
            reqs = [e for e in ev if e[0] == 'asm']
            if len(reqs) != 1:
                why.add('%d requests in one iteration' % len(reqs))
                continue
            req = reqs[0]
            r = decode_invlpgb(req)
            if r is None:
                why.add('the asm block of the iteration is not an invlpgb request')
                continue
            okf = r['va_valid'] == 1 and request_carries(I, o.st, r, b, 1, 1) and r['stride_2m'] == (1 if size == 'Size2MiB' else 0)
            va, cnt = r['va'], r['count']
            # the address is the loop's current start page (a widened loop variable)
            startsym = {bb[1] for bb in va.bits if isinstance(bb, tuple) and bb[0] == 'v'} if okf else set()
            okf = okf and len(startsym) == 1 and next(iter(startsym)).startswith('loop') and all(x == 0 for x in va.bits[:sb])
            if not okf:
                why.add('the request is not (current start, count, builder fields, stride of this page size): %r' % (r,))
                continue
            before = ev[:ev.index(req)]
            mins = [e for e in before if e[0] == 'minmax' and e[1] == 'min']
            # last min: (u16 count, processor maximum) and its result is the count sent
            cap = BV.sym(16, 'cap')
            okc = bool(mins) and (mins[-1][4] is cnt or same(I.resub(o.st, mins[-1][4]), I.resub(o.st, cnt))) and \
                ((same(mins[-1][3], cap) and isinstance(mins[-1][2], BV) and mins[-1][2].w == 16) or (same(mins[-1][2], cap) and isinstance(mins[-1][3], BV) and mins[-1][3].w == 16))
            if not okc:
                why.add('the count sent is not min(u16 count, invlpgb_count_max): %r' % (mins[-1:],))
            # the u16 count is the conversion of the remaining distance (or 0xffff when it does not fit)
            sb_calls = [e for e in before if e[0] == 'call' and e[1] in dist_fns]
            if not sb_calls:
                why.add('the remaining distance is not measured inside the iteration')
                continue
            # gap clamp: when the start is below the upper half, a second distance (to 0xffff_8000_0000_0000) is taken and min-ed
            lower = [e for e in before if e[0] == 'branch' and isinstance(e[1], tuple) and e[1][0] == 'p' and e[1][1] in ('ult', 'ule')]
            in_lower = None
            for e in lower:
                from .c07 import canon_rel
                rr = canon_rel(e[1])
                const_side = [x for x in (rr[1], rr[2]) if all(bb in (0, 1) for bb in x)]
                if const_side and sum(bb << i for i, bb in enumerate(const_side[0])) == 0xffff800000000000:
                    # which way: start < second_half_start ?
                    start_first = not all(bb in (0, 1) for bb in rr[1])
                    truth = e[2]
                    in_lower = (start_first and rr[0] == '<' and truth == 1) or ((not start_first) and rr[0] == '<=' and truth == 0)
            if in_lower is None:
                why.add('no comparison of the start with the first page of the upper half')
            elif in_lower:
                okg = len(sb_calls) >= 2 and len(mins) >= 2
                if not okg:
                    why.add('start below the upper half but the count is not clamped to the distance to it')
            # advance by max(count, 1)
            after = ev[ev.index(req):]
            maxs = [e for e in after if e[0] == 'minmax' and e[1] == 'max']
            fw = [e for e in after if e[0] == 'call' and e[1] in fwd_fns]
            oka = len(maxs) == 1 and len(fw) == 1 and (maxs[0][2] is cnt or same(I.resub(o.st, maxs[0][2]), I.resub(o.st, cnt))) and eval_value(maxs[0][3], {}) == 1 and \
                same(I.resub(o.st, inner(fw[0][2][0])), I.resub(o.st, va))
            if oka:
                stp = fw[0][2][1]
                r16 = maxs[0][4]
                oka = isinstance(stp, BV) and stp.w == 64 and tuple(stp.bits[:16]) == tuple(I.resub(o.st, r16).bits) and all(x == 0 for x in stp.bits[16:])
            if not oka:
                why.add('the range does not advance by max(count, 1) pages from the current start')
        # exits: only when the range is empty
        for o in rets:
            if [e for e in o.st.events if e[0] == 'asm']:
                why.add('a request is issued on the exit path')
        chk.ob('invlpgb', 'flush<%s> with a range: each iteration sends (current start, min(u16(remaining), max)) - clamped to the upper-half boundary while below it - and advances by max(count, 1)' % size,
               good and not why and all(o.kind == 'panic' for o in other), '; '.join(sorted(why)) or '%d iteration paths, %d exit paths' % (len(loops), len(rets)), fn_site(I, B + 'flush'))


def invlpgb_object(chk):
    """Invlpgb::new reads the capabilities from the CPUID leaves AMD documents (Fn8000_0008 EBX[3] = INVLPGB/TLBSYNC supported, EBX[21] = nested
    translations, EDX[15:0] = maximum page count; Fn8000_000A EBX = number of ASIDs); the accessors and build() hand them to the builder;
    tlbsync is that instruction"""
    I = chk.I
    INV = TLB + 'Invlpgb'
    outs = I.run(INV + '::new', [], State())
    chk.count('function-instances')
    somes = [o for o in outs if o.kind == 'ret' and o.val.vname == 'Some']
    nones = [o for o in outs if o.kind == 'ret' and o.val.vname == 'None']
    ok = len(somes) == 1 and len(nones) == 1 and all(o.kind == 'panic' for o in outs if o not in somes + nones)
    detail = 'paths %r' % (outs,)
    if ok:
        o = somes[0]
        cp = [e for e in o.st.events if e[0] == 'call' and e[1].endswith('__cpuid')]
        leaves = [eval_value(e[2][0], {}) for e in cp]
        ok = leaves == [0x80000008, 0x8000000a]
        v = o.val.fields[0]
        n1, n2 = (cp[0][5], cp[1][5]) if ok else (None, None)
        if ok:
            cap, nested, nasid = inv_canon(I, v)
            ok = same(cap, BV(16, sl('cpuid%d.edx' % n1, 0, 16))) and same(nested, BV(1, [lit('cpuid%d.ebx' % n1, 21)])) and same(nasid, BV.sym(32, 'cpuid%d.ebx' % n2)) and \
                o.st.env.get(('cpuid%d.ebx' % n1, 3)) == 1
            detail = 'leaves %s, object %r' % ([hex(x) for x in leaves], v)
            cpn = [e for e in nones[0].st.events if e[0] == 'call' and e[1].endswith('__cpuid')]
            ok = ok and len(cpn) >= 1 and nones[0].st.env.get(('cpuid%d.ebx' % cpn[0][5], 3)) == 0
    chk.ob('invlpgb', 'Invlpgb::new: None unless CPUID 8000_0008 EBX[3]; count max = EDX[15:0], nested = EBX[21], nasid = CPUID 8000_000A EBX', ok, detail, fn_site(I, INV + '::new'))
    inv = mk_inv(I, BV.sym(16, 'cap'), BV.sym(1, 'nested'), BV.sym(32, 'nasid'))
    for meth, i in (('invlpgb_count_max', 0), ('tlb_flush_nested', 1), ('nasid', 2)):
        st = State()
        ref = arg_obj(st, 'self', inv)
        o = I.run(INV + '::' + meth, [ref], st)
        chk.count('function-instances')
        chk.ob('invlpgb', 'Invlpgb::%s returns its field' % meth, len(o) == 1 and o[0].kind == 'ret' and same(o[0].val, inv_canon(I, inv)[i]), 'paths %r' % (o,), fn_site(I, INV + '::' + meth))
    st = State()
    ref = arg_obj(st, 'self', inv)
    o = I.run(INV + '::build', [ref], st)
    chk.count('function-instances')
    ok = len(o) == 1 and o[0].kind == 'ret'
    if ok:
        b = canon(I, o[0].val)
        ok = isinstance(b.fields[0], Ref) and b.fields[0].loc == ('arg', 'self') and all(isinstance(x, Enum) and x.vname == 'None' for x in b.fields[1:4]) and \
            all(eval_value(x, {}) == 0 for x in b.fields[4:7])
    chk.ob('invlpgb', 'Invlpgb::build: a builder for this object with no range, PCID or ASID and every option off', ok, 'paths %r' % (o,), fn_site(I, INV + '::build'))
    st = State()
    ref = arg_obj(st, 'self', inv)
    o = I.run(INV + '::tlbsync', [ref], st)
    chk.count('function-instances')
    asms = [e for e in o[0].st.events if e[0] == 'asm'] if len(o) == 1 else []
    chk.ob('invlpgb', 'Invlpgb::tlbsync is one `tlbsync` without operands', len(o) == 1 and o[0].kind == 'ret' and len(asms) == 1 and SI.insns(asms[0][1]) == ['tlbsync'] and not asms[0][2],
           'paths %r' % (o,), fn_site(I, INV + '::tlbsync'))


def ignore_tokens(chk):
    """ignore() consumes the token without touching the TLB"""
    I = chk.I
    M_ = 'structures::paging::mapper::'
    for fn_, arg in ((M_ + 'MapperFlush::<S>::ignore', Struct(M_ + 'MapperFlush', [I.sym_value(adt(PG, size_ty('Size4KiB')), 'page')])), (M_ + 'MapperFlushAll::ignore', Struct(M_ + 'MapperFlushAll', [UNIT]))):
        if fn_ not in I.fn:
            chk.unproven('flush-token', fn_.split('::', 3)[-1], 'function not found (anchor lost)')
            continue
        o = I.run(fn_, [arg], State(), {'S': size_ty('Size4KiB')})
        chk.count('function-instances')
        chk.ob('flush-token', '%s executes nothing' % fn_.replace(M_, ''), len(o) == 1 and o[0].kind == 'ret' and not [e for e in o[0].st.events if e[0] in ('asm', 'write', 'call', 'rawderef')],
               'paths %r' % (o,), fn_site(I, fn_))
