"""C18 - port objects perform exactly one access of their width on their port."""
from spec import instructions as SI

from ..bits import BV, eq_bit
from ..interp import State
from ..values import UNIT, Ref, Struct
from .common import inner, newtype, asm_not_pure, U8, U16, U32, arg_obj, fn_site, same

LEVEL = 'proof'
PG = 'instructions::port::PortGeneric'
TYS = {8: U8, 16: U16, 32: U32}


def reg_name(r):
    # "Reg(X86(al))" -> al
    return r.split('(')[-1].strip(')')


def asm_events(o):
    return [e for e in o.st.events if e[0] == 'asm']


def check_in(chk, label, outs, w, port, site):
    ok = len(outs) == 1 and outs[0].kind == 'ret'
    chk.ob('port-read', label + ': one path', ok, 'paths %r' % (outs,), site)
    if not ok:
        return
    o = outs[0]
    a = asm_events(o)
    spec = SI.PORT_IO[w]
    ok1 = len(a) == 1
    chk.ob('port-read', label + ': exactly one asm block', ok1, 'asm events %d' % len(a), site)
    if not ok1:
        return
    _, tpl, ops, opts = a[0][:4]
    chk.ob('port-read', label + ': instruction `%s`' % spec['in'], SI.norm(tpl) == spec['in'], 'template `%s`' % tpl, site, sample=tpl)
    ins = [x for x in ops if x['k'] == 'in']
    outs_ = [x for x in ops if x['k'] == 'out']
    okp = len(ins) == 1 and reg_name(ins[0]['reg']) == SI.PORT_REG and same(ins[0]['v'], port)
    chk.ob('port-read', label + ': port number in dx', okp, 'inputs %r' % ([(x['reg'], x['v']) for x in ins],), site)
    okv = len(outs_) == 1 and reg_name(outs_[0]['reg']) == SI.family(spec['acc']) and isinstance(outs_[0]['v'], BV) and outs_[0]['v'].w == w and same(o.val, outs_[0]['v'])
    chk.ob('port-read', label + ': returns the %d-bit value the device put in %s' % (w, spec['acc']), okv, 'outputs %r, returned %r' % ([(x['reg'], x['v']) for x in outs_], o.val), site)
    chk.ob('port-read', label + ': no memory access (nomem, nostack), no other operands', 'NOMEM' in opts and 'NOSTACK' in opts and len(ops) == 2, 'options %s, %d operands' % (opts, len(ops)), site)
    chk.ob('port-read', label + ': no other effect', not [e for e in o.st.events if e[0] in ('write', 'call', 'rawderef')], 'events %r' % ([e[0] for e in o.st.events],), site)


def check_out(chk, label, outs, w, port, value, site):
    ok = len(outs) == 1 and outs[0].kind == 'ret'
    chk.ob('port-write', label + ': one path', ok, 'paths %r' % (outs,), site)
    if not ok:
        return
    o = outs[0]
    a = asm_events(o)
    spec = SI.PORT_IO[w]
    ok1 = len(a) == 1
    chk.ob('port-write', label + ': exactly one asm block', ok1, 'asm events %d' % len(a), site)
    if not ok1:
        return
    _, tpl, ops, opts = a[0][:4]
    chk.ob('port-write', label + ': instruction `%s`' % spec['out'], SI.norm(tpl) == spec['out'], 'template `%s`' % tpl, site, sample=tpl)
    ins = {reg_name(x['reg']): x for x in ops if x['k'] == 'in'}
    okp = SI.PORT_REG in ins and same(ins[SI.PORT_REG]['v'], port)
    chk.ob('port-write', label + ': port number in dx', okp, 'inputs %r' % ({k: v['v'] for k, v in ins.items()},), site)
    acc = SI.family(spec['acc'])
    okv = acc in ins and isinstance(ins[acc]['v'], BV) and ins[acc]['v'].w == w and same(ins[acc]['v'], value)
    chk.ob('port-write', label + ': the given %d-bit value in %s' % (w, spec['acc']), okv, 'inputs %r' % ({k: v['v'] for k, v in ins.items()},), site)
    chk.ob('port-write', label + ': no memory access (nomem, nostack), no other operands', 'NOMEM' in opts and 'NOSTACK' in opts and len(ops) == 2, 'options %s, %d operands' % (opts, len(ops)), site)
    chk.ob('port-write', label + ': no other effect', not [e for e in o.st.events if e[0] in ('write', 'call', 'rawderef')], 'events %r' % ([e[0] for e in o.st.events],), site)


def run(chk):
    I = chk.I
    chk.trusted += ['spec/instructions.py (IN/OUT operand conventions from Intel SDM vol. 2)', 'the hardware semantics of IN/OUT', 'rustc: an asm! block with these operands emits exactly its template']
    n_asm = 0
    for w, T in TYS.items():
        t = 'u%d' % w
        fr = '<%s as structures::port::PortRead>::read_from_port' % t
        fw = '<%s as structures::port::PortWrite>::write_to_port' % t
        port = BV.sym(16, 'port')
        chk.guard('port-read', t, lambda: check_in(chk, '<%s as PortRead>::read_from_port' % t, I.run(fr, [port]), w, port, fn_site(I, fr)))
        val = BV.sym(w, 'value')
        chk.guard('port-write', t, lambda: check_out(chk, '<%s as PortWrite>::write_to_port' % t, I.run(fw, [port, val]), w, port, val, fn_site(I, fw)))
        chk.count('function-instances', 2)

        def generic():
            obj = newtype(None, PG, BV.sym(16, 'self.port'))
            st = State()
            ref = arg_obj(st, 'self', obj)
            outs = I.run(PG + '::<T, A>::read', [ref], st, {'T': T})
            check_in(chk, 'PortGeneric<%s, A>::read' % t, outs, w, BV.sym(16, 'self.port'), fn_site(I, PG + '::<T, A>::read'))
            if len(outs) == 1:
                chk.ob('port-read', 'PortGeneric<%s, A>::read leaves the object unchanged' % t, same(outs[0].st.mem[('arg', 'self')], obj), 'final %r' % (outs[0].st.mem[('arg', 'self')],))
            st = State()
            ref = arg_obj(st, 'self', obj)
            outs = I.run(PG + '::<T, A>::write', [ref, val], st, {'T': T})
            check_out(chk, 'PortGeneric<%s, A>::write' % t, outs, w, BV.sym(16, 'self.port'), val, fn_site(I, PG + '::<T, A>::write'))
            if len(outs) == 1:
                chk.ob('port-write', 'PortGeneric<%s, A>::write leaves the object unchanged' % t, same(outs[0].st.mem[('arg', 'self')], obj), 'final %r' % (outs[0].st.mem[('arg', 'self')],))
            chk.count('function-instances', 2)
        chk.guard('port-generic', t, generic)

    def misc():
        o = I.run(PG + '::<T, A>::new', [BV.sym(16, 'p')])
        chk.ob('port-object', 'new stores the port number', len(o) == 1 and o[0].kind == 'ret' and same(inner(o[0].val), BV.sym(16, 'p')), 'returns %r' % (o,))
        st = State()
        ref = arg_obj(st, 'self', newtype(None, PG, BV.sym(16, 'p')))
        o = I.run('<%s<T, A> as core::clone::Clone>::clone' % PG, [ref], st)
        chk.ob('port-object', 'clone refers to the same port', len(o) == 1 and o[0].kind == 'ret' and same(inner(o[0].val), BV.sym(16, 'p')), 'returns %r' % (o,))
        st = State()
        a = arg_obj(st, 'a', newtype(None, PG, BV.sym(16, 'p')))
        b = arg_obj(st, 'b', newtype(None, PG, BV.sym(16, 'q')))
        o = I.run('<%s<T, A> as core::cmp::PartialEq>::eq' % PG, [a, b], st)
        want = BV(1, [eq_bit(BV.sym(16, 'p').bits, BV.sym(16, 'q').bits)])
        chk.ob('port-object', 'eq is exactly equality of the port numbers', len(o) == 1 and o[0].kind == 'ret' and (same(o[0].val, want) or same(o[0].val, BV(1, [eq_bit(BV.sym(16, 'q').bits, BV.sym(16, 'p').bits)]))),
               'returns %r expected %r' % (o, want))
        chk.count('function-instances', 3)
    chk.guard('port-object', 'new/clone/eq', misc)
    # census: every port instruction (`in` / `out`) of the crate is one of the six accessors analysed above, wherever they live
    from ..interp import Interp
    blocks, foreign = 0, []
    for f in chk.facts['fns']:
        for b in f['blocks']:
            t = b['t']
            if t and t['k'] == 'asm':
                tpl = ''.join((p.get('s') if p.get('s') is not None else '{%s}' % p.get('op')) for p in t['tpl'])
                if any(i.split()[0] in ('in', 'out') for i in SI.insns(tpl) if i.split()):
                    blocks += 1
                    if (f['name'], t['loc']) not in Interp.ASM_TOUCHED:
                        foreign.append(f['name'])
    chk.guard('asm-options', 'port instructions', lambda: asm_not_pure(chk, chk.I, 'asm-options', [], 6))
    chk.floor('port instructions in the crate', blocks, 6)
    chk.ob('census', 'no `in` / `out` instruction beyond the six port accessors', blocks == 6 and not foreign, 'found %d, not analysed: %r' % (blocks, foreign))
