"""C17 - without_interrupts restores the interrupt flag; enable_and_hlt is atomic."""
from spec import instructions as SI

from ..bits import BV, lit
from ..interp import State
from ..values import Opaque
from .common import asm_not_pure, fn_site, same

LEVEL = 'proof'
M = 'instructions::interrupts::'


def asm_events(o):
    return [e for e in o.st.events if e[0] == 'asm']


def run(chk):
    I = chk.I
    chk.trusted += ['spec/instructions.py (CLI/STI/PUSHFQ/HLT semantics from Intel SDM vol. 2)',
                    'the closure leaves the interrupt flag as it found it (the property\'s own assumption)',
                    'an asm! block without `nomem` is a compiler barrier for memory accesses']

    # ---- enable / disable: one instruction, no operands, a memory barrier
    def en_dis():
        for fn_, ins in ((M + 'enable', 'sti'), (M + 'disable', 'cli')):
            outs = I.run(fn_, [])
            chk.count('function-instances')
            ok = len(outs) == 1 and outs[0].kind == 'ret'
            a = asm_events(outs[0]) if ok else []
            ok = ok and len(a) == 1 and SI.insns(a[0][1]) == [ins] and not a[0][2]
            chk.ob('flag-op', '%s is exactly one `%s` with no operands' % (fn_.split('::')[-1], ins), ok, 'paths %r asm %r' % (outs, [x[1] for x in a]), fn_site(I, fn_))
            if ok:
                chk.ob('flag-op', '%s is a compiler barrier (not `nomem`, not `pure`/`readonly`)' % fn_.split('::')[-1],
                       not any(k in a[0][3] for k in ('NOMEM', 'PURE', 'READONLY')), 'options %s' % a[0][3], fn_site(I, fn_))
                others = [e for e in outs[0].st.events if e[0] in ('write', 'call', 'rawderef')]
                chk.ob('flag-op', '%s changes nothing else' % fn_.split('::')[-1], not others, 'events %r' % (others,))
    chk.guard('flag-op', 'enable/disable', en_dis)

    # ---- are_enabled
    def are_enabled():
        outs = I.run(M + 'are_enabled', [])
        chk.count('function-instances')
        ok = len(outs) == 1 and outs[0].kind == 'ret'
        a = asm_events(outs[0]) if ok else []
        ok = ok and len(a) == 1 and SI.insns(a[0][1]) == SI.insns(SI.RFLAGS_READ) and len(a[0][2]) == 1 and a[0][2][0]['k'] == 'out'
        chk.ob('flag-op', 'are_enabled reads RFLAGS once (`pushfq; pop`)', ok, 'paths %r' % (outs,), fn_site(I, M + 'are_enabled'))
        if ok:
            hw = a[0][2][0]['v']
            chk.ob('flag-op', 'are_enabled returns RFLAGS bit %d' % SI.IF_BIT, same(outs[0].val, BV(1, [hw.bits[SI.IF_BIT]])), 'returns %r of %r' % (outs[0].val, hw))
    chk.guard('flag-op', 'are_enabled', are_enabled)

    # ---- without_interrupts: typestate over IF along every path
    def without():
        fn_ = M + 'without_interrupts'
        outs = I.run(fn_, [Opaque('the-closure')])
        chk.count('function-instances')
        chk.count('paths', len(outs))
        chk.ob('without-interrupts', 'every path returns', bool(outs) and all(o.kind == 'ret' for o in outs), 'paths %r' % (outs,), fn_site(I, fn_))
        seen_init = set()
        for o in outs:
            if o.kind != 'ret':
                continue
            evs = [e for e in o.st.events if e[0] in ('asm', 'call', 'write', 'rawderef')]
            # initial flag: the value read by the first RFLAGS read on this path
            first = evs[0] if evs else None
            okr = first is not None and first[0] == 'asm' and SI.insns(first[1]) == SI.insns(SI.RFLAGS_READ)
            if not okr:
                chk.ob('without-interrupts', 'path starts by reading RFLAGS', False, 'first event %r' % (first,), fn_site(I, fn_))
                continue
            hw = first[2][0]['v']
            b = hw.bits[SI.IF_BIT]
            init = o.st.env.get((b[1], b[2])) if isinstance(b, tuple) else None
            label = 'IF=%s initially' % init
            if init not in (0, 1):
                chk.ob('without-interrupts', 'path decided by the saved flag', False, 'path does not depend on RFLAGS.IF: notes %r' % (o.st.notes,), fn_site(I, fn_))
                continue
            seen_init.add(init)
            cur = init
            calls = 0
            if_at_call = None
            result = None
            other = []
            for e in evs[1:]:
                if e[0] == 'asm':
                    ins = SI.insns(e[1])
                    if len(ins) == 1 and ins[0] in SI.IF_EFFECT and not e[2]:
                        cur = SI.IF_EFFECT[ins[0]]
                    else:
                        other.append(e[1])
                elif e[0] == 'call' and e[1].endswith('FnOnce::call_once'):
                    calls += 1
                    if_at_call = cur
                    okarg = isinstance(e[2][0], Opaque) and e[2][0].tag == 'the-closure'
                    if not okarg:
                        other.append('call_once on %r' % (e[2][0],))
                    result = e[5]
                else:
                    other.append(e[:2])
            chk.ob('without-interrupts', '%s: closure called exactly once' % label, calls == 1, '%d calls' % calls, fn_site(I, fn_))
            chk.ob('without-interrupts', '%s: interrupt flag clear while the closure runs' % label, if_at_call == 0, 'IF=%s at the call' % if_at_call, fn_site(I, fn_))
            chk.ob('without-interrupts', '%s: flag restored on return' % label, cur == init, 'IF=%s at return' % cur, fn_site(I, fn_),
                   sample={'initial IF': init, 'IF at call': if_at_call, 'final IF': cur})
            chk.ob('without-interrupts', '%s: no other effect' % label, not other, 'other events %r' % (other,), fn_site(I, fn_))
            okres = isinstance(o.val, Opaque) and result is not None and o.val.tag.split(':')[0].endswith('#%d' % result)
            chk.ob('without-interrupts', '%s: returns the closure\'s result' % label, okres, 'returned %r, call id %r' % (o.val, result), fn_site(I, fn_))
        chk.ob('without-interrupts', 'both initial flag states are covered by exactly one path each', seen_init == {0, 1} and len(outs) == 2,
               'initial states %s over %d paths' % (sorted(seen_init), len(outs)), fn_site(I, fn_))
    chk.guard('without-interrupts', 'typestate', without)

    # ---- enable_and_hlt
    def eah():
        fn_ = M + 'enable_and_hlt'
        outs = I.run(fn_, [])
        chk.count('function-instances')
        ok = len(outs) == 1 and outs[0].kind == 'ret'
        a = asm_events(outs[0]) if ok else []
        chk.ob('enable-and-hlt', 'one asm block whose instructions are exactly sti, hlt', ok and len(a) == 1 and SI.insns(a[0][1]) == SI.ENABLE_AND_HLT and not a[0][2],
               'asm %r' % ([x[1] for x in a],), fn_site(I, fn_), sample=[x[1] for x in a])
    chk.guard('enable-and-hlt', 'enable_and_hlt', eah)
    chk.guard('asm-options', 'interrupt flag', lambda: asm_not_pure(chk, chk.I, 'asm-options', ['src/instructions/interrupts.rs', 'src/registers/rflags.rs'], 4))
    chk.floor('obligations', len(chk.obs), 20)
