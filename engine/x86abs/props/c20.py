"""C20 - RecursivePageTable validates its table and computes exact recursive addresses."""
from spec import paging as SP

from ..bits import BV, lit
from ..interp import State
from ..values import Array, Enum, Opaque, Ptr, Ref, Struct
from .common import asm_not_pure, SIZES, adt, bv, fn_site, inner, same, size_ty, sl

LEVEL = 'proof'
R = 'structures::paging::mapper::recursive_page_table::'
RPT = 'structures::paging::mapper::RecursivePageTable'
PTI = 'structures::paging::page_table::PageTableIndex'
PTE = 'structures::paging::page_table::PageTableEntry'
TBL = 'structures::paging::page_table::PageTable'
PG = 'structures::paging::page::Page'


def rec_addr(level, page_sym, r='r'):
    """address of the level-`level` table of `page` through the recursive slot r (oracle: the index r repeated `level`
    times, followed by the page's upper indices, sign-extended)"""
    bits = [0] * 64
    idx = [None, None, None, None]          # fields p4..p1 of the produced address
    upper = [4, 3, 2, 1]                    # page's own index levels in order
    for i in range(4):
        if i < level:
            idx[i] = ('r', None)
        else:
            idx[i] = ('page', upper[i - level])
    for pos, what in zip((4, 3, 2, 1), idx):
        lo, hi = SP.INDEX[pos]
        for j in range(9):
            if what[0] == 'r':
                bits[lo + j] = lit(r, j)
            else:
                plo, _ = SP.INDEX[what[1]]
                bits[lo + j] = ('page', plo + j)
    for j in range(48, 64):
        bits[j] = lit(r, 8)
    return bits


def run(chk):
    I = chk.I
    chk.trusted += ['spec/paging.py', 'C04 (index accessors and from_page_table_indices are decided there; re-derived here by inlining)', 'C16 (Cr3::read)',
                    'the address of a &mut PageTable is canonical (hardware)']

    def r1(fn_, args, st=None, sub=None):
        chk.count('function-instances')
        return I.run(fn_, args, st if st is not None else State(), sub)

    def helpers():
        """the crate's private address builders, found by signature ((Page<S>, PageTableIndex) in either order -> Page<Size4KiB> or
        *mut PageTable), not by name: each must produce the recursive address of one level for every page size it accepts"""
        found = []
        for n, f in I.fn.items():
            if not n.startswith(R) or f['argc'] != 2:
                continue
            a = [f['locals'][1], f['locals'][2]]
            roles = []
            for t in a:
                if t.get('k') == 'adt' and t.get('name') == PG:
                    roles.append('page')
                elif t.get('k') == 'adt' and t.get('name') == PTI:
                    roles.append('index')
                else:
                    roles.append(None)
            ret = f['locals'][0]
            if sorted(map(str, roles)) != ['index', 'page']:
                continue
            if ret.get('k') == 'adt' and ret.get('name') == PG:
                kind = 'page'
            elif ret.get('k') == 'rawptr' and (ret.get('to') or {}).get('name') == TBL:
                kind = 'ptr'
            else:
                continue
            found.append((n, kind, roles, a[roles.index('page')]))
        return found

    def ptrs():
        r = I.sym_value(adt(PTI), 'r')
        levels_seen = set()
        for fn_, kind, roles, pty in helpers():
            generic = pty['args'] and pty['args'][0].get('k') == 'param'
            short = fn_[len(R):]
            lvl_of = None
            for sname in ('Size4KiB', 'Size2MiB', 'Size1GiB'):
                if not generic and (pty['args'][0].get('name') or '').rsplit('::', 1)[-1] != sname:
                    continue
                if lvl_of is not None and sname in {3: (), 2: ('Size1GiB',), 1: ('Size2MiB', 'Size1GiB')}[lvl_of]:
                    continue        # the page has no table of that level (the trait bounds exclude the instantiation)
                pg = I.sym_value(adt(PG, size_ty(sname)), 'pg')
                pb = inner(pg).bits
                args = [pg if x == 'page' else r for x in roles]
                o = r1(fn_, args, None, {g: size_ty(sname) for g in I.fn[fn_]['generics']})
                got = None
                if len(o) == 1 and o[0].kind == 'ret':
                    if kind == 'page':
                        got = inner(o[0].val)
                    elif isinstance(o[0].val, Ptr) and o[0].val.addr is not None and o[0].val.off is None:
                        got = o[0].val.addr
                match = None
                for level in (3, 2, 1):
                    want = BV(64, [pb[b[1]] if isinstance(b, tuple) and b[0] == 'page' else b for b in rec_addr(level, 'pg')])
                    if got is not None and same(got, want):
                        match = level
                if lvl_of is None:
                    lvl_of = match
                ok = match is not None and match == lvl_of
                if ok and kind == 'ptr':
                    levels_seen.add(match)
                chk.ob('recursive-address', 'address builder %s<%s> (%s): r repeated once per level, then the page\'s upper indices, sign-extended' % (short, sname, kind), ok,
                       'returns %r\n      matches level %r' % (o, match), fn_site(I, fn_), sample=repr(o[0].val) if o else None)
        return levels_seen

    def walks():
        """end to end, whatever helpers exist: every table the recursive mapper dereferences in any public operation is reached through an
        address of the recursive form for the page (r repeated 3, 2, 1 times for the level-3, -2, -1 table), in that order"""
        from . import c01
        from .mapper import MapperLab
        lab = MapperLab(chk)
        n = 0
        for size in ('Size4KiB', 'Size2MiB', 'Size1GiB'):
            depth = {'Size4KiB': 3, 'Size2MiB': 2, 'Size1GiB': 1}[size]
            for op, extra in c01.OPS:
                try:
                    fn_, pss = lab.run('recursive', size, op, extra)
                except KeyError:
                    continue
                bad = None
                for ps in pss:
                    seq = [(s.level, s.by) for s in ps.steps if s.k == 'deref']
                    want = [(lv, 'address') for lv in (3, 2, 1)[:depth]]
                    if ps.problems or seq != want[:len(seq)]:
                        bad = (seq, ps.problems)
                        break
                n += 1
                chk.ob('recursive-address', 'RecursivePageTable::%s<%s>: tables are dereferenced only at the recursive addresses of levels 3, 2, 1 of the page, in that order' % (op, size),
                       bool(pss) and bad is None, 'a path dereferences %r' % (bad,), fn_site(I, fn_))
        chk.floor('recursive walks', n, 15)
    chk.guard('recursive-address', 'walks of the public operations', walks)
    chk.guard('recursive-address', 'private address builders', ptrs)
    # the clean-up walk reaches child tables by recursive address too (the level-(k-1) table of the child range's first page, per
    # iterated slot): C10's rules for the recursive helper and its entry points, under this property's name
    def cleanup_walk():
        from . import c10
        c10.helper(chk, 'recursive')
        c10.entry_points(chk, 'recursive')
    chk.guard('recursive-address', 'clean-up walk', cleanup_walk)

    def ctor():
        fn_ = RPT + "::<'_>::new"
        if fn_ not in I.fn:
            c = [n for n in I.fn if n.startswith(RPT) and n.endswith('::new')]
            fn_ = c[0]

        def table_state(addr_bits):
            st = State()
            st.mem[('arg', 'table')] = Struct(TBL, [Array('slot', mk=lambda nm: Struct(PTE, [BV.sym(64, nm)]), length=512)])
            I.addr_override = {(('arg', 'table'), ()): BV(64, addr_bits)}
            return st

        def rec_form():
            b = [0] * 12
            for _ in range(4):
                b += sl('r', 0, 9)
            return b + [lit('r', 8)] * 16
        try:
            # (a) recursive form: never NotRecursive; Ok exactly when the slot r is present and holds the CR3 frame
            st = table_state(rec_form())
            outs = r1(fn_, [Ref(('arg', 'table'))], st)
            kinds = []
            okall = bool(outs)
            n_ok = 0
            for o in outs:
                if o.kind != 'ret':
                    okall = False
                    continue
                asm = [e for e in o.st.events if e[0] == 'asm']
                tbl = o.st.mem[('arg', 'table')].fields[0]
                slots = list(tbl.elems.values())
                okslot = len(slots) == 1 and same(slots[0][0], bv(64, sl('r', 0, 9), (0, 55)))
                ent = inner(slots[0][1]) if okslot else None
                cr3 = asm[0][2][0]['v'] if len(asm) == 1 and 'cr3' in asm[0][1] else None
                if not okslot or cr3 is None:
                    okall = False
                    continue
                ename = 'slot[%s]' % __import__('x86abs.values', fromlist=['fmt_idx']).fmt_idx(slots[0][0])
                present = o.st.env.get((ename, 0))
                eqf = None
                for k, tv in o.st.facts.items():
                    if isinstance(k, tuple) and len(k) == 3 and k[1] == 'eq':
                        eqf = tv
                if o.val.vname == 'Ok':
                    n_ok += 1
                    v = o.val.fields[0]
                    # on the Ok path the two frames were found equal: their address bits were unified
                    okv = isinstance(v, Struct) and isinstance(v.fields[0], Ref) and v.fields[0].loc == ('arg', 'table') and same(inner(v.fields[1]), bv(16, sl('r', 0, 9), (0, 7)))
                    e2, c2 = I.resub(o.st, ent), I.resub(o.st, cr3)
                    same_frame = tuple(e2.bits[12:52]) == tuple(c2.bits[12:52]) and not any(b == 'T' for b in e2.bits[12:52])
                    okall = okall and okv and present == 1 and same_frame
                else:
                    okall = okall and o.val.fields[0].vname == 'NotActive' and (present == 0 or eqf == 0)
                kinds.append((o.val.vname, present, eqf))
            chk.ob('constructor', 'recursive-form address: Ok(recursive index = the common index) iff slot[index] is present and holds the CR3 frame, else NotActive', okall and n_ok == 1,
                   'paths %r' % (kinds,), fn_site(I, fn_), sample=kinds)
            # (b) near-recursive forms: one index differs from the level-4 index in one bit -> NotRecursive, before CR3 is read
            n = 0
            bad = None
            for lvl in (3, 2, 1):
                for j in range(9):
                    for pol in (0, 1):
                        b = [0] * 12 + sl('q1', 0, 9) + sl('q2', 0, 9) + sl('q3', 0, 9) + sl('q4', 0, 9) + [lit('q4', 8)] * 16
                        b[SP.INDEX[4][0] + j] = pol
                        if j == 8:
                            for t in range(48, 64):
                                b[t] = pol
                        b[SP.INDEX[lvl][0] + j] = 1 - pol
                        st = table_state(b)
                        outs = r1(fn_, [Ref(('arg', 'table'))], st)
                        n += 1
                        ok = bool(outs) and all(o.kind == 'ret' and o.val.vname == 'Err' and o.val.fields[0].vname == 'NotRecursive' and not [e for e in o.st.events if e[0] == 'asm'] for o in outs)
                        if not ok and bad is None:
                            bad = (lvl, j, pol, outs)
            chk.ob('constructor', 'an address whose level-1/2/3 index differs from its level-4 index is NotRecursive, decided before CR3 is read (54 cubes)', bad is None,
                   'level %s bit %s: paths %r' % (bad[0], bad[1], bad[3]) if bad else '%d cubes' % n, fn_site(I, fn_))
        finally:
            I.addr_override = {}
    chk.guard('constructor', 'RecursivePageTable::new', ctor)
    chk.guard('asm-options', 'CR3 read', lambda: asm_not_pure(chk, chk.I, 'asm-options', ['src/registers/control.rs'], 1))
    chk.floor('obligations', len(chk.obs), 14)
