"""C04 - virtual address <-> page-table indices is an exact bijection."""
from spec import paging as SP

from ..bits import BV, lit
from ..interp import State
from ..values import Enum, Struct
from .common import SIZES, U16, adt, bv, enum_val, eval_value, exhaustive, fn_site, inner, same, size_ty, sl

LEVEL = 'proof'
VA = 'addr::VirtAddr'
PG = 'structures::paging::page::Page'
PT = 'structures::paging::page_table::'
LVL = PT + 'PageTableLevel'


def idx_bits(sym, level):
    lo, hi = SP.INDEX[level]
    return bv(16, sl(sym, lo, hi), (0, 16 - (hi - lo)))


def index_census(chk, lim=None, audited=None, floor=4, what='index/offset'):
    """PageTableIndex / PageOffset values are assembled only in new / new_truncate; any other assembling function is interpreted for all
    inputs and must return in-range values (shared with every property whose inputs assume the invariant)"""
    I = chk.I
    from ..mirwalk import statements, is_user_fn
    from ..values import map_value
    if lim is None:
        lim = {PT + 'PageTableIndex': 512, PT + 'PageOffset': 4096}
        audited = {PT + 'PageTableIndex::new', PT + 'PageTableIndex::new_truncate', PT + 'PageOffset::new', PT + 'PageOffset::new_truncate'}
    n = 0
    for f in chk.facts['fns']:
        if not is_user_fn(f):
            continue
        from ..mirwalk import ctor_refs
        built = {s['rv']['adt'] for bi, s in statements(f) if s['k'] == 'assign' and s['rv']['k'] == 'agg' and s['rv'].get('adt') in lim} | set(ctor_refs(f, set(lim)))
        for bi, s in statements(f):
            if s['k'] == 'assign' and s['rv']['k'] == 'cast' and s['rv'].get('kind') == 'Transmute':
                from ..mirwalk import ty_mentions
                if ty_mentions(s['rv'].get('ty'), set(lim)):
                    chk.ob('who-may-construct', 'transmute into an index/offset in %s' % f['name'], False, 'transmute to %s' % (s['rv'].get('ty'),), f['loc'])
        if not built:
            continue
        n += 1
        if f['name'] in audited:
            chk.ob('who-may-construct', '%s assembles a %s (decided by the constructor rules)' % (f['name'].replace(PT, ''), '/'.join(sorted(b.split('::')[-1] for b in built))), True, '', f['loc'],
                   nontrivial=False)
            continue
        # any other place: every value it returns must be shown in range, for all inputs of its parameter types
        st = State()
        args = [I.sym_value(f['locals'][i + 1], 'arg%d' % i, st) for i in range(f['argc'])]
        for i, a in enumerate(args):
            if isinstance(a, BV):
                st.rng.setdefault('arg%d' % i, [(0, (1 << a.w) - 1)])      # an integer parameter: its type's range, so comparisons can narrow it
        outs = I.run(f['name'], args, st)
        chk.count('function-instances')
        bad = []
        seen = [0]
        for o in outs:
            if o.kind != 'ret':
                continue

            def visit(v, o=o):
                if isinstance(v, Struct) and v.name in lim and v.fields and isinstance(v.fields[0], BV):
                    seen[0] += 1
                    r = I.rng_of(o.st, v.fields[0])
                    if r is None or max(b for _, b in r) >= lim[v.name]:
                        bad.append('%s may be %s' % (v.name.split('::')[-1], r))
                if isinstance(v, (Struct, Enum)):
                    for x in v.fields:
                        visit(x)
            visit(o.val)
        chk.ob('who-may-construct', '%s assembles an index/offset outside the constructors: every value it returns is in range' % f['name'].replace(PT, ''),
               bool(outs) and seen[0] > 0 and not bad, '; '.join(sorted(set(bad))) or 'no returned index/offset value could be examined', f['loc'])
    chk.floor('functions that assemble an %s' % what, n, floor)


def run(chk):
    I = chk.I
    chk.trusted += ['spec/paging.py (4-level 9-9-9-9-12 layout from Intel SDM 3A 4.5)', 'x86abs bit-provenance transfer functions']
    va = I.sym_value(adt(VA), 'va')

    def r1(fn_, args, sub=None, st=None):
        chk.count('function-instances')
        return I.run(fn_, args, st if st is not None else State(), sub)

    def single(fn_, outs):
        return len(outs) == 1 and outs[0].kind == 'ret'

    # ---- VirtAddr index accessors
    def va_idx():
        for lvl in (1, 2, 3, 4):
            fn_ = '%s::p%d_index' % (VA, lvl)
            o = r1(fn_, [va])
            chk.ob('index', 'VirtAddr::p%d_index = bits %d..%d' % ((lvl,) + (SP.INDEX[lvl][0], SP.INDEX[lvl][1] - 1)), single(fn_, o) and same(inner(o[0].val), idx_bits('va', lvl)),
                   'returns %r' % (o,), fn_site(I, fn_), sample=repr(o[0].val) if o else None)
            fn2 = VA + '::page_table_index'
            o = r1(fn2, [va, enum_val(I, LVL, SP.LEVEL_NAMES[lvl])])
            chk.ob('index', 'VirtAddr::page_table_index(level %d) = p%d_index' % (lvl, lvl), single(fn2, o) and same(inner(o[0].val), idx_bits('va', lvl)), 'returns %r' % (o,), fn_site(I, fn2))
        o = r1(VA + '::page_offset', [va])
        chk.ob('index', 'VirtAddr::page_offset = bits 0..11', single('', o) and same(inner(o[0].val), bv(16, sl('va', 0, 12), (0, 4))), 'returns %r' % (o,), fn_site(I, VA + '::page_offset'))
    chk.guard('index', 'VirtAddr accessors', va_idx)

    # ---- Page index accessors per size
    def page_idx():
        for sname, sb in SIZES.items():
            S = size_ty(sname)
            pg = I.sym_value(adt(PG, S), 'pg')
            leaf = SP.LEAF_LEVEL[sname]
            for lvl in (4, 3, 2, 1):
                if lvl < leaf:
                    continue
                want = bv(16, [0 if (SP.INDEX[lvl][0] + i) < sb else lit('pg', SP.INDEX[lvl][0] + i) for i in range(9)], (0, 7))
                cands = ['%s::<S>::p%d_index' % (PG, lvl), '%s::<structures::paging::page::%s>::p%d_index' % (PG, sname, lvl), '%s::p%d_index' % (PG, lvl)]
                fn_ = next((c for c in cands if c in I.fn), None)
                if fn_ is None:
                    chk.unproven('index', 'Page<%s>::p%d_index' % (sname, lvl), 'function not found (anchor lost)')
                    continue
                o = r1(fn_, [pg], {'S': S})
                chk.ob('index', 'Page<%s>::p%d_index = start-address bits %d..%d' % (sname, lvl, SP.INDEX[lvl][0], SP.INDEX[lvl][1] - 1), single(fn_, o) and same(inner(o[0].val), want),
                       'returns %r' % (o,), fn_site(I, fn_))
                fn2 = PG + '::<S>::page_table_index'
                o = r1(fn2, [pg, enum_val(I, LVL, SP.LEVEL_NAMES[lvl])], {'S': S})
                chk.ob('index', 'Page<%s>::page_table_index(level %d)' % (sname, lvl), single(fn2, o) and same(inner(o[0].val), want), 'returns %r' % (o,), fn_site(I, fn2))
    chk.guard('index', 'Page accessors', page_idx)

    # ---- from_page_table_indices*: the same bit permutation read backwards, canonical
    def from_indices():
        PTI = adt(PT + 'PageTableIndex')
        ix = {l: I.sym_value(PTI, 'p%d' % l) for l in (1, 2, 3, 4)}
        for sname, fn_, lvls in (('Size4KiB', PG + '::from_page_table_indices', (4, 3, 2, 1)), ('Size2MiB', PG + '::<structures::paging::page::Size2MiB>::from_page_table_indices_2mib', (4, 3, 2)),
                                 ('Size1GiB', PG + '::<structures::paging::page::Size1GiB>::from_page_table_indices_1gib', (4, 3))):
            if fn_ not in I.fn:
                alt = [n for n in I.fn if n.endswith(fn_.split('::')[-1])]
                fn_ = alt[0] if alt else fn_
            o = r1(fn_, [ix[l] for l in lvls])
            bits = [0] * 64
            for l in lvls:
                lo, hi = SP.INDEX[l]
                for i in range(lo, hi):
                    bits[i] = lit('p%d' % l, i - lo)
            for i in range(SP.VA_BITS, 64):
                bits[i] = lit('p4', 8)
            chk.ob('from-indices', '%s: address bits = the given indices at their fields, sign-extended from p4 bit 8, low bits zero' % fn_.split('::')[-1],
                   single(fn_, o) and same(inner(o[0].val), BV(64, bits)), 'returns %r\n      expected %r' % (o, BV(64, bits)), fn_site(I, fn_), sample=repr(o[0].val) if o else None)
    chk.guard('from-indices', 'from_page_table_indices', from_indices)

    # ---- index / offset constructors
    def ctors():
        for ty, width, fnn in (('PageTableIndex', 9, PT + 'PageTableIndex'), ('PageOffset', 12, PT + 'PageOffset')):
            o = r1(fnn + '::new', [BV.sym(16, 'v')])
            exhaustive(chk, 'ctor', ty + '::new accepts exactly values below 2^%d' % width, o, {'v': 16}, lambda a, w=width: ('ret', (a['v'],)) if a['v'] < (1 << w) else ('panic',), site=fn_site(I, fnn + '::new'))
            o = r1(fnn + '::new_truncate', [BV.sym(16, 'v')])
            chk.ob('ctor', ty + '::new_truncate keeps exactly the low %d bits' % width, single('', o) and same(inner(o[0].val), bv(16, sl('v', 0, width), (0, 16 - width))), 'returns %r' % (o,), fn_site(I, fnn + '::new_truncate'))
            val = I.sym_value(adt(fnn), 'x')
            for t, w in (('u16', 16), ('u32', 32), ('u64', 64), ('usize', 64)):
                fn_ = '<%s as core::convert::From<%s>>::from' % (t, fnn)
                if fn_ not in I.fn:
                    chk.unproven('ctor', 'From<%s> for %s' % (ty, t), 'impl not found (anchor lost)')
                    continue
                o = r1(fn_, [val])
                chk.ob('ctor', 'From<%s> for %s is a zero extension' % (ty, t), single('', o) and same(o[0].val, bv(w, sl('x', 0, width), (0, w - width))), 'returns %r' % (o,), fn_site(I, fn_))
    chk.guard('ctor', 'index/offset constructors', ctors)

    # ---- who may build an index / offset: "values never leave 0..512 / 0..4096" is an invariant of every place that assembles one
    chk.guard('who-may-construct', 'index/offset census', lambda: index_census(chk))

    # ---- level helpers
    def levels():
        for l in (1, 2, 3, 4):
            lv = enum_val(I, LVL, SP.LEVEL_NAMES[l])
            o = r1(LVL + '::next_lower_level', [lv])
            want = ('Some', (SP.LEVEL_NAMES[l - 1],)) if l > 1 else ('None',)
            chk.ob('level', 'next_lower_level(%d)' % l, single('', o) and eval_value(o[0].val, {}) == want, 'returns %r expected %s' % (o, want), fn_site(I, LVL + '::next_lower_level'))
            o = r1(LVL + '::next_higher_level', [lv])
            want = ('Some', (SP.LEVEL_NAMES[l + 1],)) if l < 4 else ('None',)
            chk.ob('level', 'next_higher_level(%d)' % l, single('', o) and eval_value(o[0].val, {}) == want, 'returns %r expected %s' % (o, want), fn_site(I, LVL + '::next_higher_level'))
            o = r1(LVL + '::table_address_space_alignment', [lv])
            chk.ob('level', 'table_address_space_alignment(%d) = 2^%d' % (l, SP.TABLE_SPAN_BITS[l]), single('', o) and eval_value(o[0].val, {}) == 1 << SP.TABLE_SPAN_BITS[l], 'returns %r' % (o,))
            o = r1(LVL + '::entry_address_space_alignment', [lv])
            chk.ob('level', 'entry_address_space_alignment(%d) = 2^%d' % (l, SP.ENTRY_SPAN_BITS[l]), single('', o) and eval_value(o[0].val, {}) == 1 << SP.ENTRY_SPAN_BITS[l], 'returns %r' % (o,))
    chk.guard('level', 'level helpers', levels)
    chk.floor('obligations', len(chk.obs), 58)
