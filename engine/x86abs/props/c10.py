"""C10 - clean_up frees exactly the empty in-range tables, once; translations unchanged (structural clauses)."""
from spec import paging as SP

from ..bits import BV, Aff, lit
from ..interp import Outcome, State, Unsupported
from ..values import UNIT, Array, Closure, Enum, Opaque, Ptr, Ref, Struct
from .common import newtype, adt, entry_pred_is_all_zero, arg_obj, bv, declare, enum_val, eval_value, fn_site, inner, same, size_ty, sl
from .mapper import MAPPED, MP, PG, PTE, REC, TBL, MapperLab, table_val
from .c20 import rec_addr

LEVEL = 'other'
LVL = 'structures::paging::page_table::PageTableLevel'
CLEANUP_SELF = {'mapped': MAPPED + "<'_, P>", 'recursive': REC + "<'_>"}


def resolve_helper(I, impl):
    """the recursive clean-up helper of an implementation: the crate function that CleanUp::clean_up_addr_range calls and that takes a
    PageTableLevel and a PageRangeInclusive - found through the call graph and the parameter types, not by name. Returns
    (function name, {role: parameter position}) with roles table / level / range / dealloc / walker / rindex."""
    from ..mirwalk import callees
    car = '<%s as %sCleanUp>::clean_up_addr_range' % (CLEANUP_SELF[impl], MP)
    f = I.fn.get(car)
    if f is None:
        raise Unsupported('CleanUp::clean_up_addr_range of %s not found' % impl)
    for bi, c, target, loc in callees(f):
        h = I.fn.get(target)
        if h is None or target == car:
            continue
        roles = {}
        for i in range(h['argc']):
            t = h['locals'][i + 1]
            tt = t.get('to') if t.get('k') == 'ref' else t
            nm = (tt or {}).get('name') or ''
            if nm == TBL:
                roles['table'] = i
            elif nm == LVL:
                roles['level'] = i
            elif nm == RANGE:
                roles['range'] = i
            elif nm.endswith('PageTableWalker'):
                roles['walker'] = i
            elif nm.endswith('PageTableIndex'):
                roles['rindex'] = i
            elif (tt or {}).get('k') == 'param':
                roles['dealloc'] = i
        if {'table', 'level', 'range', 'dealloc'} <= set(roles) and (('walker' in roles) if impl == 'mapped' else ('rindex' in roles)):
            return target, roles
    raise Unsupported('no clean-up helper (PageTable, PageTableLevel, PageRangeInclusive, deallocator) is called from %s' % car)


class _Helpers(dict):
    """HELPERS[impl] kept for callers that only need the name (resolved lazily per interpreter)"""


RANGE = 'structures::paging::page::PageRangeInclusive'
DEALLOC = 'structures::paging::FrameDeallocator::deallocate_frame'


def run(chk):
    chk.trusted += ['core iterator adaptors (enumerate/take/skip/filter over PageTable::iter_mut yield (i, slot i) in index order; C08 for iter_mut itself)',
                    'spec/paging.py', 'C20 recursive addresses', 'entries all-zero or PRESENT']
    chk.explanation = ('Decided on one widened loop iteration of each helper, for each level: (D1) deallocate_frame is called only after the recursive call on the child table returned true, '
                       'after set_unused of the slot being iterated, and with the frame read from that slot before the clear; on the false branch nothing is changed; the helper returns '
                       'iter().all(is_unused) of its own table evaluated after the loop; (D2) the top-level entry points pass (level-4 table, level Four, range) and discard the result (the root is '
                       'never freed), level One visits nothing, huge-page slots and absent slots are skipped without recursion, the recursive mapper filters out its recursive slot at level 4; '
                       '(D3) the index window is skip(index of range.start at this level) / take(index of range.end + 1), the child call gets the next lower level, the table reached through the '
                       'iterated slot, and a range clamped by max(.., range.start) / min(.., range.end) around the slot\'s span computed from align_down(range.start, table alignment) and '
                       'entry span * i; (D4) clean_up = clean_up_addr_range(0 ..= 0xffff_ffff_ffff_f000). Not decided: that these windows select exactly the overlapping tables for every range '
                       '(index arithmetic over values), idempotence, and "no empty table left behind".')
    for impl in ('mapped', 'recursive'):
        chk.guard('clean-up', impl, lambda impl=impl: helper(chk, impl))
        chk.guard('clean-up', impl + ' entry points', lambda impl=impl: entry_points(chk, impl))
    # the third mapper: OffsetPageTable's clean-up entry points hand their arguments, unchanged, to MappedPageTable's
    def offset_delegation():
        from .c01 import OFFSET, forward
        lab = MapperLab(chk)
        for meth in ('clean_up', 'clean_up_addr_range'):
            outer = "<%s<'_> as %sCleanUp>::%s" % (OFFSET, MP, meth)
            target = "<%s<'_, P> as %sCleanUp>::%s" % (MAPPED, MP, meth)
            forward(chk, lab, outer, target, None, None, cleanup=meth)
    chk.guard('delegation', 'OffsetPageTable clean-up', offset_delegation)
    # the iterator the helper loops over (modelled above as yielding (i, slot i)) really is that: iter()/iter_mut() map 0..512 to
    # the table's own slots, and is_empty / the `all` predicate mean all-zero
    from .c08 import iter_rules

    def r1(fn_, args, st=None, sub=None):
        chk.count('function-instances')
        return chk.I.run(fn_, args, st if st is not None else State(), sub)
    chk.guard('iter', 'PageTable::iter / iter_mut', lambda: iter_rules(chk, chk.I, r1))
    chk.floor('obligations', len(chk.obs), 29)


class Lab10(MapperLab):
    """adds a model of the opaque iterator chain: next() yields (i, slot i of the iterated table) with i < 512"""

    def __init__(self, chk):
        super().__init__(chk)
        I = self.I
        self.iter_table = None
        import re
        I.pattern_models.insert(0, (re.compile(r'as core::iter::Iterator>::next$'), self._m_next))

    def _m_next(self, ctx):
        I, st = ctx.I, ctx.st
        tbl = None
        for e in st.events:
            if e[0] == 'icall' and e[1].endswith('PageTable::iter_mut'):
                tbl = e[2][0]
        n = next(I.counter)
        st.events.append(('call', ctx.target, tuple(ctx.args), ctx.loc, ctx.fr.f['name'], n, None))
        if tbl is None or not isinstance(tbl, Ref):
            raise Unsupported('next() on an iterator that is not derived from PageTable::iter_mut')
        s2 = st.clone()
        s2.events.append(('opaque-result', 'next#%d' % n, 'None'))
        outs = [Outcome(s2, 'ret', Enum('core::option::Option', 0, 'None'))]
        name = 'i#%d' % n
        st.rng[name] = [(0, 511)]
        iv = I.reduce_bits(st, BV.sym(64, name))
        st.events.append(('opaque-result', 'next#%d' % n, 'Some'))
        entry = Ref(tbl.loc, tbl.path + (0, ('idx', iv)))
        st.events.append(('yield', n, iv, entry))
        outs.append(Outcome(st, 'ret', Enum('core::option::Option', 1, 'Some', [Struct('tuple', [iv, entry])])))
        return outs


def page_half(name):
    return newtype(None, PG, Struct('addr::VirtAddr', [BV(64, [0] * 12 + sl(name, 12, 48) + [lit(name, 47)] * 16)]))


def helper(chk, impl):
    lab = Lab10(chk)
    I = lab.I
    fn_, roles = resolve_helper(I, impl)
    site = fn_site(I, fn_)
    I.opaque_fns |= {fn_}
    nargs = I.fn[fn_]['argc']

    def by_role(vals):
        a = [None] * nargs
        for r, v in vals.items():
            if r in roles:
                a[roles[r]] = v
        if any(x is None for x in a):
            raise Unsupported('clean-up helper %s has a parameter of unknown role' % fn_)
        return a
    for lv in (4, 3, 2, 1):
        st = State()
        st.mem[('obj', 'T')] = table_val('T')
        rng = Struct(RANGE, [page_half('rs'), page_half('re')])
        level = enum_val(I, LVL, SP.LEVEL_NAMES[lv])
        if impl == 'mapped':
            wt = I.fn[fn_]['locals'][roles['walker'] + 1]
            wt = wt.get('to') if wt.get('k') == 'ref' else wt
            walker = Struct(wt.get('name'), [Opaque('frame-mapping')])
            st.mem[('arg', 'walker')] = walker
            args = by_role({'table': Ref(('obj', 'T')), 'walker': Ref(('arg', 'walker')), 'level': level, 'range': rng, 'dealloc': Opaque('deallocator')})
        else:
            args = by_role({'rindex': I.sym_value(adt('structures::paging::page_table::PageTableIndex'), 'r'), 'table': Ref(('obj', 'T')), 'level': level, 'range': rng,
                            'dealloc': Opaque('deallocator')})
        chk.count('function-instances')
        outs = I.run(fn_, args, st, {'P': {'k': 'param', 'name': 'P'}}, None, True)
        chk.count('paths', len(outs))
        rets = [o for o in outs if o.kind == 'ret']
        loops = [o for o in outs if o.kind == 'loop']
        tag = '%s helper at level %d' % (impl, lv)
        # ---- returns: the keep verdict for an empty range, else free / keep by iter().all(is_unused) of its own table. The verdict is a
        # bool (true = free) or a field-less enum of the crate; which value means "free" is read off the post-loop returns
        okr = bool(rets)
        frees, keeps, early = set(), set(), set()

        def vrepr(v):
            if isinstance(v, BV) and v.w == 1 and v.is_const():
                return ('b', v.value())
            if isinstance(v, Enum) and v.vi is not None and not v.fields:
                return ('e', v.vname)
            return None
        for o in rets:
            ev = [e for e in o.st.events if e[0] in ('call', 'icall')]
            names = [e[1].split('::')[-1] for e in ev]
            if vrepr(o.val) is not None and 'all' not in names and not any(n == 'next' or n == 'iter_mut' for n in names):
                early.add(vrepr(o.val))        # empty range: decided before the table is looked at
                continue
            alls = [e for e in ev if e[1].endswith('Iterator::all')]
            its = [e for e in ev if e[0] == 'icall' and e[1].endswith('PageTable::iter')]
            okr = okr and len(alls) == 1 and len(its) >= 1 and its[-1][2][0].loc == ('obj', 'T') and ev.index(alls[0]) > max([ev.index(x) for x in ev if x[1].endswith('::next')] + [-1])
            if okr:
                allbits = [b for b in (o.val.bits if isinstance(o.val, BV) else ()) if isinstance(b, tuple) and b[0] == 'v' and b[1].startswith('all#')]
                if isinstance(o.val, BV) and o.val.w == 1 and allbits:
                    # the bool is the emptiness test itself (or its negation)
                    frees.add(('b', 0 if allbits[0][3] else 1))
                    keeps.add(('b', 1 if allbits[0][3] else 0))
                elif vrepr(o.val) is not None:
                    # a constant verdict chosen by a branch on the emptiness test
                    full = o.st.events
                    brs = [e for e in full[full.index(alls[0]):] if e[0] == 'branch' and isinstance(e[1], tuple) and e[1][0] == 'v' and e[1][1].startswith('all#')]
                    okr = okr and len(brs) >= 1
                    if okr:
                        empty = (brs[0][2] == 1) != brs[0][1][3]
                        (frees if empty else keeps).add(vrepr(o.val))
                else:
                    okr = False
            # the emptiness test ranges over the whole table: `all` is applied to iter() itself, not to a window of it
            if okr:
                full = o.st.events
                irets = [i for i, e in enumerate(full) if e[0] == 'iret' and e[3] == its[-1][5]]
                okr = bool(irets) and not [e for e in full[irets[0] + 1:full.index(alls[0])] if e[0] in ('call', 'icall')]
                # and its receiver is what iter() returned
                recv = alls[0][2][0]
                if isinstance(recv, Ref):
                    # the value behind `&mut iterator` as it was when `all` was called (the call's snapshot of its reference arguments)
                    snap = alls[0][6] if len(alls[0]) > 6 else None
                    recv = snap[0] if snap else None
                okr = okr and recv is not None and (recv is full[irets[0]][2] or repr(recv) == repr(full[irets[0]][2]))
            # the verdict is only reached when the loop has run out of slots, never from inside an iteration
            okr = okr and not [e for e in o.st.events if e[0] == 'yield']
            # "empty" means every slot is all-zero (a non-present entry that still holds bits keeps the table alive)
            okr = okr and len(alls) == 1 and len(alls[0][2]) == 2 and entry_pred_is_all_zero(lab.I, alls[0][2][1])
        # one value means free, another keep, and the empty range keeps
        okr = okr and len(frees) == 1 and len(keeps) == 1 and frees != keeps and early <= keeps
        FREE = list(frees)[0] if len(frees) == 1 else ('b', 1)
        chk.ob('clean-up', '%s: returns false for an empty range, otherwise whether its own table is empty after the loop' % tag, okr, 'paths %r' % ([(o.kind, o.val) for o in outs][:6],), site)
        # an empty range (start > end) overlaps nothing: every path that looks at the table - an iteration, the emptiness verdict, a
        # panic - is taken only when start <= end is known, whatever form the test has. (The per-level index window does not imply
        # it: an inverted range with both ends inside one P1 table selects that table at every level.)
        def nonempty_known(st_):
            for _s, a_, b_ in st_.rel:
                ra_, rb_ = repr(a_), repr(b_)
                if 'rs[12..48]' in ra_ and 're[' not in ra_ and 're[12..48]' in rb_ and 'rs[' not in rb_:
                    return True
            return False
        touching = [o for o in outs if o.kind in ('loop', 'panic') or (o.kind == 'ret' and [e for e in o.st.events if e[0] in ('call', 'icall') and
                                                                                                 e[1].split('::')[-1] in ('all', 'next', 'iter_mut', 'iter')])]
        bad_e = [o for o in touching if not nonempty_known(o.st)]
        chk.ob('clean-up', '%s: the table is looked at only when the range is known to be non-empty (start <= end)' % tag, bool(touching) and not bad_e,
               '%d of %d table-touching paths are reachable with start > end' % (len(bad_e), len(touching)), site)
        # the walk never panics: every slot span, clamped range and child address it computes exists for every window, including the last
        # slot of the address space and the last slot below the non-canonical gap
        pan = [o for o in outs if o.kind == 'panic']
        chk.ob('clean-up', '%s: no panicking path (slot spans and clamped ranges are computed without overflow or non-canonical intermediates)' % tag, not pan,
               '; '.join(sorted({'%s at %s' % (o.val[0], o.val[1]) if isinstance(o.val, tuple) else repr(o.val) for o in pan}))[:300], site)
        if lv == 1:
            chk.ob('clean-up', '%s: level-1 tables are never iterated (no slot visited, nothing freed)' % tag, not loops and all(not [e for e in o.st.events if e[0] in ('yield',) or (e[0] == 'call' and e[1] == DEALLOC)] for o in outs),
                   '%d loop paths' % len(loops), site)
            continue
        good = bool(loops)
        why = set()
        n_free = 0
        # does the iterator chain carry a filter (checked below), or does the loop body decide about the recursive slot itself?
        filtered = any(e[0] == 'call' and e[1].endswith('Iterator::filter') for o in loops[:1] + rets for e in o.st.events)
        for o in loops:
            ev = o.st.events
            ys = [e for e in ev if e[0] == 'yield']
            if len(ys) != 1:
                why.add('%d slots yielded in one iteration' % len(ys))
                continue
            _, nid, iv, entry = ys[0]
            ename = 'T[%s]' % __import__('x86abs.values', fromlist=['fmt_idx']).fmt_idx(iv)
            after = ev[ev.index(ys[0]):]
            rec = [e for e in after if e[0] == 'call' and e[1] == fn_]
            deallocs = [e for e in after if e[0] == 'call' and e[1] == DEALLOC]
            writes = [e for e in after if e[0] == 'write']
            huge = o.st.env.get((ename, 7))
            present = o.st.env.get((ename, 0))
            if not rec:
                # skipped slot: huge page or absent; nothing may change
                if deallocs or writes:
                    why.add('a skipped slot is modified or freed')
                if not (huge == 1 or present == 0 or (impl == 'recursive' and lv == 4 and knows_index(I, o.st, iv, args[roles['rindex']], 1))):
                    why.add('slot skipped although it is a present non-huge entry (env huge=%s present=%s)' % (huge, present))
                continue
            if impl == 'recursive' and lv == 4 and not filtered and not knows_index(I, o.st, iv, args[roles['rindex']], 0):
                why.add('recursion into a level-4 slot that may be the recursive slot')
            if len(rec) != 1:
                why.add('%d recursive calls in one iteration' % len(rec))
                continue
            if not (present == 1 and huge == 0):
                why.add('recursion into a slot not known present and non-huge (present=%s huge=%s)' % (present, huge))
            a = rec[0][2]
            ti, li, ri = roles['table'], roles['level'], roles['range']
            # level passed: the next lower one
            if not (isinstance(a[li], Enum) and a[li].vname == SP.LEVEL_NAMES[lv - 1]):
                why.add('child level is %r' % (a[li],))
            # table passed: reached through the iterated slot
            ct = a[ti]
            if impl == 'mapped':
                ftp = [e for e in after if e[0] == 'call' and e[1].endswith('frame_to_pointer')]
                okt = len(ftp) == 1 and isinstance(ct, Ref) and ct.loc == ('obj', 'ptr:frame_to_pointer#%d' % ftp[0][5]) and \
                    all(inner(ftp[0][2][1]).bits[k] == lit(ename, k) for k in range(12, 52))
            else:
                okt = isinstance(ct, Ref) and ct.loc[0] == 'obj' and ct.loc[1].startswith('ptr@')
                if okt:
                    # recursive address of the level-(lv-1) table of the child range's start page
                    p = [x for x in after if x[0] == 'rawderef' and isinstance(x[1], Ptr)]
                    okt = len(p) == 1 and p[0][1].addr is not None
                    if okt:
                        addr = p[0][1].addr
                        cs = inner(a[ri].fields[0])
                        want = []
                        for b in rec_addr(lv - 1, 'x'):
                            want.append(cs.bits[b[1]] if isinstance(b, tuple) and b[0] == 'page' else b)
                        okt = all(x == y or (x in (0, 1) and isinstance(y, tuple)) for x, y in zip(I.resub(o.st, addr).bits, I.resub(o.st, BV(64, want)).bits)) and I.resub(o.st, addr).bits[12:21] is not None
            if not okt:
                why.add('the child table is not the one the iterated slot points to')
            # child range: clamped by max(.., range.start) and min(.., range.end)
            mm = [e for e in after[:after.index(rec[0])] if e[0] == 'minmax']
            kinds = [e[1] for e in mm]
            cr = a[ri]
            okc = 'max' in kinds and 'min' in kinds
            if okc:
                mx = [e for e in mm if e[1] == 'max'][0]
                mn = [e for e in mm if e[1] == 'min'][0]
                okc = same(mx[3], I.resub(o.st, rng.fields[0])) and same(mn[3], I.resub(o.st, rng.fields[1])) and (cr.fields[0] is mx[4] or same(cr.fields[0], mx[4])) and \
                    (cr.fields[1] is mn[4] or same(cr.fields[1], mn[4]))
            if not okc:
                why.add('the child range is not clamped to the parent range by max(start)/min(end)')
            # what happens after the recursive call
            res_id = rec[0][5]
            rsym = '%s#%d' % (fn_.split('::')[-1], res_id)
            br = [e for e in after[after.index(rec[0]):] if e[0] == 'branch' and isinstance(e[1], tuple) and e[1][0] == 'v' and e[1][1] == rsym]
            if FREE[0] == 'b':
                freed = bool(br) and ('b', int((br[0][2] == 1) != br[0][1][3])) == FREE
            else:
                # an enum verdict: the variant this path matched the child's result against
                freed = child_verdict(I, o.st, fn_, rsym) == FREE
            if freed:
                n_free += 1
                wr = [e for e in writes if isinstance(e[1], Ref) and e[1].loc == ('obj', 'T')]
                def zero_val(v):
                    v = inner(v) if isinstance(v, Struct) else v     # the raw word, or the whole entry assigned at once
                    return isinstance(v, BV) and v.is_const() and v.value() == 0
                okf = len(deallocs) == 1 and len(wr) == 1 and zero_val(wr[0][3]) and same(I.resub(o.st, wr[0][1].path[1][1]), I.resub(o.st, iv)) and \
                    after.index(wr[0]) < after.index(deallocs[0]) and after.index(rec[0]) < after.index(wr[0])
                if okf:
                    fr = inner(deallocs[0][2][1])
                    okf = all(fr.bits[k] == lit(ename, k) for k in range(12, 52)) and all(fr.bits[k] == 0 for k in list(range(12)) + list(range(52, 64)))
                if not okf:
                    why.add('free protocol violated: expected child-empty -> set_unused(slot) -> deallocate_frame(frame read from the slot); writes %r deallocs %r' % (wr, [d[2] for d in deallocs]))
            else:
                if deallocs or writes:
                    why.add('the slot is modified or its frame freed although the child table is not empty')
        chk.ob('clean-up', '%s: one iteration skips huge/absent slots, recurses one level down into the slot\'s table with the clamped range, and frees the child only when it reports empty (unlink before free)' % tag,
               good and not why and n_free >= 1, '; '.join(sorted(why)) or '%d iteration paths, %d freeing' % (len(loops), n_free), site)
        # ---- window: skip(index(range.start)) / take(index(range.end) + 1)
        okw = False
        for o in loops[:1] + rets:
            ev = [e for e in o.st.events if e[0] == 'call']
            tk = [e for e in ev if e[1].endswith('Iterator::take')]
            sk = [e for e in ev if e[1].endswith('Iterator::skip')]
            if tk and sk:
                lo, hi = SP.INDEX[lv]
                want_take = BV(64, sl('re', lo, hi) + [0] * 55).get_aff().add(Aff({}, 1))
                okw = I.aff_equal(o.st, I.exact_aff(o.st, tk[0][2][1]), want_take) and same(sk[0][2][1], BV(64, sl('rs', lo, hi) + [0] * 55))
                break
        chk.ob('clean-up', '%s: iterates slots index(range.start) ..= index(range.end) of this level' % tag, okw, 'take/skip arguments', site)
        if impl == 'recursive' and not filtered:
            # no filter in the chain: the iteration rule above demanded that a level-4 iteration recurses only when the slot is known
            # not to be the recursive one, and that no other level skips a slot for that reason
            chk.ob('clean-up', '%s: the slot filter %s' % (tag, 'drops exactly the recursive slot' if lv == 4 else 'keeps every slot'), good and not why,
                   'decided in the loop body; ' + ('; '.join(sorted(why)) or 'ok'), site)
        elif impl == 'recursive':
            # the filter closure drops the recursive slot at level 4 only
            flt = None
            for o in loops[:1] + rets:
                for e in o.st.events:
                    if e[0] == 'call' and e[1].endswith('Iterator::filter'):
                        flt = e[2][1]
            okf = isinstance(flt, Closure)
            if okf:
                cf = I.fn[flt.name]
                s2 = (loops[:1] + rets)[0].st.clone()
                s2.mem[('obj', 'env')] = flt
                s2.mem[('obj', 'item')] = Struct('tuple', [BV.sym(64, 'k'), Opaque('slot')])
                co = I.run_fn(cf, [Ref(('obj', 'env')), Ref(('obj', 'item'))], s2, {})
                vals = set()
                for x in co:
                    if x.kind == 'ret' and isinstance(x.val, BV):
                        vals.add(repr(x.val))
                if lv == 4:
                    # false exactly when k == recursive index
                    okf = len(co) >= 1 and all(x.kind == 'ret' for x in co)
                    from ..bits import eq_bit, b_not
                    want = b_not(eq_bit(tuple(sl('k', 0, 64)), tuple(sl('r', 0, 9) + [0] * 55)))
                    okf = okf and all((x.val.bits[0] == want) or (x.val.is_const()) for x in co) and any(not x.val.is_const() or x.val.value() == 0 for x in co)
                else:
                    okf = all(x.kind == 'ret' and x.val.is_const() and x.val.value() == 1 for x in co)
            chk.ob('clean-up', '%s: the slot filter %s' % (tag, 'drops exactly the recursive slot' if lv == 4 else 'keeps every slot'), okf, 'closure %r' % (flt,), site)


def child_verdict(I, st, fn_, rsym):
    """the variant of the helper's (field-less enum) result that this path has matched the child's result against, or None"""
    rt = I.fn[fn_]['locals'][0]
    vs = I.enum_variants(rt) if rt.get('k') == 'adt' else None
    if not vs:
        return None
    bits = {k[1]: v for k, v in st.env.items() if k[0] == rsym}
    feas = []
    for vn, d, nf in vs:
        if all(bits.get(i, (d >> i) & 1) == (d >> i) & 1 for i in range(64)):
            feas.append(vn)
    sw = [v for k, v in st.facts.items() if isinstance(k, tuple) and k and k[0] == 'swnot' and rsym in repr(k)]
    for taken in sw:
        feas = [vn for vn in feas if [d for n, d, _ in vs if n == vn][0] not in taken]
    return ('e', feas[0]) if len(feas) == 1 and (bits or sw) else None


def knows_index(I, st, iv, rindex, equal):
    """the path has established that the iterated slot index is (equal=1) / is not (equal=0) the recursive index"""
    from ..bits import eq_bit
    r = inner(rindex)
    a = I.resub(st, iv)
    b = I.resub(st, r)
    n = min(a.w, b.w)
    if any(x != 0 for x in a.bits[n:]) or any(x != 0 for x in b.bits[n:]):
        return False
    p = eq_bit(tuple(a.bits[:n]), tuple(b.bits[:n]))
    if p in (0, 1):
        return p == equal
    s2 = st.clone()
    return not I.assume(s2, p, 1 - equal) or s2.dead


def entry_points(chk, impl):
    lab = Lab10(chk)
    I = lab.I
    ty = {'mapped': MAPPED + "<'_, P>", 'recursive': REC + "<'_>"}[impl]
    car = '<%s as %sCleanUp>::clean_up_addr_range' % (ty, MP)
    cu = '<%s as %sCleanUp>::clean_up' % (ty, MP)
    helperfn, roles = resolve_helper(I, impl)
    # clean_up_addr_range: helper(root, Four, range, dealloc), result discarded
    st = lab.setup(impl)
    I.opaque_fns |= {helperfn}
    rng = Opaque('the-range')
    outs = I.run(car, [Ref(('arg', 'self')), rng, Opaque('deallocator')], st, {'D': {'k': 'param', 'name': 'D'}, 'P': {'k': 'param', 'name': 'P'}})
    chk.count('function-instances')
    ok = bool(outs) and all(o.kind == 'ret' for o in outs)
    for o in outs:
        calls = [e for e in o.st.events if e[0] == 'call']
        ok = ok and len(calls) == 1 and calls[0][1] == helperfn
        if ok:
            a = calls[0][2]
            ti, li, ri = roles['table'], roles['level'], roles['range']
            ok = isinstance(a[ti], Ref) and a[ti].loc == ('obj', 'P4') and isinstance(a[li], Enum) and a[li].vname == 'Four' and a[ri] is rng
            ok = ok and not [e for e in o.st.events if e[0] in ('write', 'rawderef', 'zero', 'branch', 'asm')] and (isinstance(o.val, Struct) and not o.val.fields)
    chk.ob('clean-up', '%s clean_up_addr_range: one helper call on (level-4 table, Four, the given range); its result is discarded, the root is never freed' % impl, ok, 'paths %r' % (outs,), fn_site(I, car))
    # clean_up: the whole address space
    st = lab.setup(impl)
    I.opaque_fns |= {car}
    outs = I.run(cu, [Ref(('arg', 'self')), Opaque('deallocator')], st, {'D': {'k': 'param', 'name': 'D'}, 'P': {'k': 'param', 'name': 'P'}})
    chk.count('function-instances')
    ok = len(outs) == 1 and outs[0].kind == 'ret'
    if ok:
        calls = [e for e in outs[0].st.events if e[0] == 'call']
        ok = len(calls) == 1 and calls[0][1] == car
        if ok:
            r = calls[0][2][1]
            ok = isinstance(r, Struct) and eval_value(inner(r.fields[0]), {}) == 0 and eval_value(inner(r.fields[1]), {}) == 0xfffffffffffff000
    chk.ob('clean-up', '%s clean_up = clean_up_addr_range(page 0 ..= page 0xffff_ffff_ffff_f000)' % impl, ok, 'paths %r' % (outs,), fn_site(I, cu))
