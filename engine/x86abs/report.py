"""Obligation bookkeeping, known-finding matching, evidence and replay files."""
import json
import os
import sys
import time
import traceback

from .facts import VERIF

PROVED, REFUTED, UNPROVEN = 'PROVED', 'REFUTED', 'UNPROVEN'


class Check:
    def __init__(self, pid, tier, level, seed=0):
        self.pid = pid
        self.tier = tier
        self.level = level
        self.seed = seed
        self.t0 = time.time()
        self.obs = []          # (key, status, detail, site)
        self.keys = set()
        self.floors = []       # (name, count, minimum)
        self.analysed = {}     # counters of what was analysed
        self.samples = []
        self.trusted = []
        self.assumptions = []
        self.explanation = ''
        self.rules = {}
        self.nontrivial = set()
        self.known = load_known(pid)
        self.verbose = bool(os.environ.get('VERIF_VERBOSE'))

    # ---- recording
    def ob(self, rule, inst, ok, detail='', site=None, status=None, nontrivial=True, sample=None):
        """one obligation. key = rule | instance (no line numbers)."""
        key = '%s | %s' % (rule, inst)
        if key in self.keys:
            n = 2
            while '%s #%d' % (key, n) in self.keys:
                n += 1
            key = '%s #%d' % (key, n)
        self.keys.add(key)
        if status is None:
            status = PROVED if ok else REFUTED
        self.obs.append((key, status, detail, site))
        self.rules[rule] = self.rules.get(rule, 0) + 1
        if nontrivial:
            self.nontrivial.add(key)
        if sample is not None and len(self.samples) < 12 and status == PROVED:
            self.samples.append({'obligation': key, 'found': sample})
        if self.verbose or status != PROVED:
            pass
        return status == PROVED

    def unproven(self, rule, inst, detail, site=None):
        return self.ob(rule, inst, False, detail, site, status=UNPROVEN)

    def guard(self, rule, inst, fn, site=None):
        """run fn(); an analysis failure (lost precision, unsupported construct) is an UNPROVEN obligation"""
        from .interp import Unsupported
        try:
            return fn()
        except Unsupported as e:
            self.unproven(rule, inst, 'analysis could not decide: %s' % e, site)
        except (KeyError, IndexError, AttributeError, TypeError, AssertionError, ValueError) as e:
            tb = traceback.format_exc().strip().split('\n')
            self.unproven(rule, inst, 'analysis error (anchor lost?): %r at %s' % (e, tb[-3].strip() if len(tb) >= 3 else ''), site)
        return None

    def floor(self, name, count, minimum):
        self.floors.append((name, count, minimum))
        if count < minimum:
            self.ob('floor', name, False, 'found %d instances, expected at least %d (anchor lost; failing closed)' % (count, minimum),
                    nontrivial=False)
        else:
            self.ob('floor', name, True, '%d >= %d' % (count, minimum), nontrivial=False)

    def count(self, name, n=1):
        self.analysed[name] = self.analysed.get(name, 0) + n

    def sample(self, s):
        if len(self.samples) < 12:
            self.samples.append(s)

    # ---- finishing
    def finish(self, checker_cmd):
        viol = []
        known_hit = []
        for key, status, detail, site in self.obs:
            if status == PROVED:
                continue
            kf = self.known.get(key)
            if kf is not None:
                known_hit.append((key, kf))
                continue
            viol.append((key, status, detail, site))
        wall = time.time() - self.t0
        n_ob = len(self.obs)
        n_ok = sum(1 for o in self.obs if o[1] == PROVED)
        print('[%s] tier=%s analysed: %s' % (self.pid, self.tier, ', '.join('%s=%d' % kv for kv in sorted(self.analysed.items()))))
        print('[%s] rules: %s' % (self.pid, ', '.join('%s=%d' % kv for kv in sorted(self.rules.items()))))
        print('[%s] obligations=%d proved=%d known-findings=%d violations=%d wall=%.1fs' % (self.pid, n_ob, n_ok, len(known_hit), len(viol), wall))
        for key, kf in known_hit:
            print('KNOWN-FINDING: property=%s %s -- %s' % (self.pid, key, kf.get('what', '')))
        unused = [k for k in self.known if k not in {k2 for k2, _ in known_hit}]
        for k in unused:
            print('[%s] note: listed known finding no longer reported: %s' % (self.pid, k))
        replay = None
        if viol:
            rdir = os.path.join(os.environ.get('VERIF_EVIDENCE_DIR') or os.path.join(VERIF, 'evidence'), 'replay')
            os.makedirs(rdir, exist_ok=True)
            replay = os.path.join(rdir, '%s.json' % self.pid)
            with open(replay, 'w') as fh:
                json.dump({'property': self.pid, 'tier': self.tier,
                           'violations': [{'key': k, 'status': s, 'detail': d, 'site': si} for k, s, d, si in viol]}, fh, indent=1)
            for k, s, d, si in viol:
                print('  %s %s\n      %s%s' % (s, k, d, ('\n      at ' + si) if si else ''))
            print('VIOLATION property=%s replay=%s' % (self.pid, replay))
        try:
            from .interp import Interp
            touched = sorted(Interp.TOUCHED)
        except Exception:
            touched = []
        cov = {
            'functions_interpreted': len(touched),
            'functions_interpreted_names': touched,
            'obligations': n_ob,
            'discharged': n_ok,
            'checker_cmd': checker_cmd,
            'trusted_base': self.trusted,
            'evaluations': n_ob,
            'distinct_nontrivial': len(self.nontrivial),
            'rule': 'one obligation per (rule, function instance / constant / layout / asm block / input case); non-trivial = '
                    'the expected value is not a constant independent of the code (floors and counts excluded); keys are distinct by construction',
            'samples': self.samples or [{'obligation': o[0], 'status': o[1]} for o in self.obs[:5]],
            'explanation': self.explanation,
            'analysed': self.analysed,
            'rule_instances': self.rules,
            'floors': [{'name': n, 'count': c, 'minimum': m} for n, c, m in self.floors],
            'known_findings_matched': [k for k, _ in known_hit],
            'exhaustive': True,
        }
        ev = {'property_id': self.pid, 'tier': self.tier, 'seed': self.seed, 'level': self.level, 'coverage': cov,
              'assumptions': self.assumptions, 'wall_s': round(wall, 2), 'violations': len(viol)}
        evdir = os.environ.get('VERIF_EVIDENCE_DIR') or os.path.join(VERIF, 'evidence')
        os.makedirs(evdir, exist_ok=True)
        with open(os.path.join(evdir, '%s.json' % self.pid), 'w') as fh:
            json.dump(ev, fh, indent=1, default=str)
        return 1 if viol else 0


def load_known(pid):
    p = os.path.join(VERIF, 'known_findings.json')
    if not os.path.exists(p):
        return {}
    with open(p) as fh:
        d = json.load(fh)
    out = {}
    for e in d.get('findings', []):
        if e.get('property') == pid:
            out[e['key']] = e
    return out
