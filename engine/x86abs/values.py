"""Abstract non-integer values (immutable; updates are functional)."""
from .bits import BV, fmt_bits


class Struct:
    __slots__ = ('name', 'fields')

    def __init__(self, name, fields):
        self.name = name
        self.fields = tuple(fields)

    def with_field(self, i, v):
        f = list(self.fields)
        while len(f) <= i:
            f.append(UNIT)
        f[i] = v
        return Struct(self.name, f)

    def __repr__(self):
        n = self.name.split('::')[-1]
        if n == 'tuple' and not self.fields:
            return '()'
        return '%s{%s}' % (n, ', '.join(repr(v) for v in self.fields if not (isinstance(v, Struct) and not v.fields and v.name != 'tuple')))


class Enum:
    """vi is None for an unknown variant of a field-less enum (disc is then a symbolic BV)"""
    __slots__ = ('name', 'vi', 'vname', 'fields', 'disc')

    def __init__(self, name, vi, vname, fields=(), disc=None):
        self.name = name
        self.vi = vi
        self.vname = vname
        self.fields = tuple(fields)
        self.disc = disc

    def with_field(self, i, v):
        f = list(self.fields)
        while len(f) <= i:
            f.append(UNIT)
        f[i] = v
        return Enum(self.name, self.vi, self.vname, f, self.disc)

    def __repr__(self):
        n = self.name.split('::')[-1]
        if self.vi is None:
            return '%s::?(%r)' % (n, self.disc)
        if self.fields:
            return '%s::%s(%s)' % (n, self.vname, ', '.join(repr(v) for v in self.fields))
        return '%s::%s' % (n, self.vname)


class Ref:
    """reference or raw pointer to an abstract location"""
    __slots__ = ('loc', 'path', 'raw')

    def __init__(self, loc, path=(), raw=False):
        self.loc = loc
        self.path = tuple(path)
        self.raw = raw

    def __repr__(self):
        return '&%s%s' % (fmt_loc(self.loc), fmt_path(self.path))


class Ptr:
    """raw pointer known only by its integer address (a BV) or by the opaque call that produced it"""
    __slots__ = ('addr', 'tag', 'off')

    def __init__(self, addr=None, tag=None, off=None):
        self.addr = addr
        self.tag = tag
        self.off = off  # element offset (BV) added by ptr::add

    def key(self):
        if self.tag is not None:
            k = 'ptr:' + self.tag
        else:
            k = 'ptr@' + (('%#x' % self.addr.value()) if self.addr.is_const() else fmt_bits(self.addr.bits))
        return k

    def __repr__(self):
        return '<%s%s>' % (self.key(), ('+' + repr(self.off)) if self.off is not None else '')


class Array:
    """array / slice contents keyed by the abstract index; `default` is the value of untouched elements
    (None: created lazily as fresh symbolic elements by `mk(name)`)"""
    __slots__ = ('name', 'elems', 'default', 'mk', 'length')

    def __init__(self, name, elems=None, default=None, mk=None, length=None):
        self.name = name
        self.elems = dict(elems or {})  # key -> (index BV, value)
        self.default = default
        self.mk = mk
        self.length = length

    def get(self, idx, alias=None):
        alias = alias or may_alias
        k = idx.key()
        if k in self.elems:
            return self.elems[k][1], self
        for k2, (i2, v2) in self.elems.items():
            if alias(idx, i2):
                # unknown relation with a known slot: an unconstrained fresh element over-approximates both cases
                if self.mk is None:
                    return None, self
                break
        if self.default is not None:
            return self.default, self
        if self.mk is None:
            return None, self
        v = self.mk('%s[%s]' % (self.name, fmt_idx(idx)))
        n = Array(self.name, self.elems, self.default, self.mk, self.length)
        n.elems[k] = (idx, v)
        return v, n

    def set(self, idx, v, alias=None):
        alias = alias or may_alias
        n = Array(self.name, self.elems, self.default, self.mk, self.length)
        k = idx.key()
        for k2, (i2, v2) in list(n.elems.items()):
            if k2 != k and alias(idx, i2):
                n.elems[k2] = (i2, Opaque('havoc'))
        n.elems[k] = (idx, v)
        return n

    def __repr__(self):
        return 'Array(%s; %s%s)' % (self.name, ', '.join('%s: %r' % (fmt_idx(i), v) for i, v in self.elems.values()),
                                    (' default=%r' % (self.default,)) if self.default is not None else '')


def fmt_idx(idx):
    if idx.is_const():
        return str(idx.value())
    if idx.has_top() and idx.aff is not None:
        return idx.aff.fmt(idx.w)
    return fmt_bits(idx.bits)


def may_alias(a, b):
    """can two abstract indices denote the same element?"""
    if a.key() == b.key():
        return True
    if a.is_const() and b.is_const():
        return a.value() == b.value()
    for x, y in zip(a.bits, b.bits):
        if x in (0, 1) and y in (0, 1) and x != y:
            return False
    aa, ab = a.get_aff(), b.get_aff()
    if aa is not None and ab is not None:
        d = aa.add(ab, -1).norm(a.w)
        if d.is_const() and d.const != 0:
            return False
    return True


class Opaque:
    __slots__ = ('tag',)

    def __init__(self, tag):
        self.tag = tag

    def __repr__(self):
        return '<%s>' % self.tag


class FnItem:
    __slots__ = ('c',)

    def __init__(self, c):
        self.c = c

    def __repr__(self):
        return 'fn ' + self.c['name']


class Closure:
    __slots__ = ('name', 'captures')

    def __init__(self, name, captures):
        self.name = name
        self.captures = tuple(captures)

    def with_field(self, i, v):
        f = list(self.captures)
        f[i] = v
        return Closure(self.name, f)

    @property
    def fields(self):
        return self.captures

    def __repr__(self):
        return 'closure %s(%s)' % (self.name.split('::')[-2:], ', '.join(repr(c) for c in self.captures))


UNIT = Struct('tuple', ())


def fmt_loc(loc):
    if loc[0] == 'L':
        return '_%d@%d' % (loc[2], loc[1])
    return ':'.join(str(x) for x in loc)


def fmt_path(path):
    s = ''
    for p in path:
        if isinstance(p, tuple) and p[0] == 'idx':
            s += '[%s]' % fmt_idx(p[1])
        else:
            s += '.%s' % (p,)
    return s


def map_value(v, fb):
    """rebuild a value applying fb to every BV leaf (fb returns a BV)"""
    if isinstance(v, BV):
        return fb(v)
    if isinstance(v, Struct):
        nf = [map_value(x, fb) for x in v.fields]
        if all(a is b for a, b in zip(nf, v.fields)):
            return v
        return Struct(v.name, nf)
    if isinstance(v, Enum):
        nf = [map_value(x, fb) for x in v.fields]
        nd = fb(v.disc) if v.disc is not None else None
        if all(a is b for a, b in zip(nf, v.fields)) and nd is v.disc:
            return v
        return Enum(v.name, v.vi, v.vname, nf, nd)
    if isinstance(v, Array):
        ne = {}
        ch = False
        for k, (i, x) in v.elems.items():
            ni, nx = fb(i), map_value(x, fb)
            if ni is not i or nx is not x:
                ch = True
            ne[ni.key()] = (ni, nx)
        nd = map_value(v.default, fb) if v.default is not None else None
        if not ch and nd is v.default:
            return v
        return Array(v.name, ne, nd, v.mk, v.length)
    if isinstance(v, Closure):
        nf = [map_value(x, fb) for x in v.captures]
        if all(a is b for a, b in zip(nf, v.captures)):
            return v
        return Closure(v.name, nf)
    if isinstance(v, Ptr):
        na = fb(v.addr) if v.addr is not None else None
        no = fb(v.off) if v.off is not None else None
        if na is v.addr and no is v.off:
            return v
        return Ptr(na, v.tag, no)
    if isinstance(v, Ref):
        np = []
        ch = False
        for p in v.path:
            if isinstance(p, tuple) and p[0] == 'idx':
                ni = fb(p[1])
                if ni is not p[1]:
                    ch = True
                np.append(('idx', ni))
            else:
                np.append(p)
        if not ch:
            return v
        return Ref(v.loc, np, v.raw)
    return v
