"""Syntactic walks over the JSON MIR (censuses, call graph, dominators)."""


def statements(f):
    for bi, b in enumerate(f['blocks']):
        if b.get('cleanup'):
            continue
        for s in b['s']:
            yield bi, s


def terminators(f):
    for bi, b in enumerate(f['blocks']):
        if b.get('cleanup') or not b['t']:
            continue
        yield bi, b['t']


def place_base_types(f, pl):
    """types along a place: [(type before projection elem, elem)]"""
    t = f['locals'][pl['l']]
    out = []
    for e in pl['p']:
        out.append((t, e))
        k = e['k']
        if k == 'field':
            t = e['ty']
        elif k == 'deref':
            t = t.get('to', {'k': 'other'})
        elif k in ('index', 'cindex'):
            t = t.get('elem', {'k': 'other'})
    return out, t


def ty_mentions(t, names):
    if not isinstance(t, dict):
        return False
    if t.get('k') == 'adt':
        if t['name'] in names:
            return True
        return any(ty_mentions(a, names) for a in t.get('args', []))
    if t.get('k') in ('ref', 'rawptr'):
        return ty_mentions(t['to'], names)
    if t.get('k') == 'tuple':
        return any(ty_mentions(e, names) for e in t['elems'])
    if t.get('k') in ('array', 'slice'):
        return ty_mentions(t['elem'], names)
    return False


def callees(f):
    """(block, callee const, resolved target name or None, loc)"""
    for bi, t in terminators(f):
        if t['k'] == 'call' and t['f'].get('k') == 'fn':
            c = t['f']
            res = c.get('res')
            yield bi, c, (res['name'] if res else None), t['loc']


def is_user_fn(f):
    """functions written in the crate (not derives, not promoted constants, not closures of derives)"""
    if 'promoted[' in f['name']:
        return False
    im = f.get('impl') or {}
    return not im.get('derived')


def successors(f):
    succ = {}
    for i, b in enumerate(f['blocks']):
        t = b['t']
        out = []
        if t:
            k = t['k']
            if k in ('goto', 'drop', 'assert'):
                out = [t['t']]
            elif k == 'switch':
                out = [x[1] for x in t['ts']] + [t['o']]
            elif k == 'call':
                out = [t['t']] if t['t'] is not None else []
            elif k == 'asm':
                out = list(t['ts'])
        succ[i] = [x for x in out if not f['blocks'][x].get('cleanup')]
    return succ


def dominators(f):
    """immediate-dominator-free dominator sets (small CFGs): dom[b] = set of blocks dominating b"""
    succ = successors(f)
    n = len(f['blocks'])
    preds = {i: [] for i in range(n)}
    for a, outs in succ.items():
        for b in outs:
            preds[b].append(a)
    reach = set()
    work = [0]
    while work:
        x = work.pop()
        if x in reach:
            continue
        reach.add(x)
        work.extend(succ[x])
    dom = {b: set(reach) for b in reach}
    dom[0] = {0}
    changed = True
    while changed:
        changed = False
        for b in sorted(reach):
            if b == 0:
                continue
            ps = [p for p in preds[b] if p in reach]
            new = set.intersection(*[dom[p] for p in ps]) if ps else set()
            new = new | {b}
            if new != dom[b]:
                dom[b] = new
                changed = True
    return dom, reach


def _places_in(x, out):
    if isinstance(x, dict):
        if 'l' in x and 'p' in x and isinstance(x['p'], list):
            out.append(x)
        for v in x.values():
            _places_in(v, out)
    elif isinstance(x, list):
        for v in x:
            _places_in(v, out)


def all_places(f):
    """every place mentioned in the non-cleanup blocks of a function"""
    out = []
    for b in f['blocks']:
        if b.get('cleanup'):
            continue
        _places_in(b['s'], out)
        if b['t']:
            _places_in(b['t'], out)
    return out


def raw_deref_sites(f):
    """number of raw-pointer dereferences (projection Deref on a raw pointer) in a function; each MIR place counts once"""
    n = 0
    seen = set()
    for pl in all_places(f):
        for i, e in enumerate(pl['p']):
            if e.get('k') == 'deref' and e.get('raw'):
                key = (pl['l'], i, id(pl))
                n += 1
    return n


def call_graph(facts):
    """caller -> set of resolved callee names (or trait-method names when unresolved)"""
    g = {}
    for f in facts['fns']:
        s = g.setdefault(f['name'], set())
        for bi, c, target, loc in callees(f):
            s.add(target or c['name'])
    return g


def reaches(g, start, pred):
    seen = set()
    work = [start]
    while work:
        x = work.pop()
        if x in seen:
            continue
        seen.add(x)
        for y in g.get(x, ()):
            if pred(y):
                return True
            work.append(y)
    return False


def ctor_refs(f, names):
    """tuple-struct constructors of `names` used as function values (`opt.map(PhysAddr)`): the aggregate is then built inside the
    compiler-generated constructor function, not in a statement of `f`"""
    out = []

    def scan(o):
        if isinstance(o, dict):
            if o.get('k') == 'fn' and o.get('name') in names and 'constructor' in str((o.get('res') or {}).get('inst', '')):
                out.append(o['name'])
            for v in o.values():
                scan(v)
        elif isinstance(o, list):
            for v in o:
                scan(v)
    for b in f['blocks']:
        t = b['t']
        if t and t['k'] == 'call':
            scan(t['args'])
        for s_ in b['s']:
            if s_['k'] == 'assign':
                scan(s_['rv'])
    return out
