"""Fact extraction: runs the rustc_private driver over /repo (or the witness crate) and loads the JSON.

Facts are cached under /verif/.cache keyed by a content hash of every input file, so a change to /repo's
working tree always triggers a re-extraction; nothing from /repo is ever executed.
"""
import fcntl
import hashlib
import json
import os
import shutil
import subprocess
import sys
import tempfile
import time

VERIF = os.path.dirname(os.path.dirname(os.path.dirname(os.path.abspath(__file__))))
REPO = os.environ.get('X86_REPO', '/repo')
DRV = os.path.join(VERIF, 'engine', 'x86facts', 'target', 'release', 'drv')
CACHE = os.path.join(VERIF, '.cache') if REPO == '/repo' else os.path.join(VERIF, '.cache', 'scratch')

CONFIGS = {
    # name: (cargo feature args, extra RUSTFLAGS)
    'default': ([], ''),
    # the other feature sets the crate supports (props/configs.py compares the analysed functions across them)
    'none': (['--no-default-features'], ''),
    'instr-only': (['--no-default-features', '--features', 'instructions'], ''),
    'nightly-only': (['--no-default-features', '--features', 'nightly'], ''),
    'release': ([], '-C overflow-checks=off -C debug-assertions=off'),
}


def _hash_tree(paths):
    h = hashlib.sha256()
    for root in paths:
        if os.path.isfile(root):
            files = [root]
        else:
            files = []
            for d, dirs, fs in os.walk(root):
                dirs[:] = sorted(x for x in dirs if x not in ('target', '.git'))
                for f in sorted(fs):
                    files.append(os.path.join(d, f))
        for f in files:
            h.update(f.encode())
            h.update(b'\0')
            with open(f, 'rb') as fh:
                h.update(fh.read())
            h.update(b'\0')
    return h.hexdigest()[:20]


def ensure_driver():
    if not os.path.exists(DRV):
        subprocess.run([os.path.join(VERIF, 'setup.sh')], check=True, stdout=sys.stderr)
    return DRV


def _sysroot():
    return subprocess.check_output(['rustc', '+nightly', '--print', 'sysroot'], text=True).strip()


def _run_driver(crate_dir, crates, feature_args, extra_rustflags, out_path):
    drv = ensure_driver()
    tdir = tempfile.mkdtemp(prefix='x86facts-target-')
    odir = tempfile.mkdtemp(prefix='x86facts-out-')
    try:
        env = dict(os.environ)
        env['LD_LIBRARY_PATH'] = _sysroot() + '/lib' + (':' + env['LD_LIBRARY_PATH'] if env.get('LD_LIBRARY_PATH') else '')
        env['RUSTFLAGS'] = ('-Zmir-opt-level=0 -Awarnings ' + extra_rustflags).strip()
        env['RUSTC_WORKSPACE_WRAPPER'] = drv
        env['CARGO_TARGET_DIR'] = tdir
        env['CARGO_NET_OFFLINE'] = 'true'
        env['X86FACTS_OUT'] = odir
        env['X86FACTS_CRATES'] = ','.join(crates)
        env.pop('RUSTC_WRAPPER', None)
        cmd = ['cargo', '+nightly', 'check', '--offline', '--lib'] + feature_args
        p = subprocess.run(cmd, cwd=crate_dir, env=env, stdout=subprocess.PIPE, stderr=subprocess.STDOUT, text=True)
        if p.returncode != 0:
            raise RuntimeError('fact extraction failed (the tree does not compile?):\n' + p.stdout[-4000:])
        outs = sorted(os.listdir(odir))
        res = {}
        for o in outs:
            cn = o.split('.')[0]
            with open(os.path.join(odir, o)) as fh:
                res[cn] = json.load(fh)
        missing = [c for c in crates if c not in res]
        if missing:
            raise RuntimeError('fact extraction produced no facts for %s (wrapper skipped?)\n%s' % (missing, p.stdout[-2000:]))
        with open(out_path + '.tmp', 'w') as fh:
            json.dump(res, fh)
        os.replace(out_path + '.tmp', out_path)
    finally:
        shutil.rmtree(tdir, ignore_errors=True)
        shutil.rmtree(odir, ignore_errors=True)


def repo_inputs():
    return [os.path.join(REPO, 'src'), os.path.join(REPO, 'Cargo.toml'), os.path.join(REPO, 'Cargo.lock'),
            os.path.join(REPO, 'rust-toolchain.toml')]


def repo_hash():
    return _hash_tree([p for p in repo_inputs() if os.path.exists(p)] + [os.path.join(VERIF, 'engine', 'x86facts', 'src')])


_mem = {}


def public_names(d):
    """def path -> the path a user of the crate writes, for every item defined in a module that is not publicly nameable
    and re-exported (`pub use`) from one that is. Of several re-exports the one closest to the definition is taken."""
    pub = {m['path'] for m in d.get('modules', []) if m['public']}

    def nameable(mod):
        parts = mod.split('::') if mod else []
        return all('::'.join(parts[:i + 1]) in pub for i in range(len(parts)))
    cands = {}
    for r in d.get('reexports', []):
        if not r['public'] or '::' not in r['target']:
            continue
        tmod = r['target'].rsplit('::', 1)[0]
        amod = r['alias'].rsplit('::', 1)[0] if '::' in r['alias'] else ''
        if nameable(tmod) or not nameable(amod) or r['alias'] == r['target']:
            continue
        cands.setdefault(r['target'], set()).add(r['alias'])
    out = {}
    for t, al in cands.items():
        tp = t.split('::')

        def common(a):
            ap = a.split('::')
            n = 0
            while n < min(len(ap), len(tp)) and ap[n] == tp[n]:
                n += 1
            return n
        out[t] = sorted(al, key=lambda a: (-common(a), len(a), a))[0]
    return out


def canonical_text(raw, names):
    """rewrite every occurrence of a re-exported item's def path (as a whole path prefix) to its public name"""
    if not names:
        return raw
    import re
    rx = re.compile(r'(?<![A-Za-z0-9_:])(' + '|'.join(re.escape(t) for t in sorted(names, key=len, reverse=True)) + r')(?![A-Za-z0-9_])')
    return rx.sub(lambda m: names[m.group(1)], raw)


def get_facts(config='default'):
    """facts of the x86_64 crate for one build configuration (dict as written by the driver)"""
    key = ('repo', config)
    if key in _mem:
        return _mem[key]
    os.makedirs(CACHE, exist_ok=True)
    h = repo_hash()
    path = os.path.join(CACHE, 'facts-%s-%s.json' % (config, h))
    with open(os.path.join(CACHE, 'lock-' + config), 'w') as lk:
        fcntl.flock(lk, fcntl.LOCK_EX)
        if not os.path.exists(path):
            t0 = time.time()
            feats, rf = CONFIGS[config]
            _run_driver(REPO, ['x86_64'], feats, rf, path)
            sys.stderr.write('[facts] extracted %s in %.1fs\n' % (config, time.time() - t0))
            _prune(config, path)
        # read while holding the lock: a concurrent run's pruning must not remove the file in between
        with open(path) as fh:
            raw = fh.read()
    d = json.loads(raw)['x86_64']
    names = public_names(d)
    if names:
        d = json.loads(canonical_text(raw, names))['x86_64']
    d['public_names'] = names
    _mem[key] = d
    return d


def get_witness_facts():
    """facts of /verif/witness (a user crate path-depending on the repo under analysis) merged with the facts of
    x86_64 itself: witness items keep their names, x86_64's items are named as in get_facts('default') (the
    `x86_64::` crate prefix a downstream crate sees is stripped), so calls from the expansions resolve into the
    crate's own bodies."""
    key = ('witness',)
    if key in _mem:
        return _mem[key]
    os.makedirs(CACHE, exist_ok=True)
    wdir = os.path.join(VERIF, 'witness')
    h = _hash_tree([p for p in repo_inputs() if os.path.exists(p)] + [os.path.join(wdir, 'src'), os.path.join(wdir, 'Cargo.toml'),
                   os.path.join(VERIF, 'engine', 'x86facts', 'src')])
    path = os.path.join(CACHE, 'facts-witness-%s.json' % h)
    with open(os.path.join(CACHE, 'lock-witness'), 'w') as lk:
        fcntl.flock(lk, fcntl.LOCK_EX)
        if not os.path.exists(path):
            t0 = time.time()
            tmp = tempfile.mkdtemp(prefix='x86facts-witness-')
            try:
                shutil.copytree(os.path.join(wdir, 'src'), os.path.join(tmp, 'src'))
                with open(os.path.join(wdir, 'Cargo.toml')) as fh:
                    toml = fh.read()
                assert 'path = "/repo"' in toml
                with open(os.path.join(tmp, 'Cargo.toml'), 'w') as fh:
                    fh.write(toml.replace('path = "/repo"', 'path = "%s"' % REPO))
                shutil.copy(os.path.join(REPO, 'Cargo.lock'), os.path.join(tmp, 'Cargo.lock'))
                _run_driver(tmp, ['witness'], [], '', path)
            finally:
                shutil.rmtree(tmp, ignore_errors=True)
            sys.stderr.write('[facts] extracted witness in %.1fs\n' % (time.time() - t0))
            _prune('witness', path)
        with open(path) as fh:
            raw = fh.read()
    base = get_facts('default')
    w = json.loads(canonical_text(raw.replace('x86_64::', ''), base.get('public_names') or {}))['witness']
    d = {'fns': w['fns'] + base['fns'], 'consts': w['consts'] + base['consts'],
         'layouts': base['layouts'] + [l for l in w['layouts'] if l['tys'] not in set(x['tys'] for x in base['layouts'])],
         'impls': base['impls'], 'witness_fns': [f['name'] for f in w['fns']]}
    for k in base:
        d.setdefault(k, base[k])
    _mem[key] = d
    return d


def _prune(config, keep):
    pre = 'facts-%s-' % config
    old = []
    for f in os.listdir(CACHE):
        p = os.path.join(CACHE, f)
        if f.startswith(pre) and p != keep:
            try:
                old.append((os.path.getmtime(p), p))
            except OSError:
                pass
    old.sort(reverse=True)
    now = time.time()
    for mt, p in old[24:]:
        if now - mt < 1800:
            continue    # possibly in use by a concurrent run (self-test / seeded runs share the scratch cache)
        try:
            os.remove(p)
        except OSError:
            pass


if __name__ == '__main__':
    cfg = sys.argv[1] if len(sys.argv) > 1 else 'default'
    d = get_witness_facts() if cfg == 'witness' else get_facts(cfg)
    print(cfg, 'fns', len(d['fns']), 'layouts', len(d['layouts']), 'consts', len(d['consts']), 'impls', len(d['impls']))
