"""Models of callees outside the crate (core, bit_field, bitflags-generated code, volatile).

Each model is a few lines and is part of the trusted base listed in the evidence. A model receives a CallCtx and
returns a value, or a list of Outcome for calls that split the path / may panic.
"""
import re

from .bits import BV, TOP, b_and, b_not, b_or, bv_binop, bv_cast, bv_not, eq0_bit, lit, pred
from .values import UNIT, Array, Closure, Enum, FnItem, Opaque, Ptr, Ref, Struct

OPT = 'core::option::Option'
RES = 'core::result::Result'
CF = 'core::ops::ControlFlow'


def some(v):
    return Enum(OPT, 1, 'Some', [v])


def none():
    return Enum(OPT, 0, 'None')


def ok(v):
    return Enum(RES, 0, 'Ok', [v])


def err(v):
    return Enum(RES, 1, 'Err', [v])


def install(I):
    from .interp import Outcome, Unsupported, ty_width, ty_signed, _ty_str, _tykey
    M = I.models
    P = I.pattern_models

    def pat(rx):
        def deco(fn):
            P.append((re.compile(rx), fn))
            return fn
        return deco

    def deref(ctx, v):
        return ctx.I.load(ctx.st, v) if isinstance(v, (Ref, Ptr)) else v

    # ---------------------------------------------------------------- bit_field
    def range_bounds(ctx, r, w):
        n = r.name if isinstance(r, Struct) else ''

        def g(i):
            v = r.fields[i]
            if not (isinstance(v, BV) and v.is_const()):
                raise Unsupported('non-constant bit range bound %r' % (v,))
            return v.value()
        if n.endswith('ops::Range') or n.endswith('range::Range'):
            return g(0), g(1)
        if n.endswith('RangeFrom'):
            return g(0), w
        if n.endswith('RangeTo'):
            return 0, g(0)
        if n.endswith('RangeInclusive'):
            return g(0), g(1) + 1
        if n.endswith('RangeToInclusive'):
            return 0, g(0) + 1
        if n.endswith('RangeFull'):
            return 0, w
        raise Unsupported('bit range %r' % (r,))

    def m_get_bits(ctx):
        v = ctx.I.norm(ctx.st, deref(ctx, ctx.args[0]))
        lo, hi = range_bounds(ctx, ctx.args[1], v.w)
        if not (lo < hi <= v.w):
            return [ctx.panic('bit_field: invalid range')]
        return BV(v.w, v.bits[lo:hi] + (0,) * (v.w - (hi - lo)), v.signed)

    def m_set_bits(ctx):
        ref = ctx.args[0]
        v = ctx.I.norm(ctx.st, deref(ctx, ref))
        lo, hi = range_bounds(ctx, ctx.args[1], v.w)
        val = ctx.I.norm(ctx.st, ctx.args[2])
        if not (lo < hi <= v.w):
            return [ctx.panic('bit_field: invalid range')]
        extra = val.bits[hi - lo:]
        outs = []
        st = ctx.st
        if any(b == 1 for b in extra):
            return [ctx.panic('bit_field::set_bits: value does not fit')]
        rv = ctx.I.rng_of(st, val)
        if rv and min(a for a, _ in rv) >= (1 << (hi - lo)):
            return [ctx.panic('bit_field::set_bits: value does not fit')]
        if any(b != 0 for b in extra):
            # value may not fit: split on (extra == 0)
            fit = eq0_bit(tuple(extra))
            s2 = st.clone()
            if ctx.I.assume(s2, fit, 0) and not s2.dead:
                outs.append(ctx.panic('bit_field::set_bits: value does not fit', s2))
            if not ctx.I.assume(st, fit, 1) or st.dead:
                return outs
            v = ctx.I.norm(st, deref(ctx, ref))
            val = _resubst(ctx, val)
        new = BV(v.w, v.bits[:lo] + val.bits[:hi - lo] + v.bits[hi:], v.signed)
        ctx.I.store(st, ref, new)
        return [ctx.ret(ref)] + outs

    def _resubst(ctx, val):
        # after assume() memory was rewritten; operands captured earlier are re-evaluated
        return ctx.I.resub(ctx.st, val)

    def m_get_bit(ctx):
        v = deref(ctx, ctx.args[0])
        i = ctx.args[1]
        if not i.is_const():
            raise Unsupported('get_bit with symbolic index')
        if i.value() >= v.w:
            return [ctx.panic('bit_field: bit index out of range')]
        return BV(1, [v.bits[i.value()]])

    def m_set_bit(ctx):
        ref = ctx.args[0]
        v = deref(ctx, ref)
        i = ctx.args[1]
        if not i.is_const():
            raise Unsupported('set_bit with symbolic index')
        if i.value() >= v.w:
            return [ctx.panic('bit_field: bit index out of range')]
        nb = list(v.bits)
        nb[i.value()] = ctx.args[2].bits[0]
        ctx.I.store(ctx.st, ref, BV(v.w, nb, v.signed))
        return ref

    for t in ('u8', 'u16', 'u32', 'u64', 'usize'):
        M['<%s as bit_field::BitField>::get_bits' % t] = m_get_bits
        M['<%s as bit_field::BitField>::set_bits' % t] = m_set_bits
        M['<%s as bit_field::BitField>::get_bit' % t] = m_get_bit
        M['<%s as bit_field::BitField>::set_bit' % t] = m_set_bit

    # ---------------------------------------------------------------- bitflags-generated methods
    BF = re.compile(r'^(.*)::_::<impl (.*)>::(\w+)$')

    @pat(r'::_::<impl .*>::\w+$')
    def m_bitflags(ctx):
        m = BF.match(ctx.target)
        tyname, meth = m.group(2), m.group(3)
        trait = None
        if ' for ' in tyname:
            trait, tyname = tyname.split(' for ')
        I = ctx.I
        st = ctx.st
        if tyname.endswith('InternalBitFlags') or not I.is_flags_type(tyname):
            raise Unsupported('bitflags internal method %s' % ctx.target)
        meth = {'bitor': 'union', 'bitand': 'intersection', 'sub': 'difference', 'bitxor': 'symmetric_difference',
                'not': 'complement', 'bitor_assign': 'insert', 'bitand_assign': 'intersect_assign',
                'sub_assign': 'remove', 'bitxor_assign': 'toggle'}.get(meth, meth)
        ALL = I.flags_all(tyname)
        ty = {'k': 'adt', 'name': tyname, 'args': []}
        lay = I.find_layout(ty)
        w = lay['size'] * 8
        allv = BV.const(w, ALL)

        def mk(bv):
            return I.wrap_scalar(ty, bv)

        def g(i):
            return I.norm(st, I.inner_bv(st, ctx.args[i]))
        if meth == 'bits':
            return g(0)
        if meth == 'from_bits_retain':
            return mk(ctx.args[0])
        if meth == 'from_bits_truncate':
            return mk(bv_binop('BitAnd', ctx.args[0], allv))
        if meth == 'from_bits':
            a = ctx.args[0]
            extra = bv_binop('BitAnd', a, bv_not(allv))
            z = eq0_bit(extra.bits)
            outs = []
            s2 = st.clone()
            if I.assume(s2, z, 0) and not s2.dead:
                outs.append(ctx.ret(none(), s2))
            if I.assume(st, z, 1) and not st.dead:
                outs.append(ctx.ret(some(mk(_resubst(ctx, a)))))
            return outs
        if meth == 'all':
            return mk(allv)
        if meth == 'empty':
            return mk(BV.const(w, 0))
        if meth == 'contains':
            a, b = g(0), g(1)
            r = 1
            for x, y in zip(a.bits, b.bits):
                if y == 0:
                    continue
                t = x if y == 1 else b_or(b_not(y), x)
                r = b_and(r, t)
            return BV(1, [r])
        if meth == 'intersects':
            a, b = g(0), g(1)
            return BV(1, [b_not(eq0_bit(bv_binop('BitAnd', a, b).bits))])
        if meth in ('union', 'intersection', 'difference', 'symmetric_difference'):
            a, b = g(0), g(1)
            if meth == 'difference':
                b = bv_not(b)
                op = 'BitAnd'
            else:
                op = {'union': 'BitOr', 'intersection': 'BitAnd', 'symmetric_difference': 'BitXor'}[meth]
            return mk(bv_binop(op, a, b))
        if meth == 'complement':
            return mk(bv_binop('BitAnd', bv_not(g(0)), allv))
        if meth == 'is_empty':
            return BV(1, [eq0_bit(g(0).bits)])
        if meth == 'is_all':
            a = g(0)
            return BV(1, [eq0_bit(bv_binop('BitAnd', bv_not(a), allv).bits)])
        if meth in ('insert', 'remove', 'toggle', 'intersect_assign', 'set'):
            ref = ctx.args[0]
            a, b = g(0), g(1)
            if meth == 'set':
                c = ctx.args[2]
                if not c.is_const():
                    cb = c.bits[0]
                    nb = [b_or(b_and(x, b_not(y)), b_and(y, cb)) if y != 0 else x for x, y in zip(a.bits, b.bits)]
                    r = BV(w, nb)
                else:
                    r = bv_binop('BitOr', a, b) if c.value() else bv_binop('BitAnd', a, bv_not(b))
            elif meth == 'insert':
                r = bv_binop('BitOr', a, b)
            elif meth == 'remove':
                r = bv_binop('BitAnd', a, bv_not(b))
            elif meth == 'toggle':
                r = bv_binop('BitXor', a, b)
            else:
                r = bv_binop('BitAnd', a, b)
            I.store(st, ref, mk(r))
            return UNIT
        if meth in ('eq', 'ne'):
            a, b = g(0), g(1)
            return I.compare(st, 'Eq' if meth == 'eq' else 'Ne', a, b)
        if meth == 'clone':
            return deref(ctx, ctx.args[0])
        raise Unsupported('bitflags method %s' % meth)

    # ---------------------------------------------------------------- Clone of core types (integers, bool, references, Option/Result of
    # such, PhantomData ...): a bitwise copy of the value behind the reference. Clone impls of the crate itself have MIR and are interpreted.
    @pat(r'^(core::clone::Clone::clone|<.* as core::clone::Clone>::clone|core::clone::impls::.*::clone)$')
    def m_core_clone(ctx):
        res = ctx.c.get('res') or {}
        if res.get('local') or ctx.target in ctx.I.fn:
            f = ctx.I.fn.get(ctx.target)
            if f is not None:
                return ctx.I.run_fn(f, list(ctx.args), ctx.st, {}, ctx.fr.consts)
        v = deref(ctx, ctx.args[0])
        return v

    # ---------------------------------------------------------------- integer helpers
    def checked(base):
        def f(ctx):
            I, st = ctx.I, ctx.st
            a, b = ctx.args[0], ctx.args[1]
            r = I.binop(st, base + 'WithOverflow', a, b, ctx.loc, ctx.fr)
            # drop the event: a checked op is not a wrap site
            if st.events and st.events[-1][0] == 'ovf':
                st.events.pop()
            res, ov = r.fields
            if ov.is_const():
                return none() if ov.value() else some(res)
            outs = []
            s2 = st.clone()
            s2.notes.append(('checked_%s overflows' % base.lower(), 1, ctx.loc))
            feasible = True
            if base == 'Sub':
                # a < b
                feasible = I.assume(s2, _cmp_pred(I, s2, 'ult', a, b), 1)
            else:
                # overflow with one constant operand bounds the other one from below
                for x, y in ((a, b), (b, a)):
                    if y.is_const() and not x.is_const() and y.value() > 0:
                        c = y.value()
                        m_ = 1 << x.w
                        I.narrow(s2, I.resub(s2, x), (m_ - c) if base == 'Add' else -(-m_ // c), None)
            if feasible and not s2.dead:
                outs.append(ctx.ret(none(), s2))
            st.notes.append(('checked_%s overflows' % base.lower(), 0, ctx.loc))
            if base == 'Sub':
                if not I.assume(st, _cmp_pred(I, st, 'ule', b, a), 1):
                    st.dead = True
                res = I.norm(st, I.binop(st, 'Sub', I.norm(st, _resubst(ctx, a)), I.norm(st, _resubst(ctx, b)), ctx.loc, ctx.fr)) if not st.dead else res
                if st.events and st.events[-1][0] == 'ovf':
                    st.events.pop()
            elif base in ('Add', 'Mul'):
                # result < 2^w : clamp the interval of the result
                res = _clamp_result(I, st, res, a, b, base)
            if not st.dead:
                outs.append(ctx.ret(some(res)))
            return outs
        return f

    def _cmp_pred(I, st, kind, a, b):
        r = I.compare(st, 'Lt' if kind == 'ult' else 'Le', a, b)
        return r.bits[0]

    def _clamp_result(I, st, res, a, b, base):
        # no overflow on this path: with one constant operand that bounds the other one
        for x, y in ((a, b), (b, a)):
            if y.is_const() and not x.is_const():
                c = y.value()
                top = (1 << x.w) - 1
                if base == 'Mul' and c > 0:
                    I.narrow(st, x, None, top // c)
                elif base == 'Add':
                    I.narrow(st, x, None, top - c)
        if st.dead:
            return res
        res = I.resub(st, res)
        if not res.has_top() and (I.sym_of(res, st) is None or I.sym_of(res, st) not in st.defs):
            return res
        ra, rb = I.rng_of(st, a), I.rng_of(st, b)
        if not ra or not rb:
            return res
        amin, amax = min(x for x, _ in ra), max(y for _, y in ra)
        bmin, bmax = min(x for x, _ in rb), max(y for _, y in rb)
        lo = amin + bmin if base == 'Add' else amin * bmin
        hi = amax + bmax if base == 'Add' else amax * bmax
        hi = min(hi, (1 << a.w) - 1)
        if lo > hi:
            st.dead = True
            return res
        n = I.sym_of(res, st)
        if n is not None and n in st.rng:
            # the unchecked result was materialised as a symbol: on the Some path it did not wrap
            I.narrow(st, res, lo, hi)
            d = st.defs.get(n)
            if d is not None:
                st.defs[n] = (d[0], d[1], True)
            return I.norm(st, res)
        z = min(a.low_zeros(), b.low_zeros()) if base == 'Add' else min(a.w, a.low_zeros() + b.low_zeros())
        return I.fresh_num(st, a.w, 'c' + base.lower(), [(lo, hi)], z, a.signed)

    def wrapping(base):
        def f(ctx):
            a, b = ctx.args
            r = bv_binop(base, a, b)
            ctx.st.events.append(('wrapping', base, a, b, ctx.loc, ctx.fr.f['name']))
            return r
        return f

    def m_saturating_sub(ctx):
        I, st = ctx.I, ctx.st
        a, b = ctx.args
        if a.is_const() and b.is_const():
            return BV.const(a.w, max(0, a.value() - b.value()))
        c = I.compare(st, 'Lt', a, b)
        if c.is_const():
            return BV.const(a.w, 0) if c.value() else bv_binop('Sub', a, b)
        outs = []
        s2 = st.clone()
        if I.assume(s2, c.bits[0], 1) and not s2.dead:
            outs.append(ctx.ret(BV.const(a.w, 0), s2))
        if I.assume(st, c.bits[0], 0) and not st.dead:
            r = I.binop(st, 'Sub', a, b, ctx.loc, ctx.fr)
            outs.append(ctx.ret(r))
        return outs

    def m_is_pow2(ctx):
        a = ctx.I.norm(ctx.st, ctx.args[0])
        if a.is_const():
            v = a.value()
            return BV.const(1, int(v != 0 and v & (v - 1) == 0))
        nz = [b for b in a.bits if b != 0]
        return BV(1, [pred('pow2', a.bits)])

    def bitcount(kind):
        def f(ctx):
            a = ctx.I.norm(ctx.st, ctx.args[0])
            if not a.is_const():
                if kind == 'tz':
                    z = a.low_zeros()
                    # known low zeros followed by a known one decide it
                    if z < a.w and a.bits[z] == 1:
                        return BV.const(32, z)
                r = ctx.I.fresh_num(ctx.st, 32, kind, [(0, a.w)])
                if kind == 'lz':
                    nm = ctx.I.sym_of(r, ctx.st)
                    if nm is not None:
                        ctx.st.facts[('lz-of', nm)] = tuple(a.bits)
                if kind == 'ones':
                    # remembered so that `x.count_ones() == 1` is the same test as `x.is_power_of_two()`
                    nm = ctx.I.sym_of(r, ctx.st)
                    if nm is not None:
                        ctx.st.facts[('popcount-of', nm)] = tuple(a.bits)
                return r
            v = a.value()
            if kind == 'tz':
                r = a.w if v == 0 else (v & -v).bit_length() - 1
            elif kind == 'lz':
                r = a.w - v.bit_length()
            else:
                r = bin(v).count('1')
            return BV.const(32, r)
        return f

    for t in ('u8', 'u16', 'u32', 'u64', 'usize'):
        for b in ('Add', 'Sub', 'Mul'):
            M['core::num::<impl %s>::checked_%s' % (t, b.lower())] = checked(b)
            M['core::num::<impl %s>::wrapping_%s' % (t, b.lower())] = wrapping(b)
        M['core::num::<impl %s>::saturating_sub' % t] = m_saturating_sub
        M['core::num::<impl %s>::is_power_of_two' % t] = m_is_pow2
        M['core::num::<impl %s>::trailing_zeros' % t] = bitcount('tz')
        M['core::num::<impl %s>::leading_zeros' % t] = bitcount('lz')
        M['core::num::<impl %s>::count_ones' % t] = bitcount('ones')

    def overflowing(base):
        def f(ctx):
            I, st = ctx.I, ctx.st
            r = I.binop(st, base + 'WithOverflow', ctx.args[0], ctx.args[1], ctx.loc, ctx.fr)
            # the caller looks at the flag itself: this is not a silent wrap site
            if st.events and st.events[-1][0] == 'ovf':
                st.events.pop()
            return Struct('tuple', list(r.fields))
        return f

    def m_abs_diff(ctx):
        I, st = ctx.I, ctx.st
        a, b = ctx.args
        c = I.binop(st, 'Lt', a, b, ctx.loc, ctx.fr)
        def sub(s, x, y):
            r = I.binop(s, 'Sub', I.norm(s, I.resub(s, x)), I.norm(s, I.resub(s, y)), ctx.loc, ctx.fr)
            if s.events and s.events[-1][0] == 'ovf':
                s.events.pop()
            return r
        if c.is_const():
            return sub(st, b, a) if c.value() else sub(st, a, b)
        outs = []
        s2 = st.clone()
        if I.assume(s2, c.bits[0], 1) and not s2.dead:
            outs.append(ctx.ret(sub(s2, b, a), s2))
        if I.assume(st, c.bits[0], 0) and not st.dead:
            outs.append(ctx.ret(sub(st, a, b)))
        return outs

    def m_is_multiple_of(ctx):
        I, st = ctx.I, ctx.st
        a, b = ctx.args
        if b.is_const() and b.value() == 0:
            return I.binop(st, 'Eq', a, BV.const(a.w, 0), ctx.loc, ctx.fr)
        return I.binop(st, 'Eq', I.binop(st, 'Rem', a, b, ctx.loc, ctx.fr), BV.const(a.w, 0), ctx.loc, ctx.fr)

    def m_checked_next_multiple_of(ctx):
        """a.checked_next_multiple_of(b): a when b divides it, else a + (b - a % b) if that fits (None for b == 0 or on overflow)"""
        I, st = ctx.I, ctx.st
        a, b = ctx.args
        if b.is_const() and b.value() == 0:
            return none()
        if not b.is_const():
            return I.opaque_call(ctx)
        rem = I.binop(st, 'Rem', a, b, ctx.loc, ctx.fr)
        z = I.binop(st, 'Eq', rem, BV.const(a.w, 0), ctx.loc, ctx.fr)
        outs = []

        def rounded(s_):
            r2 = I.norm(s_, I.resub(s_, rem))
            d = I.binop(s_, 'Sub', b, r2, ctx.loc, ctx.fr)
            if s_.events and s_.events[-1][0] == 'ovf':
                s_.events.pop()
            import copy as _copy
            sub = _copy.copy(ctx)
            sub.st = s_
            sub.args = [I.norm(s_, I.resub(s_, a)), d]
            r = checked('Add')(sub)
            return r if isinstance(r, list) else [Outcome(s_, 'ret', r)]
        if z.is_const():
            return some(a) if z.value() else rounded(st)
        s2 = st.clone()
        if I.assume(s2, z.bits[0], 1) and not s2.dead:
            s2.events.append(('branch', z.bits[0], 1, ctx.loc, ctx.fr.f['name']))
            outs.append(ctx.ret(some(I.norm(s2, I.resub(s2, a))), s2))
        if I.assume(st, z.bits[0], 0) and not st.dead:
            st.events.append(('branch', z.bits[0], 0, ctx.loc, ctx.fr.f['name']))
            outs += rounded(st)
        return outs

    for t in ('u8', 'u16', 'u32', 'u64', 'usize'):
        M['core::num::<impl %s>::checked_next_multiple_of' % t] = m_checked_next_multiple_of
        for b in ('Add', 'Sub', 'Mul'):
            M['core::num::<impl %s>::overflowing_%s' % (t, b.lower())] = overflowing(b)
        M['core::num::<impl %s>::abs_diff' % t] = m_abs_diff
        M['core::num::<impl %s>::is_multiple_of' % t] = m_is_multiple_of

    def m_to_ne_bytes(ctx):
        a = ctx.args[0]
        elems = {}
        for i in range(a.w // 8):
            iv = BV.const(64, i)
            elems[iv.key()] = (iv, BV(8, a.bits[8 * i:8 * i + 8]))
        return Array('bytes', elems, length=a.w // 8)

    def m_from_ne_bytes(ctx):
        arr = ctx.args[0]
        bits = []
        for i in range(arr.length):
            v, _ = arr.get(BV.const(64, i))
            if not isinstance(v, BV):
                raise Unsupported('from_ne_bytes of %r' % (arr,))
            bits += list(v.bits)
        return BV(len(bits), bits)
    for t in ('u16', 'u32', 'u64'):
        M['core::num::<impl %s>::to_ne_bytes' % t] = m_to_ne_bytes
        M['core::num::<impl %s>::to_le_bytes' % t] = m_to_ne_bytes
        M['core::num::<impl %s>::from_ne_bytes' % t] = m_from_ne_bytes
        M['core::num::<impl %s>::from_le_bytes' % t] = m_from_ne_bytes

    # ---------------------------------------------------------------- conversions
    INTW = {'u8': 8, 'u16': 16, 'u32': 32, 'u64': 64, 'usize': 64, 'i8': 8, 'i16': 16, 'i32': 32, 'i64': 64, 'isize': 64,
            'u128': 128, 'i128': 128, 'bool': 1}

    @pat(r'^core::convert::num::<impl core::convert::From<(\w+)> for (\w+)>::from$')
    def m_num_from(ctx):
        m = re.search(r'From<(\w+)> for (\w+)>::from$', ctx.target)
        tgt = m.group(2)
        a = ctx.args[0]
        return bv_cast(a.with_signed(m.group(1)[0] == 'i'), INTW[tgt], tgt[0] == 'i')

    @pat(r'^core::convert::num::(ptr_try_from_impls::)?<impl core::convert::TryFrom<(\w+)> for (\w+)>::try_from$')
    def m_num_try_from(ctx):
        m = re.search(r'TryFrom<(\w+)> for (\w+)>::try_from$', ctx.target)
        src, tgt = m.group(1), m.group(2)
        I, st = ctx.I, ctx.st
        a = I.norm(st, ctx.args[0])
        w = INTW[tgt]
        if src[0] == 'i' or tgt[0] == 'i':
            raise Unsupported('signed try_from')
        if w >= a.w:
            return ok(bv_cast(a, w, False))
        hi = a.bits[w:]
        z = eq0_bit(tuple(hi))
        errv = Struct('core::num::TryFromIntError', [UNIT])
        if z in (0, 1):
            return ok(bv_cast(a, w, False)) if z else err(errv)
        outs = []
        s2 = st.clone()
        if I.assume(s2, z, 0) and not s2.dead:
            outs.append(ctx.ret(err(errv), s2))
        if I.assume(st, z, 1) and not st.dead:
            outs.append(ctx.ret(ok(bv_cast(_resubst(ctx, a), w, False))))
        return outs

    def find_from_impl(I, src_t, dst_t):
        want_self = _tykey(dst_t)
        for im in I.impls:
            if im['trait'] != 'core::convert::From':
                continue
            from .interp import _self_matches
            if not _self_matches(im['self'], dst_t):
                continue
            if src_t.get('k') == 'adt':
                if src_t['name'].split('::')[-1] not in im['traitref']:
                    continue
            else:
                if ('From<%s>' % _ty_str(src_t)) not in im['traitref']:
                    continue
            for it in im['items']:
                if it['name'] == 'from':
                    return it['path']
        return None

    def convert(ctx, v, src_t, dst_t):
        I, st = ctx.I, ctx.st
        if _tykey(src_t) == _tykey(dst_t):
            return [ctx.ret(v)]
        ws, wd = ty_width(src_t), ty_width(dst_t)
        if ws and wd and isinstance(v, BV):
            return [ctx.ret(bv_cast(v.with_signed(ty_signed(src_t)), wd, ty_signed(dst_t)))]
        p = find_from_impl(I, src_t, dst_t)
        if p and p in I.fn:
            f = I.fn[p]
            sub = {}
            if dst_t.get('k') == 'adt' and dst_t.get('args'):
                # impl<S> From<..> for X<S>
                gens = [g for g in f['generics'] if not g.startswith("'")]
                for g, a in zip(gens, dst_t['args']):
                    sub[g] = a
            st.events.append(('icall', p, (v,), ctx.loc, ctx.fr.f['name']))
            return I.run_fn(f, [v], st, sub)
        raise Unsupported('conversion %s -> %s' % (_ty_str(src_t), _ty_str(dst_t)))

    def m_into(ctx):
        # <T as Into<U>>::into
        g = [x for x in ctx.gargs if x.get('k') != 'lifetime']
        if len(g) >= 2 and g[0].get('k') != 'param' and g[1].get('k') != 'param':
            return convert(ctx, ctx.args[0], g[0], g[1])
        src = ctx.argtys[0]
        return convert(ctx, ctx.args[0], src, ctx.dest_ty)
    M['<T as core::convert::Into<U>>::into'] = m_into
    M['core::convert::Into::into'] = m_into

    def m_from(ctx):
        # core::convert::From::from unresolved or <T as From<T>>::from
        return convert(ctx, ctx.args[0], ctx.argtys[0], ctx.dest_ty)
    M['core::convert::From::from'] = m_from
    M['<T as core::convert::From<T>>::from'] = m_from

    def m_try_into(ctx):
        g = [x for x in ctx.gargs if x.get('k') != 'lifetime']
        src = g[0] if g and g[0].get('k') != 'param' else ctx.argtys[0]
        dst = g[1] if len(g) > 1 and g[1].get('k') != 'param' else ctx.dest_ty['args'][0]
        name = 'core::convert::num::<impl core::convert::TryFrom<%s> for %s>::try_from' % (_ty_str(src), _ty_str(dst))
        ctx.target = name
        return m_num_try_from(ctx)
    M['<T as core::convert::TryInto<U>>::try_into'] = m_try_into

    # ---------------------------------------------------------------- Option / Result
    def m_branch(ctx):
        v = ctx.args[0]
        if not isinstance(v, Enum):
            raise Unsupported('Try::branch on %r' % (v,))
        if v.vname in ('Ok', 'Some'):
            return Enum(CF, 0, 'Continue', [v.fields[0]])
        return Enum(CF, 1, 'Break', [v])
    M['<core::result::Result<T, E> as core::ops::Try>::branch'] = m_branch
    M['<core::option::Option<T> as core::ops::Try>::branch'] = m_branch

    def m_from_residual(ctx):
        v = ctx.args[0]
        dt = ctx.dest_ty
        if dt['name'] == OPT:
            return none()
        e = v.fields[0]
        # error type of the residual comes from the argument's type
        at = ctx.argtys[0]
        src_e = at['args'][1] if at.get('args') and len(at['args']) > 1 else None
        dst_e = dt['args'][1]
        if src_e is None or _tykey(src_e) == _tykey(dst_e):
            return err(e)
        outs = []
        for o in convert(ctx, e, src_e, dst_e):
            if o.kind == 'ret':
                outs.append(Outcome(o.st, 'ret', err(o.val)))
            else:
                outs.append(o)
        return outs
    M['<core::result::Result<T, F> as core::ops::FromResidual<core::result::Result<core::convert::Infallible, E>>>::from_residual'] = m_from_residual
    M['<core::option::Option<T> as core::ops::FromResidual<core::option::Option<core::convert::Infallible>>>::from_residual'] = m_from_residual

    def call_closure(ctx, clo, args):
        """call a closure value / fn item with already-untupled args; list of Outcome"""
        I, st = ctx.I, ctx.st
        if isinstance(clo, Closure):
            f = I.fn.get(clo.name)
            if f is None:
                raise Unsupported('closure body ' + clo.name)
            envarg = clo
            # closure bodies take the environment by value (FnOnce) or by reference
            lt = f['locals'][1]
            if lt.get('k') == 'ref':
                loc = ('obj', I.fresh('closure-env'))
                st.mem[loc] = clo
                envarg = Ref(loc)
            st.events.append(('icall', clo.name, tuple(args), ctx.loc, ctx.fr.f['name']))
            return I.run_fn(f, [envarg] + list(args), st, ctx.fr.sub)
        if isinstance(clo, FnItem):
            return I.call(st, ctx.fr, clo.c, list(args), [{'k': 'other'}] * len(args), ctx.dest_ty, ctx.loc)
        return None

    def m_map_err(ctx):
        v, clo = ctx.args
        if v.vname == 'Ok':
            return v
        outs = call_closure(ctx, clo, [v.fields[0]])
        if outs is None:
            raise Unsupported('map_err with %r' % (clo,))
        return [Outcome(o.st, 'ret', err(o.val)) if o.kind == 'ret' else o for o in outs]
    M['core::result::Result::<T, E>::map_err'] = m_map_err

    def m_map(ctx):
        v, clo = ctx.args
        if v.vname in ('None', 'Err'):
            return v
        outs = call_closure(ctx, clo, [v.fields[0]])
        if outs is None:
            raise Unsupported('map with %r' % (clo,))
        wrap = some if v.name == OPT else ok
        return [Outcome(o.st, 'ret', wrap(o.val)) if o.kind == 'ret' else o for o in outs]
    M['core::option::Option::<T>::map'] = m_map
    M['core::result::Result::<T, E>::map'] = m_map

    # ---------------------------------------------------------------- more Option / Result combinators (closure forms of `match`)
    def m_and_then(ctx):
        v, clo = ctx.args
        if v.vname in ('None', 'Err'):
            return v
        outs = call_closure(ctx, clo, [v.fields[0]])
        if outs is None:
            raise Unsupported('and_then with %r' % (clo,))
        return outs
    M['core::option::Option::<T>::and_then'] = m_and_then
    M['core::result::Result::<T, E>::and_then'] = m_and_then

    def m_unwrap_or_else(ctx):
        v, clo = ctx.args
        if v.vname in ('Some', 'Ok'):
            return v.fields[0]
        outs = call_closure(ctx, clo, [] if v.vname == 'None' else [v.fields[0]])
        if outs is None:
            raise Unsupported('unwrap_or_else with %r' % (clo,))
        return outs
    M['core::option::Option::<T>::unwrap_or_else'] = m_unwrap_or_else
    M['core::result::Result::<T, E>::unwrap_or_else'] = m_unwrap_or_else

    def m_ok_or_else(ctx):
        v, clo = ctx.args
        if v.vname == 'Some':
            return ok(v.fields[0])
        outs = call_closure(ctx, clo, [])
        if outs is None:
            raise Unsupported('ok_or_else with %r' % (clo,))
        return [Outcome(o.st, 'ret', err(o.val)) if o.kind == 'ret' else o for o in outs]
    M['core::option::Option::<T>::ok_or_else'] = m_ok_or_else

    def m_map_or(ctx):
        v, dflt, clo = ctx.args
        if v.vname in ('None', 'Err'):
            return dflt
        outs = call_closure(ctx, clo, [v.fields[0]])
        if outs is None:
            raise Unsupported('map_or with %r' % (clo,))
        return outs
    M['core::option::Option::<T>::map_or'] = m_map_or
    M['core::result::Result::<T, E>::map_or'] = m_map_or

    def m_is_some_and(ctx):
        v, clo = ctx.args
        if v.vname in ('None', 'Err'):
            return BV.const(1, 0)
        outs = call_closure(ctx, clo, [v.fields[0]])
        if outs is None:
            raise Unsupported('is_some_and with %r' % (clo,))
        return outs
    M['core::option::Option::<T>::is_some_and'] = m_is_some_and
    M['core::result::Result::<T, E>::is_ok_and'] = m_is_some_and

    def m_then_some(ctx):
        c, v = ctx.args
        I, st = ctx.I, ctx.st
        if c.is_const():
            return some(v) if c.value() else none()
        outs = []
        s2 = st.clone()
        if I.assume(s2, c.bits[0], 0) and not s2.dead:
            s2.events.append(('branch', c.bits[0], 0, ctx.loc, ctx.fr.f['name']))
            outs.append(ctx.ret(none(), s2))
        if I.assume(st, c.bits[0], 1) and not st.dead:
            st.events.append(('branch', c.bits[0], 1, ctx.loc, ctx.fr.f['name']))
            outs.append(ctx.ret(some(v)))
        return outs
    M['core::bool::<impl bool>::then_some'] = m_then_some

    def m_opt_take(ctx):
        ref = ctx.args[0]
        v = deref(ctx, ref)
        if not (isinstance(ref, Ref) and isinstance(v, Enum)):
            return ctx.I.opaque_call(ctx)
        ctx.I._store_at(ctx.st, ref.loc, ref.path, none())
        return v
    M['core::option::Option::<T>::take'] = m_opt_take

    def m_opt_replace(ctx):
        ref, nv = ctx.args
        v = deref(ctx, ref)
        if not (isinstance(ref, Ref) and isinstance(v, Enum)):
            return ctx.I.opaque_call(ctx)
        ctx.I._store_at(ctx.st, ref.loc, ref.path, some(nv))
        return v
    M['core::option::Option::<T>::replace'] = m_opt_replace

    # ---------------------------------------------------------------- core::mem
    def m_mem_replace(ctx):
        ref, nv = ctx.args
        if not isinstance(ref, Ref):
            return ctx.I.opaque_call(ctx)
        old = deref(ctx, ref)
        ctx.I.store(ctx.st, ref, nv)
        return old
    M['core::mem::replace'] = m_mem_replace

    def m_mem_take(ctx):
        """mem::take(dest) = mem::replace(dest, Default::default()) with the crate's own Default impl of the pointee"""
        I, st = ctx.I, ctx.st
        ref = ctx.args[0]
        t = ctx.argtys[0].get('to') if ctx.argtys and ctx.argtys[0].get('k') == 'ref' else None
        if not isinstance(ref, Ref) or not t or t.get('k') != 'adt':
            return I.opaque_call(ctx)
        m = I.lookup_impl('core::default::Default', 'default', [t])
        f = I.fn.get(m) if m else None
        if f is None:
            return I.opaque_call(ctx)
        outs = I.run_fn(f, [], st, {})
        if len(outs) != 1 or outs[0].kind != 'ret':
            return I.opaque_call(ctx)
        old = deref(ctx, ref)
        I.store(outs[0].st, ref, outs[0].val)
        return [Outcome(outs[0].st, 'ret', old)]
    M['core::mem::take'] = m_mem_take

    def m_mem_swap(ctx):
        a, b = ctx.args
        if not (isinstance(a, Ref) and isinstance(b, Ref)):
            return ctx.I.opaque_call(ctx)
        va, vb = deref(ctx, a), deref(ctx, b)
        ctx.I.store(ctx.st, a, vb)
        ctx.I.store(ctx.st, b, va)
        return UNIT
    M['core::mem::swap'] = m_mem_swap

    def m_array_map(ctx):
        """[T; N]::map(f): element i of the result is f(element i). When f is exact and pure on an element (one returning
        path, no event) its value is used; otherwise the element is kept as the abstract application mapped(f, x)."""
        arr, f = ctx.args
        I, st = ctx.I, ctx.st
        if not isinstance(arr, Array) or arr.length is None:
            raise Unsupported('map over %r' % (arr,))
        elems = {}
        for i in range(arr.length):
            iv = BV.const(64, i)
            x, _ = arr.get(iv)
            if x is None:
                raise Unsupported('map over array with unknown element')
            s2 = st.clone()
            n_ev = len(s2.events)
            sub = CallCtxView(ctx, s2)
            r = None
            try:
                outs = call_closure(sub, f, [x])
            except Unsupported:
                outs = None
            if outs is not None and len(outs) == 1 and outs[0].kind == 'ret' and \
                    not [e for e in outs[0].st.events[n_ev:] if e[0] not in ('icall', 'iret')]:
                r = outs[0].val
            else:
                r = Struct('mapped', [f, x])
            elems[iv.key()] = (iv, r)
        return Array('mapped', elems, length=arr.length)
    M['core::array::<impl [T; N]>::map'] = m_array_map

    class CallCtxView:
        def __init__(self, ctx, st):
            self.I, self.st, self.fr, self.c, self.target, self.gargs = ctx.I, st, ctx.fr, ctx.c, ctx.target, ctx.gargs
            self.args, self.argtys, self.dest_ty, self.loc = ctx.args, ctx.argtys, {'k': 'other'}, ctx.loc

    def m_unwrap(ctx):
        v = ctx.args[0]
        if not isinstance(v, Enum):
            raise Unsupported('unwrap on %r' % (v,))
        if v.vname in ('Ok', 'Some'):
            return v.fields[0]
        return [ctx.panic('unwrap on ' + v.vname)]
    for n in ('unwrap', 'expect'):
        M['core::result::Result::<T, E>::' + n] = m_unwrap
        M['core::option::Option::<T>::' + n] = m_unwrap

    def m_unwrap_or(ctx):
        v = ctx.args[0]
        if v.vname in ('Ok', 'Some'):
            return v.fields[0]
        return ctx.args[1]
    M['core::option::Option::<T>::unwrap_or'] = m_unwrap_or
    M['core::result::Result::<T, E>::unwrap_or'] = m_unwrap_or

    def m_ok(ctx):
        v = ctx.args[0]
        return some(v.fields[0]) if v.vname == 'Ok' else none()
    M['core::result::Result::<T, E>::ok'] = m_ok

    def m_ok_or(ctx):
        v = ctx.args[0]
        return ok(v.fields[0]) if v.vname == 'Some' else err(ctx.args[1])
    M['core::option::Option::<T>::ok_or'] = m_ok_or

    def m_is(variant):
        def f(ctx):
            v = deref(ctx, ctx.args[0])
            return BV.const(1, int(v.vname == variant))
        return f
    M['core::option::Option::<T>::is_some'] = m_is('Some')
    M['core::option::Option::<T>::is_none'] = m_is('None')
    M['core::result::Result::<T, E>::is_ok'] = m_is('Ok')
    M['core::result::Result::<T, E>::is_err'] = m_is('Err')

    def m_then(ctx):
        c, clo = ctx.args
        I, st = ctx.I, ctx.st
        outs = []
        if not c.is_const():
            s2 = st.clone()
            if I.assume(s2, c.bits[0], 0) and not s2.dead:
                # the test is a branch of the caller like any `if` (rules that read path conditions see it)
                s2.events.append(('branch', c.bits[0], 0, ctx.loc, ctx.fr.f['name']))
                outs.append(ctx.ret(none(), s2))
            if not I.assume(st, c.bits[0], 1) or st.dead:
                return outs
            st.events.append(('branch', c.bits[0], 1, ctx.loc, ctx.fr.f['name']))
        elif c.value() == 0:
            return none()
        r = call_closure(ctx, clo, [])
        if r is None:
            raise Unsupported('bool::then with %r' % (clo,))
        return outs + [Outcome(o.st, 'ret', some(o.val)) if o.kind == 'ret' else o for o in r]
    M['core::bool::<impl bool>::then'] = m_then

    # ---------------------------------------------------------------- integer ranges as iterators (`for i in a..b`)
    def m_into_iter_identity(ctx):
        # the blanket `impl<I: Iterator> IntoIterator for I`
        return ctx.args[0]
    M['<I as core::iter::IntoIterator>::into_iter'] = m_into_iter_identity

    def m_range_next(ctx):
        """exact while the comparison `start < end` is decided by the path (constant bounds, or bounds the path has related); otherwise
        the call stays opaque as before"""
        I, st = ctx.I, ctx.st
        ref = ctx.args[0]
        r = deref(ctx, ref)
        if isinstance(ref, Ref) and isinstance(r, Struct) and len(r.fields) == 2 and all(isinstance(x, BV) for x in r.fields):
            a, b = I.norm(st, r.fields[0]), I.norm(st, r.fields[1])
            if a.is_const() and b.is_const():
                if a.value() < b.value():
                    I._store_at(st, ref.loc, ref.path, Struct(r.name, [BV.const(a.w, a.value() + 1, a.signed), r.fields[1]]))
                    return some(a)
                return none()
        return I.opaque_call(ctx)
    M['core::iter::range::<impl core::iter::Iterator for core::ops::Range<A>>::next'] = m_range_next

    # ---------------------------------------------------------------- comparisons
    def cmp_model(op):
        def f(ctx):
            I, st = ctx.I, ctx.st
            a, b = deref(ctx, ctx.args[0]), deref(ctx, ctx.args[1])
            a, b = deref(ctx, a), deref(ctx, b)
            if op in ('Eq', 'Ne'):
                return struct_eq(ctx, a, b, op)
            return I.compare(st, op, I.norm(st, I.inner_bv(st, a)), I.norm(st, I.inner_bv(st, b)))
        return f

    def struct_eq(ctx, a, b, op):
        I, st = ctx.I, ctx.st
        pairs = []

        def walk(x, y):
            if isinstance(x, BV) and isinstance(y, BV):
                pairs.append((x, y))
            elif isinstance(x, Struct) and isinstance(y, Struct) and len(x.fields) == len(y.fields):
                for p, q in zip(x.fields, y.fields):
                    walk(p, q)
            elif isinstance(x, Enum) and isinstance(y, Enum):
                if x.vi is None or y.vi is None:
                    pairs.append((I.inner_or_disc(x), I.inner_or_disc(y)))
                elif x.vi != y.vi:
                    pairs.append((BV.const(1, 0), BV.const(1, 1)))
                else:
                    for p, q in zip(x.fields, y.fields):
                        walk(p, q)
            elif isinstance(x, (Ref, Ptr)) and isinstance(y, (Ref, Ptr)):
                walk(deref(ctx, x), deref(ctx, y))
            else:
                raise Unsupported('equality of %r and %r' % (x, y))
        walk(a, b)
        r = 1
        for x, y in pairs:
            c = I.compare(st, 'Eq', I.norm(st, x), I.norm(st, y))
            r = b_and(r, c.bits[0])
        return BV(1, [r if op == 'Eq' else b_not(r)])
    for nm, op in (('lt', 'Lt'), ('le', 'Le'), ('gt', 'Gt'), ('ge', 'Ge')):
        M['core::cmp::PartialOrd::' + nm] = cmp_model(op)
    M['core::cmp::PartialEq::ne'] = cmp_model('Ne')
    M['core::cmp::PartialEq::eq'] = cmp_model('Eq')

    @pat(r'^<.* as core::cmp::PartialEq(<.*>)?>::(eq|ne)$')
    def m_derived_eq(ctx):
        if ctx.target in ctx.I.fn and not (ctx.I.fn[ctx.target].get('impl') or {}).get('derived'):
            f = ctx.I.fn[ctx.target]
            return ctx.I.run_fn(f, ctx.args, ctx.st, {})
        return cmp_model('Eq' if ctx.target.endswith('::eq') else 'Ne')(ctx)

    @pat(r'^<.* as core::cmp::PartialOrd(<.*>)?>::(lt|le|gt|ge)$')
    def m_derived_ord(ctx):
        op = {'lt': 'Lt', 'le': 'Le', 'gt': 'Gt', 'ge': 'Ge'}[ctx.target.rsplit('::', 1)[1]]
        return cmp_model(op)(ctx)

    def minmax(which):
        def f(ctx):
            I, st = ctx.I, ctx.st
            a, b = ctx.args
            ka, kb = I.norm(st, I.inner_bv(st, a)), I.norm(st, I.inner_bv(st, b))
            # min: if b < a {b} else {a} ; max: if b < a {a} else {b}   (core's definitions: ties pick a for min, b for max)
            c = I.compare(st, 'Lt', kb, ka)
            pick_if = (b, a) if which == 'min' else (a, b)
            if c.is_const():
                r = pick_if[0] if c.value() else pick_if[1]
                st.events.append(('minmax', which, a, b, r, ctx.loc, ctx.fr.f['name']))
                return r
            outs = []
            s2 = st.clone()
            if I.assume(s2, c.bits[0], 1) and not s2.dead:
                r = I_resub(I, s2, pick_if[0])
                s2.events.append(('minmax', which, a, b, r, ctx.loc, ctx.fr.f['name']))
                outs.append(ctx.ret(r, s2))
            if I.assume(st, c.bits[0], 0) and not st.dead:
                r = I_resub(I, st, pick_if[1])
                st.events.append(('minmax', which, a, b, r, ctx.loc, ctx.fr.f['name']))
                outs.append(ctx.ret(r))
            return outs
        return f

    def I_resub(I, st, v):
        return I.resub(st, v)
    M['core::cmp::min'] = minmax('min')
    M['core::cmp::max'] = minmax('max')
    M['core::cmp::Ord::min'] = minmax('min')
    M['core::cmp::Ord::max'] = minmax('max')

    # ---------------------------------------------------------------- memory / pointers / misc
    def m_size_of(ctx):
        t = ctx.gargs[0] if ctx.gargs else None
        if t is None:
            raise Unsupported('size_of without type')
        w = ty_width(t)
        if w:
            return BV.const(64, (w + 7) // 8)
        lay = ctx.I.find_layout(t)
        if lay:
            return BV.const(64, lay['size'])
        raise Unsupported('size_of %s' % _ty_str(t))
    M['core::mem::size_of'] = m_size_of

    def m_ptr_add(ctx):
        return ctx.I.ptr_add(ctx.st, ctx.args[0], ctx.args[1])
    M['core::ptr::mut_ptr::<impl *mut T>::add'] = m_ptr_add
    M['core::ptr::const_ptr::<impl *const T>::add'] = m_ptr_add

    def m_slice_as_ptr(ctx):
        r = ctx.args[0]
        if isinstance(r, Ref):
            return Ref(r.loc, r.path + (('idx', BV.const(64, 0)),), True)
        raise Unsupported('as_ptr of %r' % (r,))
    M['core::slice::<impl [T]>::as_ptr'] = m_slice_as_ptr
    M['core::slice::<impl [T]>::as_mut_ptr'] = m_slice_as_ptr

    def m_array_index(ctx):
        r, i = ctx.args[0], ctx.args[1]
        if not isinstance(r, Ref):
            raise Unsupported('index of %r' % (r,))
        if isinstance(i, BV):
            return Ref(r.loc, r.path + (('idx', i),), r.raw)
        if isinstance(i, Struct):
            n = i.name
            arr = None
            try:
                arr = ctx.I.load(ctx.st, r)
            except Unsupported:
                pass
            ln = arr.length if isinstance(arr, Array) else None
            lnv = ln if isinstance(ln, BV) else (BV.const(64, ln) if ln is not None else None)
            if n.endswith('ops::Range'):
                s, e = i.fields[0], i.fields[1]
            elif n.endswith('RangeTo'):
                s, e = BV.const(64, 0), i.fields[0]
            elif n.endswith('RangeFrom'):
                s, e = i.fields[0], lnv
            elif n.endswith('RangeFull'):
                s, e = BV.const(64, 0), lnv
            elif n.endswith('RangeInclusive'):
                s, e = i.fields[0], ctx.I.binop(ctx.st, 'Add', i.fields[1], BV.const(64, 1))
            else:
                raise Unsupported('index by %r' % (i,))
            # core's bounds checks (start <= end <= len) are trusted library semantics, recorded as an event
            ctx.st.events.append(('slice-index', r, s, e, lnv, ctx.loc, ctx.fr.f['name']))
            if r.path and isinstance(r.path[-1], tuple) and r.path[-1][0] == 'sub' and isinstance(s, BV):
                # a sub-slice of a sub-slice (`v[a..][..n]`) is one sub-slice of the original: [a + s, a + e)
                _, s1, e1 = r.path[-1]
                if isinstance(s1, BV):
                    ns = ctx.I.binop(ctx.st, 'Add', s1, s, ctx.loc, ctx.fr) if not (s.is_const() and s.value() == 0) else s1
                    ne = ctx.I.binop(ctx.st, 'Add', s1, e, ctx.loc, ctx.fr) if isinstance(e, BV) else e1
                    if isinstance(ns, BV) and (ne is None or isinstance(ne, BV)):
                        return Ref(r.loc, r.path[:-1] + (('sub', ns, ne),), r.raw)
            return Ref(r.loc, r.path + (('sub', s, e),), r.raw)
        raise Unsupported('index by %r' % (i,))
    P.append((re.compile(r'^core::array::<impl core::ops::Index(Mut)?<I> for \[T; N\]>::index(_mut)?$'), m_array_index))
    P.append((re.compile(r'^core::slice::index::<impl core::ops::Index(Mut)?<I> for \[T\]>::index(_mut)?$'), m_array_index))

    # ---------------------------------------------------------------- slice iterators over arrays of known length (`for x in arr.iter()`)
    SLICE_ITER = '~slice-iter'
    ENUMERATE = '~enumerate'

    def m_slice_iter(ctx):
        r = ctx.args[0]
        if not isinstance(r, Ref):
            return ctx.I.opaque_call(ctx)
        n = ctx.I.slice_len(ctx.st, r)
        if not (isinstance(n, BV) and n.is_const() and n.value() <= 64):
            return ctx.I.opaque_call(ctx)
        return Struct(SLICE_ITER, [r, BV.const(64, 0), n])
    M['core::slice::<impl [T]>::iter'] = m_slice_iter
    M['core::slice::<impl [T]>::iter_mut'] = m_slice_iter

    def m_enumerate(ctx):
        it = ctx.args[0]
        if isinstance(it, Struct) and it.name == SLICE_ITER:
            return Struct(ENUMERATE, [it, BV.const(64, 0)])
        return ctx.I.opaque_call(ctx)
    M['core::iter::Iterator::enumerate'] = m_enumerate

    def _slice_iter_step(it):
        r, pos, n = it.fields
        if pos.value() < n.value():
            return Struct(SLICE_ITER, [r, BV.const(64, pos.value() + 1), n]), Ref(r.loc, r.path + (('idx', pos),), r.raw)
        return it, None

    def m_iter_next(ctx):
        I, st = ctx.I, ctx.st
        ref = ctx.args[0]
        it = deref(ctx, ref) if isinstance(ref, Ref) else None
        if isinstance(it, Struct) and it.name == SLICE_ITER:
            it2, item = _slice_iter_step(it)
            I._store_at(st, ref.loc, ref.path, it2)
            return some(item) if item is not None else none()
        if isinstance(it, Struct) and it.name == ENUMERATE and isinstance(it.fields[0], Struct) and it.fields[0].name == SLICE_ITER:
            inner, item = _slice_iter_step(it.fields[0])
            cnt = it.fields[1]
            if item is None:
                return none()
            I._store_at(st, ref.loc, ref.path, Struct(ENUMERATE, [inner, BV.const(64, cnt.value() + 1)]))
            return some(Struct('tuple', [cnt, item]))
        return I.opaque_call(ctx)
    COPIED = '~copied'

    def m_copied(ctx):
        it = ctx.args[0]
        if isinstance(it, Struct) and it.name == SLICE_ITER:
            return Struct(COPIED, [it])
        return ctx.I.opaque_call(ctx)
    M['core::iter::Iterator::copied'] = m_copied
    M['core::iter::Iterator::cloned'] = m_copied

    def _remaining(ctx, ref):
        """the elements a modelled iterator over a small array still has to yield (values, for a by-value adaptor), or None"""
        it = deref(ctx, ref) if isinstance(ref, Ref) else ref
        by_value = False
        if isinstance(it, Struct) and it.name == COPIED:
            it, by_value = it.fields[0], True
        if not (isinstance(it, Struct) and it.name == SLICE_ITER):
            return None
        r, pos, n = it.fields
        items = []
        for k in range(pos.value(), n.value()):
            e = Ref(r.loc, r.path + (('idx', BV.const(64, k)),), r.raw)
            items.append(ctx.I.load(ctx.st, e) if by_value else e)
        return items

    def _pred_bit(ctx, st, clo, item):
        """truth of pred(item) as one bit, when the predicate is a pure one-path function of it"""
        sub = CallCtxView(ctx, st)
        n_ev = len(st.events)
        arg = item
        outs = call_closure(sub, clo, [arg])
        if outs is None or len(outs) != 1 or outs[0].kind != 'ret' or not isinstance(outs[0].val, BV) or outs[0].val.w != 1:
            return None
        if [e for e in outs[0].st.events[n_ev:] if e[0] not in ('icall', 'iret')]:
            return None
        return outs[0].val.bits[0]

    def m_iter_search(kind):
        def f(ctx):
            I, st = ctx.I, ctx.st
            items = _remaining(ctx, ctx.args[0])
            if items is None or len(ctx.args) != 2:
                return I.opaque_call(ctx)
            clo = ctx.args[1]
            if kind in ('any', 'all'):
                acc = 0 if kind == 'any' else 1
                for it in items:
                    # `any`/`all` hand the item itself to the predicate
                    b = _pred_bit(ctx, st, clo, it)
                    if b is None:
                        return I.opaque_call(ctx)
                    acc = b_or(acc, b) if kind == 'any' else b_and(acc, b)
                return BV(1, [acc])
            # find / position: the first element whose predicate holds; one path per candidate while the predicate is undecided
            outs = []
            cur = st
            for k, it in enumerate(items):
                parg = it
                if kind == 'find':
                    # find passes a reference to the item
                    loc = ('obj', I.fresh('find-item'))
                    cur.mem[loc] = it
                    parg = Ref(loc)
                b = _pred_bit(ctx, cur, clo, parg)
                if b is None:
                    return I.opaque_call(ctx)
                res = some(it if kind == 'find' else BV.const(64, k))
                if b == 1:
                    outs.append(ctx.ret(res, cur))
                    return outs
                if b == 0:
                    continue
                hit = cur.clone()
                if I.assume(hit, b, 1) and not hit.dead:
                    hit.events.append(('branch', b, 1, ctx.loc, ctx.fr.f['name']))
                    outs.append(ctx.ret(res, hit))
                if not I.assume(cur, b, 0) or cur.dead:
                    return outs
                cur.events.append(('branch', b, 0, ctx.loc, ctx.fr.f['name']))
            outs.append(ctx.ret(none(), cur))
            return outs
        return f
    def m_opt_filter(ctx):
        """opt.filter(pred): the value when it is Some and pred(&value) holds, one path per verdict"""
        I, st = ctx.I, ctx.st
        v, clo = ctx.args
        if not isinstance(v, Enum):
            return I.opaque_call(ctx)
        if v.vname == 'None':
            return v
        loc = ('obj', I.fresh('filter-item'))
        st.mem[loc] = v.fields[0]
        b = _pred_bit(ctx, st, clo, Ref(loc))
        if b is None:
            return I.opaque_call(ctx)
        if b in (0, 1):
            return v if b else none()
        outs = []
        s2 = st.clone()
        if I.assume(s2, b, 0) and not s2.dead:
            s2.events.append(('branch', b, 0, ctx.loc, ctx.fr.f['name']))
            outs.append(ctx.ret(none(), s2))
        if I.assume(st, b, 1) and not st.dead:
            st.events.append(('branch', b, 1, ctx.loc, ctx.fr.f['name']))
            outs.append(ctx.ret(some(I.norm(st, I.resub(st, v.fields[0]))), st))
        return outs
    M['core::option::Option::<T>::filter'] = m_opt_filter

    for kind_ in ('any', 'all', 'find', 'position'):
        P.append((re.compile(r'(^core::iter::Iterator|as core::iter::Iterator>)::%s$' % kind_), m_iter_search(kind_)))

    P.append((re.compile(r"^<core::slice::Iter(Mut)?<'_, T> as core::iter::Iterator>::next$"), m_iter_next))
    M['<core::iter::Enumerate<I> as core::iter::Iterator>::next'] = m_iter_next

    def m_slice_get(ctx):
        """`slice.get(i)` for an integer index: Some(&slice[i]) when i < len, None otherwise (both explored when the path does not decide)"""
        I, st = ctx.I, ctx.st
        r, i = ctx.args[0], ctx.args[1]
        if not (isinstance(r, Ref) and isinstance(i, BV)):
            return I.opaque_call(ctx)
        ln = I.slice_len(st, r)
        c = I.binop(st, 'Lt', i, ln, ctx.loc, ctx.fr)
        elem = Ref(r.loc, r.path + (('idx', i),), r.raw)
        if c.is_const():
            return some(elem) if c.value() else none()
        outs = []
        s2 = st.clone()
        if I.assume(s2, c.bits[0], 0) and not s2.dead:
            outs.append(ctx.ret(none(), s2))
        if I.assume(st, c.bits[0], 1) and not st.dead:
            # a small table of constants read at an index the path does not fix: one path per element (a lookup table is a `match`)
            arr = None
            try:
                arr = I.load(st, r)
            except Unsupported:
                pass
            n = ln.value() if isinstance(ln, BV) and ln.is_const() else None
            if isinstance(arr, Array) and n is not None and n <= 64 and len(arr.elems) == n and all(iv.is_const() for iv, _ in arr.elems.values()):
                from .bits import eq_bit
                for k in range(n):
                    sk = st.clone()
                    kv = BV.const(i.w, k)
                    if I.assume(sk, eq_bit(tuple(I.norm(sk, i).bits), tuple(kv.bits)), 1) and not sk.dead:
                        outs.append(ctx.ret(some(Ref(r.loc, r.path + (('idx', kv),), r.raw)), sk))
                return outs
            outs.append(ctx.ret(some(elem)))
        return outs
    M['core::slice::<impl [T]>::get'] = m_slice_get

    def m_opt_copied(ctx):
        v = ctx.args[0]
        if isinstance(v, Enum) and v.vname == 'Some':
            return some(deref(ctx, v.fields[0]))
        if isinstance(v, Enum) and v.vname == 'None':
            return none()
        return ctx.I.opaque_call(ctx)
    M['core::option::Option::<&T>::copied'] = m_opt_copied
    M['core::option::Option::<&T>::cloned'] = m_opt_copied

    def m_opt_flatten(ctx):
        v = ctx.args[0]
        if isinstance(v, Enum) and v.vname == 'Some' and isinstance(v.fields[0], Enum):
            return v.fields[0]
        if isinstance(v, Enum) and v.vname == 'None':
            return none()
        return ctx.I.opaque_call(ctx)
    M['core::option::Option::<core::option::Option<T>>::flatten'] = m_opt_flatten

    def m_slice_len(ctx):
        return ctx.I.slice_len(ctx.st, ctx.args[0])
    M['core::slice::<impl [T]>::len'] = m_slice_len

    def m_identity(ctx):
        return ctx.args[0]
    M['core::ptr::mut_ptr::<impl *mut T>::cast'] = m_identity
    M['core::ptr::const_ptr::<impl *const T>::cast'] = m_identity
    M['core::ptr::const_ptr::<impl *const T>::cast_mut'] = m_identity
    M['core::ptr::mut_ptr::<impl *mut T>::cast_const'] = m_identity
    M['core::hint::black_box'] = m_identity
    M['<T as core::convert::Into<T>>::into'] = m_identity

    def m_volatile_new(ctx):
        return Struct('volatile::Volatile', [ctx.args[0], UNIT])
    M['volatile::Volatile::<R>::new'] = m_volatile_new

    def m_atomic_new(ctx):
        return Struct('core::sync::atomic::AtomicU64', [ctx.args[0]])
    M['core::sync::atomic::Atomic::<u64>::new'] = m_atomic_new
    M['core::sync::atomic::AtomicU64::new'] = m_atomic_new

    def m_atomic_load(ctx):
        v = deref(ctx, ctx.args[0])
        return ctx.I.inner_bv(ctx.st, v)
    M['core::sync::atomic::Atomic::<u64>::load'] = m_atomic_load
    M['core::sync::atomic::AtomicU64::load'] = m_atomic_load

    def m_range_incl_new(ctx):
        return Struct('core::ops::RangeInclusive', [ctx.args[0], ctx.args[1], BV.const(1, 0)])
    M['core::ops::RangeInclusive::<Idx>::new'] = m_range_incl_new

    def m_cpuid(ctx):
        n = next(ctx.I.counter)
        ctx.st.events.append(('call', ctx.target, tuple(ctx.args), ctx.loc, ctx.fr.f['name'], n))
        return Struct('core::arch::x86_64::CpuidResult', [BV.sym(32, 'cpuid%d.%s' % (n, r)) for r in ('eax', 'ebx', 'ecx', 'edx')])
    M['core::arch::x86_64::__cpuid'] = m_cpuid
    M['core::arch::x86_64::__cpuid_count'] = m_cpuid

    @pat(r'^core::fmt::')
    def m_fmt(ctx):
        return Opaque('fmt')

    # RangeBounds::{start,end}_bound on the std range types
    BOUND = 'core::ops::Bound'

    def bound(which):
        def f(ctx):
            r = ctx.args[0]
            v = deref(ctx, r)
            n = v.name if isinstance(v, Struct) else ''

            def fld(i):
                if isinstance(v.fields[i], Ref):
                    return v.fields[i]   # Range<&u8>: the bound is the stored reference itself
                return Ref(r.loc, r.path + (i,))
            inc = lambda x: Enum(BOUND, 0, 'Included', [x])
            exc = lambda x: Enum(BOUND, 1, 'Excluded', [x])
            unb = Enum(BOUND, 2, 'Unbounded')
            if n.endswith('ops::Range'):
                return inc(fld(0)) if which == 'start' else exc(fld(1))
            if n.endswith('RangeInclusive'):
                return inc(fld(0)) if which == 'start' else inc(fld(1))
            if n.endswith('RangeFrom'):
                return inc(fld(0)) if which == 'start' else unb
            if n.endswith('RangeToInclusive'):
                return unb if which == 'start' else inc(fld(0))
            if n.endswith('RangeTo'):
                return unb if which == 'start' else exc(fld(0))
            if n.endswith('RangeFull'):
                return unb
            if n == 'tuple' and len(v.fields) == 2:
                # (Bound<T>, Bound<T>)
                b = v.fields[0 if which == 'start' else 1]
                if isinstance(b, Enum):
                    if b.vname == 'Unbounded':
                        return unb
                    inner = Ref(r.loc, r.path + (0 if which == 'start' else 1, 0))
                    if isinstance(b.fields[0], Ref):
                        inner = b.fields[0]
                    return Enum(BOUND, b.vi, b.vname, [inner])
            raise Unsupported('RangeBounds::%s_bound of %r' % (which, v))
        return f
    P.append((re.compile(r'core::ops::RangeBounds(<.*>)?>?::start_bound$'), bound('start')))
    P.append((re.compile(r'core::ops::RangeBounds(<.*>)?>?::end_bound$'), bound('end')))
    M['core::ops::RangeBounds::start_bound'] = bound('start')
    M['core::ops::RangeBounds::end_bound'] = bound('end')

    def m_range_contains(ctx):
        I, st = ctx.I, ctx.st
        r = deref(ctx, ctx.args[0])
        x = deref(ctx, ctx.args[1])
        n = r.name if isinstance(r, Struct) else ''
        conds = []
        if n.endswith('ops::Range'):
            conds = [('Le', r.fields[0], x), ('Lt', x, r.fields[1])]
        elif n.endswith('RangeInclusive'):
            conds = [('Le', r.fields[0], x), ('Le', x, r.fields[1])]
        elif n.endswith('RangeFrom'):
            conds = [('Le', r.fields[0], x)]
        elif n.endswith('RangeToInclusive'):
            conds = [('Le', x, r.fields[0])]
        elif n.endswith('RangeTo'):
            conds = [('Lt', x, r.fields[0])]
        elif n.endswith('RangeFull'):
            conds = []
        else:
            raise Unsupported('contains on %r' % (r,))
        res = 1
        for op, a, b in conds:
            c = I.compare(st, op, I.norm(st, a), I.norm(st, b))
            res = b_and(res, c.bits[0])
        return BV(1, [res])
    P.append((re.compile(r'^core::ops::Range\w*::<Idx>::contains$'), m_range_contains))
    P.append((re.compile(r'RangeBounds::contains$'), m_range_contains))
